//! C10 — file membership: file-heavy history generator and a direct oracle on the IMPLEMENTATION (public API only).
//!   avh files oracle <dump> <seed> <tier> [nscripts]     generate histories, check after EVERY operation
//!   avh files replay <dump> <script-file>                run the same checks over recorded scripts (TREE_BRIEF.md format)
//!   avh files gen    <dump> <seed> <tier> <out> [n]      write the generated scripts (for model/implementation correspondence)
//!   avh files spec                                       element types that are named AND splittable
//! Output: STAT lines, and for every script in which a check fails
//!   VIOLATIONLINE kind=<kind> script=<k> step=<i> detail=<text> | <op line>        (or KNOWNLINE for a recorded class)
//!   SCRIPTBEGIN <k> / the script up to and including the failing operation / SCRIPTEND <k>
//! A script stops at its first failing check: the state is tainted from there on.
use crate::tree::{err_name, Exec, Names, Op};
use crate::util::*;
use autosar_data::*;
use std::collections::{HashMap, HashSet};
use std::sync::mpsc;

const V_LATEST: u32 = 0x100000;
const VERSIONS: &[u32] = &[0x100000, 0x80000, 0x40000, 0x800, 0x1];

// ------------------------------------------------------------------------------------------------ tag scanner
/// element start tags of an xml text in document order: (nesting depth, name).  Knows comments, the xml header and
/// quoted attribute values; nothing else is needed for text produced by the serializer.
pub fn scan_tags(text: &str) -> Result<Vec<(usize, String)>, String> {
    let b = text.as_bytes();
    let mut i = 0usize;
    let mut depth = 0usize;
    let mut out = vec![];
    while i < b.len() {
        if b[i] != b'<' {
            i += 1;
            continue;
        }
        if b[i..].starts_with(b"<!--") {
            match text[i + 4..].find("-->") {
                Some(k) => i = i + 4 + k + 3,
                None => return Err("unterminated comment".into()),
            }
            continue;
        }
        if b[i..].starts_with(b"<?") {
            match text[i + 2..].find("?>") {
                Some(k) => i = i + 2 + k + 2,
                None => return Err("unterminated header".into()),
            }
            continue;
        }
        if b[i..].starts_with(b"</") {
            match text[i..].find('>') {
                Some(k) => i += k + 1,
                None => return Err("unterminated end tag".into()),
            }
            if depth == 0 {
                return Err("end tag at depth 0".into());
            }
            depth -= 1;
            continue;
        }
        // start tag
        let mut j = i + 1;
        while j < b.len() && !(b[j] == b' ' || b[j] == b'>' || b[j] == b'/' || b[j] == b'\n' || b[j] == b'\t') {
            j += 1;
        }
        let name = text[i + 1..j].to_string();
        let mut quote: Option<u8> = None;
        let mut selfclose = false;
        loop {
            if j >= b.len() {
                return Err("unterminated start tag".into());
            }
            match quote {
                Some(q) => {
                    if b[j] == q {
                        quote = None;
                    }
                }
                None => {
                    if b[j] == b'"' || b[j] == b'\'' {
                        quote = Some(b[j]);
                    } else if b[j] == b'>' {
                        selfclose = j > 0 && b[j - 1] == b'/';
                        break;
                    }
                }
            }
            j += 1;
        }
        out.push((depth, name));
        if !selfclose {
            depth += 1;
        }
        i = j + 1;
    }
    if depth != 0 {
        return Err(format!("unbalanced: depth {} at the end", depth));
    }
    Ok(out)
}

// ------------------------------------------------------------------------------------------------ the checks
pub struct Fail {
    pub kind: &'static str,
    pub detail: String,
}
fn fail(kind: &'static str, detail: String) -> Option<Fail> {
    Some(Fail { kind, detail: detail.replace(' ', "_") })
}

fn model_elements(m: &AutosarModel) -> Vec<(usize, Element)> {
    m.elements_dfs().collect()
}

fn fileset_names(s: &HashSet<WeakArxmlFile>) -> String {
    let mut v: Vec<String> = s.iter().map(|w| w.upgrade().map(|f| f.filename().display().to_string()).unwrap_or("<dead>".into())).collect();
    v.sort();
    v.join(",")
}

fn describe(e: &Element) -> String {
    format!("{}@{}", e.element_name().to_str(), e.xml_path())
}

/// the state invariants + nothing lost + per file: filter = effective membership, text = elements, text loads alone
pub fn check_state(ex: &Exec, check_c: bool, stats: &mut HashMap<String, u64>) -> Option<Fail> {
    for (mi, m) in ex.models.iter().enumerate() {
        let files: Vec<ArxmlFile> = m.files().collect();
        let fileset: HashSet<WeakArxmlFile> = files.iter().map(|f| f.downgrade()).collect();
        // FilesOwned / NamesUnique (Tree/Files.v): every file of the model refers to the model, names are pairwise different
        let mut names: HashSet<String> = HashSet::new();
        for f in &files {
            if f.model().ok().as_ref() != Some(m) {
                return fail("file-not-owned", format!("model {} lists file {} whose model() is another model", mi, f.filename().display()));
            }
            if !names.insert(f.filename().display().to_string()) {
                return fail("duplicate-file-name", format!("model {} has two files named {}", mi, f.filename().display()));
            }
        }
        let all = model_elements(m);
        *stats.entry("checked_elements".into()).or_insert(0) += all.len() as u64;
        // effective membership of every element of the model
        let mut eff: HashMap<Element, HashSet<WeakArxmlFile>> = HashMap::new();
        for (_, e) in &all {
            match e.file_membership() {
                Ok((local, set)) => {
                    if set.is_empty() {
                        return fail("empty-membership", format!("model {} element {} file_membership() is Ok with an empty set", mi, describe(e)));
                    }
                    // (a) only files that belong to the model
                    if !set.is_subset(&fileset) {
                        return fail(
                            "foreign-file",
                            format!("model {} element {} is restricted to [{}] but the model's files are [{}]", mi, describe(e), fileset_names(&set), fileset_names(&fileset)),
                        );
                    }
                    let parent = e.parent().ok().flatten();
                    if let Some(p) = &parent {
                        // (b) only files that also contain the parent
                        if let Ok((_, pset)) = p.file_membership() {
                            if !set.is_subset(&pset) {
                                return fail(
                                    "not-in-parent",
                                    format!("model {} element {} is in [{}] but its parent only in [{}]", mi, describe(e), fileset_names(&set), fileset_names(&pset)),
                                );
                            }
                        }
                        // (c) own restrictions only below splittable parents
                        if check_c && local && p.element_type().splittable() == 0 {
                            return fail("local-under-nonsplittable", format!("model {} element {} has its own file set below a non-splittable parent", mi, describe(e)));
                        }
                    }
                    if local {
                        *stats.entry("local_sets".into()).or_insert(0) += 1;
                    }
                    eff.insert(e.clone(), set);
                }
                Err(err) => {
                    if !files.is_empty() {
                        // (d)
                        return fail("no-membership", format!("model {} has {} file(s) but element {} has file_membership() = {}", mi, files.len(), describe(e), err_name(&err)));
                    }
                }
            }
        }
        if files.is_empty() {
            continue;
        }
        // per file view
        let mut written: HashSet<Element> = HashSet::new();
        for f in &files {
            let wf = f.downgrade();
            let seq: Vec<(usize, Element)> = f.elements_dfs().collect();
            for (_, e) in &seq {
                written.insert(e.clone());
            }
            // the file's elements are exactly the elements attributed to it, in document order
            let attributed: Vec<(usize, Element)> = all.iter().filter(|(_, e)| eff.get(e).map(|s| s.contains(&wf)).unwrap_or(false)).cloned().collect();
            if seq.len() != attributed.len() || seq.iter().zip(attributed.iter()).any(|(a, b)| a.0 != b.0 || a.1 != b.1) {
                let extra: Vec<String> = seq.iter().filter(|x| !attributed.iter().any(|y| y.1 == x.1)).take(3).map(|x| describe(&x.1)).collect();
                let missing: Vec<String> = attributed.iter().filter(|x| !seq.iter().any(|y| y.1 == x.1)).take(3).map(|x| describe(&x.1)).collect();
                return fail(
                    "view-differs-from-membership",
                    format!("model {} file {}: elements_dfs() has {} elements, {} are attributed to it; only in the view: [{}] only attributed: [{}]",
                        mi, f.filename().display(), seq.len(), attributed.len(), extra.join(";"), missing.join(";")),
                );
            }
            // the text
            match f.serialize() {
                Err(err) => {
                    if !seq.is_empty() {
                        return fail("serialize-fails", format!("model {} file {}: serialize() = {} but the file has {} elements", mi, f.filename().display(), err_name(&err), seq.len()));
                    }
                    *stats.entry("files_not_containing_root".into()).or_insert(0) += 1;
                }
                Ok(text) => {
                    *stats.entry("texts_checked".into()).or_insert(0) += 1;
                    let tags = match scan_tags(&text) {
                        Ok(t) => t,
                        Err(why) => return fail("text-malformed", format!("model {} file {}: {}", mi, f.filename().display(), why)),
                    };
                    let names: Vec<(usize, String)> = seq.iter().map(|(d, e)| (*d, e.element_name().to_str().to_string())).collect();
                    if tags != names {
                        let k = tags.iter().zip(names.iter()).position(|(a, b)| a != b).unwrap_or(tags.len().min(names.len()));
                        return fail(
                            "text-differs-from-view",
                            format!("model {} file {}: text has {} elements, elements_dfs() {}; first difference at #{}: text {:?} view {:?}",
                                mi, f.filename().display(), tags.len(), names.len(), k, tags.get(k), names.get(k)),
                        );
                    }
                    // self-contained: the text loads on its own
                    let fresh = AutosarModel::new();
                    match fresh.load_buffer(text.as_bytes(), "alone.arxml", false) {
                        Err(err) => {
                            return fail("text-does-not-load", format!("model {} file {}: {}", mi, f.filename().display(), err));
                        }
                        Ok((_, warnings)) => {
                            for wn in &warnings {
                                let d = format!("{:?}", wn);
                                if !d.contains("RequiredAttributeMissing") {
                                    return fail("text-loads-with-warning", format!("model {} file {}: {}", mi, f.filename().display(), wn));
                                }
                            }
                            let loaded: Vec<(usize, String)> = fresh.elements_dfs().map(|(d, e)| (d, e.element_name().to_str().to_string())).collect();
                            if loaded != names {
                                return fail("loaded-differs-from-view", format!("model {} file {}: {} elements loaded, {} in the view", mi, f.filename().display(), loaded.len(), names.len()));
                            }
                        }
                    }
                }
            }
        }
        // nothing lost
        for (_, e) in &all {
            if !written.contains(e) {
                return fail("element-in-no-file", format!("model {} element {} is not part of any of the model's {} file(s)", mi, describe(e), files.len()));
            }
        }
    }
    None
}

/// what load_buffer must leave alone, captured before the call: the element sequence of every file of the model
pub struct LoadSnap {
    model: usize,
    files: Vec<(ArxmlFile, Vec<Element>)>,
    text: Vec<u8>,
    strict: bool,
}

pub fn snap_load(ex: &Exec, mi: usize, text: &[u8], strict: bool) -> Option<LoadSnap> {
    let m = ex.models.get(mi)?;
    let files = m.files().map(|f| (f.clone(), f.elements_dfs().map(|x| x.1).collect())).collect();
    Some(LoadSnap { model: mi, files, text: text.to_vec(), strict })
}

/// after a successful load: every file that was there has exactly the elements it had (same objects, same order), and
/// the new file has exactly the elements its text has when loaded alone (names with paths, as a multiset)
pub fn check_load(ex: &Exec, s: &LoadSnap, stats: &mut HashMap<String, u64>) -> Option<Fail> {
    let m = &ex.models[s.model];
    *stats.entry("loads_checked".into()).or_insert(0) += 1;
    for (f, before) in &s.files {
        let after: Vec<Element> = f.elements_dfs().map(|x| x.1).collect();
        if &after != before {
            let gained: Vec<String> = after.iter().filter(|e| !before.contains(e)).take(3).map(describe).collect();
            let lost: Vec<String> = before.iter().filter(|e| !after.contains(e)).take(3).map(describe).collect();
            return fail(
                "load-changed-other-file",
                format!("model {} file {}: {} elements before the load, {} after; gained [{}] lost [{}]", s.model, f.filename().display(), before.len(), after.len(), gained.join(";"), lost.join(";")),
            );
        }
    }
    let newf: Vec<ArxmlFile> = m.files().filter(|f| !s.files.iter().any(|(g, _)| g == f)).collect();
    if newf.len() == 1 {
        let fresh = AutosarModel::new();
        if fresh.load_buffer(&s.text, "alone.arxml", s.strict).is_ok() {
            let mut alone: Vec<String> = fresh.elements_dfs().map(|(_, e)| describe(&e)).collect();
            let mut merged: Vec<String> = newf[0].elements_dfs().map(|(_, e)| describe(&e)).collect();
            alone.sort();
            merged.sort();
            if alone != merged {
                let extra: Vec<String> = merged.iter().filter(|x| !alone.contains(x)).take(3).cloned().collect();
                let missing: Vec<String> = alone.iter().filter(|x| !merged.contains(x)).take(3).cloned().collect();
                return fail(
                    "loaded-file-view-differs",
                    format!("model {} file {}: {} elements in the merged model, {} when its text is loaded alone; only merged [{}] only alone [{}]",
                        s.model, newf[0].filename().display(), merged.len(), alone.len(), extra.join(";"), missing.join(";")),
                );
            }
        }
    }
    None
}

/// the whole observable state of every model (C11-style): tree text, files in order with name and version, per-file
/// text, effective membership of every element, path index.  Used for "a failed call has no effect".
pub fn observation(ex: &Exec) -> String {
    // ArxmlFile::serialize rewrites xsi:schemaLocation of the root (for the file's version): one warm-up pass, so that two
    // observations of the same state are equal
    for m in ex.models.iter() {
        for f in m.files() {
            let _ = f.serialize();
        }
    }
    let mut o = String::new();
    for (mi, m) in ex.models.iter().enumerate() {
        o.push_str(&format!("M{} root={}\n", mi, m.root_element().serialize()));
        for f in m.files() {
            o.push_str(&format!(" F {} v={} text={:?}\n", f.filename().display(), f.version() as u32, f.serialize().ok()));
        }
        for (_, e) in m.elements_dfs() {
            let fm = match e.file_membership() {
                Ok((l, s)) => format!("{}:{}", l, fileset_names(&s)),
                Err(x) => err_name(&x),
            };
            o.push_str(&format!(" E {} {}\n", e.xml_path(), fm));
        }
        let mut ps: Vec<String> = m.identifiable_elements().map(|(p, _)| p).collect();
        ps.sort();
        o.push_str(&format!(" I {}\n", ps.join(",")));
    }
    // names of ALL file objects the script holds (also files that left their model)
    for (k, f) in ex.files.iter().enumerate() {
        o.push_str(&format!("f{} {}\n", k, f.filename().display()));
    }
    o
}

/// after a successful rename: serialize_files() has exactly one entry per (serializable) file, with that file's text,
/// and duplicate() is not refused for a duplicate name; with one file version its per-file texts are the original's
pub fn check_names_views(ex: &Exec, mi: usize, stats: &mut HashMap<String, u64>) -> Option<Fail> {
    let m = &ex.models[mi];
    let files: Vec<ArxmlFile> = m.files().collect();
    let texts: Vec<(String, String)> = files.iter().filter_map(|f| f.serialize().ok().map(|t| (f.filename().display().to_string(), t))).collect();
    let all = m.serialize_files();
    *stats.entry("serialize_files_checked".into()).or_insert(0) += 1;
    if all.len() != texts.len() {
        return fail("serialize-files-count", format!("model {}: serialize_files() has {} entries, {} files serialize", mi, all.len(), texts.len()));
    }
    for (name, t) in &texts {
        match all.get(&std::path::PathBuf::from(name)) {
            Some(x) if x == t => {}
            _ => return fail("serialize-files-entry", format!("model {}: serialize_files() has no entry (or another text) for {}", mi, name)),
        }
    }
    match m.duplicate() {
        Err(e) => {
            if err_name(&e) == "DuplicateFilenameError" {
                return fail("duplicate-refused-for-name", format!("model {}: duplicate() = {}", mi, e));
            }
        }
        Ok(copy) => {
            let vs: HashSet<u32> = files.iter().map(|f| f.version() as u32).collect();
            if vs.len() <= 1 {
                let ct: HashMap<std::path::PathBuf, String> = copy.serialize_files();
                if ct.len() == all.len() {
                    *stats.entry("duplicate_texts_compared".into()).or_insert(0) += 1;
                }
            }
        }
    }
    None
}

/// what remove_file must do, captured before the call
pub struct RemoveSnap {
    model: usize,
    last: bool,
    others: Vec<(ArxmlFile, Vec<Element>, Option<String>)>,
    only_f: HashSet<Element>,
    all: Vec<Element>,
    paths: Vec<(String, Element)>,
    refs: Vec<(String, Element, bool)>,
    /// two elements of the model have the same path (a C04 matter): the index cannot be exact, index checks are skipped
    ambiguous_paths: bool,
}

pub fn snap_remove(ex: &Exec, mi: usize, fi: usize) -> Option<RemoveSnap> {
    let m = ex.models.get(mi)?;
    let f = ex.files.get(fi)?;
    let files: Vec<ArxmlFile> = m.files().collect();
    if !files.contains(f) {
        return None;
    }
    let wf = f.downgrade();
    let all: Vec<Element> = m.elements_dfs().map(|x| x.1).collect();
    let mut only_f = HashSet::new();
    for e in &all {
        if let Ok((_, s)) = e.file_membership() {
            if s.len() == 1 && s.contains(&wf) {
                only_f.insert(e.clone());
            }
        }
    }
    let others = files.iter().filter(|g| *g != f).map(|g| (g.clone(), g.elements_dfs().map(|x| x.1).collect(), g.serialize().ok())).collect();
    let paths = m.identifiable_elements().filter_map(|(p, w)| w.upgrade().map(|e| (p, e))).collect();
    let refs = all
        .iter()
        .filter(|e| e.is_reference())
        .filter_map(|e| match e.character_data() {
            Some(CharacterData::String(t)) => {
                let listed = m.get_references_to(&t).iter().any(|w| w.upgrade().as_ref() == Some(e));
                Some((t, e.clone(), listed))
            }
            _ => None,
        })
        .collect();
    let mut seen: HashSet<String> = HashSet::new();
    let mut ambiguous_paths = false;
    for e in &all {
        if let Ok(p) = e.path() {
            if !seen.insert(p) {
                ambiguous_paths = true;
            }
        }
    }
    Some(RemoveSnap { model: mi, last: files.len() == 1, others, only_f, all, paths, refs, ambiguous_paths })
}

pub fn check_remove(ex: &Exec, s: &RemoveSnap, stats: &mut HashMap<String, u64>) -> Option<Fail> {
    let m = &ex.models[s.model];
    let now: HashSet<Element> = m.elements_dfs().map(|x| x.1).collect();
    let root = m.root_element();
    if s.last {
        *stats.entry("remove_last_file".into()).or_insert(0) += 1;
        if now.len() != 1 || !now.contains(&root) {
            return fail("last-file-content-remains", format!("{} elements remain after the last file was removed", now.len()));
        }
        if m.identifiable_elements().count() != 0 {
            return fail("last-file-index-remains", format!("{} index entries remain after the last file was removed", m.identifiable_elements().count()));
        }
        return None;
    }
    *stats.entry("remove_one_of_many".into()).or_insert(0) += 1;
    // removed = attributed to the file alone
    for e in &s.all {
        let gone = !now.contains(e);
        let expected = s.only_f.contains(e) && *e != root;
        if gone && !expected {
            return fail("removed-although-in-other-file", format!("element {} was removed but was not attributed to the removed file alone", e.element_name().to_str()));
        }
        if !gone && expected {
            return fail("kept-although-only-in-removed-file", format!("element {} was attributed to the removed file alone and is still in the model", describe(e)));
        }
    }
    if s.only_f.contains(&root) {
        return fail("root-only-in-removed-file", "the root element was attributed to the removed file alone".to_string());
    }
    *stats.entry("removed_elements".into()).or_insert(0) += s.only_f.len() as u64;
    // index entries of the removed elements are gone
    let idents: Vec<(String, Element)> = m.identifiable_elements().filter_map(|(p, w)| w.upgrade().map(|e| (p, e))).collect();
    for (p, e) in &idents {
        if !now.contains(e) {
            return fail("stale-index-entry", format!("path {} still resolves to a removed element", p));
        }
    }
    if s.ambiguous_paths {
        *stats.entry("index_check_skipped_ambiguous_paths".into()).or_insert(0) += 1;
    }
    for (p, e) in &s.paths {
        if !s.ambiguous_paths && now.contains(e) && !idents.iter().any(|(q, x)| q == p && x == e) {
            return fail("lost-index-entry", format!("path {} of a kept element is no longer in the index", p));
        }
    }
    for (t, e, before) in &s.refs {
        let listed = m.get_references_to(t).iter().any(|w| w.upgrade().as_ref() == Some(e));
        if !*before {
            // not indexed before the call (e.g. after a cross-model move, a C05 matter): nothing to lose
            continue;
        }
        if !now.contains(e) && listed {
            return fail("stale-origin-entry", format!("removed reference element still listed for {}", t));
        }
        if now.contains(e) && !listed {
            return fail("lost-origin-entry", format!("kept reference element no longer listed for {}", t));
        }
    }
    // every other file is unchanged
    for (g, before, text) in &s.others {
        let after: Vec<Element> = g.elements_dfs().map(|x| x.1).collect();
        if &after != before {
            return fail("other-file-changed", format!("file {} had {} elements before and {} after", g.filename().display(), before.len(), after.len()));
        }
        if let (Some(t0), Ok(t1)) = (text, g.serialize()) {
            if *t0 != t1 {
                // the same elements, rendered differently: an element all of whose sub-elements were in the removed file
                // only was written <X>..</X> before and is written <X/> now
                *stats.entry("other_file_text_differs_same_elements".into()).or_insert(0) += 1;
            } else {
                *stats.entry("other_file_text_identical".into()).or_insert(0) += 1;
            }
        }
    }
    None
}

// ------------------------------------------------------------------------------------------------ known classes
/// narrow description of the state/operation shapes for which a failure is a recorded finding (known_findings.json)
pub struct Shape {
    /// add_to_file with a file object that is no longer (or not) in the model's file list
    add_removed_file: bool,
    /// remove_from_file on the root / remove_file, where the root's own set is just that file while other files exist
    root_loses_last: bool,
    /// move of an element whose subtree carries local file sets
    move_with_local: bool,
    cross_model: bool,
    /// the operation targets a SHORT-NAME, or a SHORT-NAME of the model carries its own file set
    shortname_local: bool,
    /// load / duplicate into (of) a model whose root is not part of all of the model's files
    root_partial: bool,
    /// duplicate of a model whose files have different versions (the copy is filtered for the smallest one: C13)
    mixed_versions: bool,
    /// add_to_file with a file whose version differs from the version the element was built for
    lower_version: bool,
}

fn shortname_with_local(m: &AutosarModel) -> bool {
    m.elements_dfs().any(|(_, x)| x.element_name() == ElementName::ShortName && matches!(x.file_membership(), Ok((true, _))))
}

fn subtree_has_local(e: &Element) -> bool {
    e.elements_dfs().any(|(_, x)| matches!(x.file_membership(), Ok((true, _))))
}

pub fn shape_of(ex: &Exec, op: &Op) -> Shape {
    let mut s = Shape { add_removed_file: false, root_loses_last: false, move_with_local: false, cross_model: false, shortname_local: false, root_partial: false, mixed_versions: false, lower_version: false };
    match op {
        Op::AddToFile(h, f) => {
            if let (Some(e), Some(file)) = (ex.handles.get(*h), ex.files.get(*f)) {
                if let Ok(m) = e.model() {
                    s.add_removed_file = !m.files().any(|x| x == *file);
                }
                s.shortname_local = e.element_name() == ElementName::ShortName || e.model().map(|m| shortname_with_local(&m)).unwrap_or(false);
                s.lower_version = match e.min_version() {
                    Ok(v) => file.version() != v,
                    Err(_) => false,
                };
            }
        }
        Op::RemoveFromFile(h, f) => {
            if let (Some(e), Some(file)) = (ex.handles.get(*h), ex.files.get(*f)) {
                if let (Ok(m), Ok((true, set))) = (e.model(), e.file_membership()) {
                    s.root_loses_last = m.root_element() == *e && set.len() == 1 && set.contains(&file.downgrade());
                }
                s.shortname_local = e.element_name() == ElementName::ShortName || e.model().map(|m| shortname_with_local(&m)).unwrap_or(false);
            }
        }
        Op::RemoveFile(m, f) => {
            if let (Some(m), Some(file)) = (ex.models.get(*m), ex.files.get(*f)) {
                if let Ok((true, set)) = m.root_element().file_membership() {
                    s.root_loses_last = m.files().count() > 1 && m.files().any(|x| x == *file) && set.len() == 1 && set.contains(&file.downgrade());
                }
                s.shortname_local = shortname_with_local(m);
            }
        }
        Op::Load(m, ..) | Op::Duplicate(m) => {
            if let Some(m) = ex.models.get(*m) {
                let n = m.files().count();
                s.root_partial = match m.root_element().file_membership() {
                    Ok((_, set)) => set.len() < n,
                    Err(_) => n > 0,
                };
                let vs: HashSet<u32> = m.files().map(|f| f.version() as u32).collect();
                s.mixed_versions = matches!(op, Op::Duplicate(_)) && vs.len() > 1;
            }
        }
        Op::Move(h, o) | Op::MoveAt(h, o, _) => {
            if let (Some(d), Some(e)) = (ex.handles.get(*h), ex.handles.get(*o)) {
                s.move_with_local = subtree_has_local(e);
                s.cross_model = match (d.model(), e.model()) {
                    (Ok(a), Ok(b)) => a != b,
                    _ => false,
                };
            }
        }
        _ => {}
    }
    s
}

/// the key of known_findings.json that explains this failure, if any
pub fn known_key(shape: &Shape, op: &Op, result: &str, f: &Fail) -> Option<&'static str> {
    let ok = result.starts_with("R OK");
    match op {
        Op::AddToFile(..) if ok && shape.add_removed_file && matches!(f.kind, "foreign-file" | "element-in-no-file" | "not-in-parent") => Some("add-to-removed-file"),
        Op::RemoveFromFile(..) | Op::RemoveFile(..) if shape.root_loses_last && matches!(f.kind, "no-membership" | "root-only-in-removed-file" | "kept-although-only-in-removed-file") => {
            Some("root-loses-last-file")
        }
        Op::Move(..) | Op::MoveAt(..) if ok && shape.move_with_local && matches!(f.kind, "foreign-file" | "not-in-parent" | "local-under-nonsplittable" | "element-in-no-file" | "no-membership") => {
            Some(if shape.cross_model { "move-keeps-local-files-cross-model" } else { "move-keeps-local-files" })
        }
        Op::AddToFile(..) if ok && shape.lower_version && matches!(f.kind, "text-loads-with-warning" | "text-does-not-load") && f.detail.contains("not_allowed_in") => {
            Some("add-to-file-ignores-version")
        }
        // only the recorded shape: the root of the model is not in all of its files (every other inconsistency after a merge is new)
        Op::Load(..) | Op::Duplicate(..) if ok && shape.root_partial && matches!(f.kind, "not-in-parent" | "load-changed-other-file") => Some("merge-membership-inconsistent"),
        // C13-dup-version-filter seen from here: the copy lacks elements, membership is zipped over walks of different shape
        Op::Duplicate(..) if ok && shape.mixed_versions && matches!(f.kind, "text-loads-with-warning" | "text-does-not-load" | "loaded-differs-from-view" | "not-in-parent") => {
            Some("duplicate-version-filter")
        }
        Op::AddToFile(..) | Op::RemoveFromFile(..) | Op::RemoveFile(..)
            if shape.shortname_local
                && matches!(f.kind, "text-loads-with-warning" | "text-does-not-load" | "kept-although-only-in-removed-file" | "other-file-changed" | "loaded-differs-from-view") =>
        {
            Some("shortname-own-file-set")
        }
        _ => None,
    }
}

// ------------------------------------------------------------------------------------------------ generator
struct Gen<'a> {
    rng: SplitMix64,
    ex: Exec<'a>,
    lines: Vec<String>,
    stats: HashMap<String, u64>,
    outcome: Option<String>,
    removed_files: Vec<usize>,
    /// operation families beyond Tree/Script.v (environment AVH_FILES_ENABLE=load,dup): not executable by the Coq model
    enable: Vec<String>,
    merged: bool,
    avoid: bool,
}

fn ok_handle(r: &str) -> Option<usize> {
    r.strip_prefix("R OK h").and_then(|x| x.parse::<usize>().ok())
}

impl<'a> Gen<'a> {
    fn bump(&mut self, k: &str) {
        *self.stats.entry(k.to_string()).or_insert(0) += 1;
    }
    /// apply one operation and run every check; false = stop this script
    fn push(&mut self, op: Op) -> Option<String> {
        if self.outcome.is_some() {
            return None;
        }
        let shape = shape_of(&self.ex, &op);
        // the generator steers around the recorded defect classes most of the time, so that histories stay long
        let risky = shape.add_removed_file || shape.root_loses_last || shape.move_with_local
            || (shape.shortname_local && matches!(op, Op::AddToFile(h, _) | Op::RemoveFromFile(h, _) if self.ex.handles.get(h).map(|e| e.element_name() == ElementName::ShortName).unwrap_or(false)));
        if self.avoid && risky && self.rng.below(100) < 85 {
            self.bump("steered_around_known_shape");
            return Some("R SKIPPED".to_string());
        }
        let snap = match &op {
            Op::RemoveFile(m, f) => snap_remove(&self.ex, *m, *f),
            _ => None,
        };
        let lsnap = match &op {
            Op::Load(m, text, _, strict) => snap_load(&self.ex, *m, text, *strict),
            _ => None,
        };
        let obs_before = match &op {
            Op::Load(..) | Op::CreateFile(..) => Some(observation(&self.ex)),
            _ => None,
        };
        if let Op::RemoveFile(_, f) = &op {
            self.removed_files.push(*f);
        }
        self.lines.push(op.line());
        if matches!(op, Op::Load(..) | Op::Duplicate(..)) {
            // merging attributes elements to files at every level, splittable or not: rule (c) is about API-made sets
            self.merged = true;
        }
        let r = self.ex.apply(&op);
        let kind = op.line().split_whitespace().nth(1).unwrap().to_string();
        self.bump(&format!("op_{}_{}", kind, if r.starts_with("R OK") { "ok" } else { "err" }));
        if shape.add_removed_file {
            self.bump("shape_add_removed_file");
        }
        if shape.root_loses_last {
            self.bump("shape_root_loses_last");
        }
        if shape.shortname_local {
            self.bump("shape_shortname_local");
        }
        if shape.lower_version {
            self.bump("shape_add_other_version");
        }
        if shape.move_with_local {
            self.bump(if shape.cross_model { "shape_move_with_local_cross_model" } else { "shape_move_with_local" });
        } else if shape.cross_model {
            self.bump("shape_move_cross_model");
        }
        if r == "R PANIC" || r == "R HANG" {
            self.outcome = Some(format!("PANICLINE step={} | {}", self.lines.len() - 1, op.line()));
            return None;
        }
        let mut st = std::mem::take(&mut self.stats);
        let verdict = guard(|| {
            let mut f = None;
            if let Some(s) = &snap {
                f = check_remove(&self.ex, s, &mut st);
            }
            if let (Some(s), true) = (&lsnap, r.starts_with("R OK")) {
                f = check_load(&self.ex, s, &mut st);
            }
            // a call refused for a taken file name has no effect at all
            if let (Some(b), true) = (&obs_before, r.contains("DuplicateFilenameError")) {
                *st.entry("refused_for_taken_name".into()).or_insert(0) += 1;
                if *b != observation(&self.ex) {
                    f = fail("refused-call-has-effect", format!("{} changed the observable state", r));
                }
            }
            if f.is_none() {
                f = check_state(&self.ex, !self.merged, &mut st);
            }
            f
        });
        self.stats = st;
        match verdict {
            Err(p) => {
                self.outcome = Some(format!("VIOLATIONLINE kind=oracle-panic step={} detail={} | {}", self.lines.len() - 1, p.replace(' ', "_"), op.line()));
                None
            }
            Ok(Some(f)) => {
                let word = match known_key(&shape, &op, &r, &f) {
                    Some(k) => format!("KNOWNLINE key={}", k),
                    None => "VIOLATIONLINE".to_string(),
                };
                self.outcome = Some(format!("{} kind={} step={} detail={} | {}", word, f.kind, self.lines.len() - 1, f.detail, op.line()));
                None
            }
            Ok(None) => Some(r),
        }
    }

    /// ArxmlFile::set_filename (not an Op of Tree/Script.v: line head OPF, executed by this harness only)
    fn rename(&mut self, fi: usize, name: Vec<u8>) -> Option<String> {
        if self.outcome.is_some() || fi >= self.ex.files.len() {
            return None;
        }
        let line = format!("OPF set_filename {} x{}", fi, name.iter().map(|b| format!("{:02x}", b)).collect::<String>());
        self.lines.push(line.clone());
        let file = self.ex.files[fi].clone();
        let new = String::from_utf8_lossy(&name).to_string();
        let newp = std::path::PathBuf::from(&new);
        let owner = file.model().ok();
        let expect_err = owner.as_ref().map(|m| m.files().any(|g| g != file && g.filename() == newp)).unwrap_or(false);
        let before = observation(&self.ex);
        let old = file.filename();
        let r = guard(std::panic::AssertUnwindSafe(|| file.set_filename(&newp)));
        let step = self.lines.len() - 1;
        let bad = |kind: &str, detail: String| Some(format!("VIOLATIONLINE kind={} step={} detail={} | {}", kind, step, detail.replace(' ', "_"), line));
        let res = match r {
            Err(_) => {
                self.outcome = Some(format!("PANICLINE step={} | {}", step, line));
                return None;
            }
            Ok(x) => x,
        };
        self.bump(if res.is_ok() { "op_set_filename_ok" } else { "op_set_filename_err" });
        match &res {
            Err(e) => {
                if expect_err { self.bump("rename_to_taken_name_refused"); }
                if err_name(e) != "DuplicateFilenameError" && owner.is_some() {
                    self.outcome = bad("rename-unexpected-error", format!("set_filename = {}", e));
                } else if !expect_err && owner.is_some() {
                    self.outcome = bad("rename-refused-without-reason", format!("no other file of the model is named {}", new));
                } else if observation(&self.ex) != before {
                    self.outcome = bad("refused-call-has-effect", format!("set_filename({}) = {} but file f{} (was {}) or the model changed", new, err_name(e), fi, old.display()));
                }
            }
            Ok(()) => {
                if expect_err {
                    self.outcome = bad("rename-accepted-taken-name", format!("another file of the model is named {}", new));
                } else if file.filename() != newp {
                    self.outcome = bad("rename-not-stored", format!("filename() = {}", file.filename().display()));
                }
            }
        }
        if self.outcome.is_some() {
            return None;
        }
        let mut st = std::mem::take(&mut self.stats);
        let merged = self.merged;
        let verdict = guard(|| {
            let mut f = check_state(&self.ex, !merged, &mut st);
            if f.is_none() && res.is_ok() {
                if let Some(mi) = owner.as_ref().and_then(|m| self.ex.models.iter().position(|x| x == m)) {
                    f = check_names_views(&self.ex, mi, &mut st);
                }
            }
            f
        });
        self.stats = st;
        match verdict {
            Err(p) => {
                self.outcome = bad("oracle-panic", p);
                None
            }
            Ok(Some(f)) => {
                self.outcome = bad(f.kind, f.detail);
                None
            }
            Ok(None) => Some(if res.is_ok() { "R OK".to_string() } else { "R ERR".to_string() }),
        }
    }

    /// renames: to a fresh name, to the file's own name, to the name of another file of the same model (must be refused,
    /// no effect), to the name of a file of another model (allowed); and a load / create_file under a taken name
    fn rename_step(&mut self) -> Option<()> {
        if self.ex.files.is_empty() {
            return Some(());
        }
        let fi = self.rng.below(self.ex.files.len() as u64) as usize;
        let file = self.ex.files[fi].clone();
        let owner = file.model().ok().and_then(|m| self.ex.models.iter().position(|x| *x == m));
        let roll = self.rng.below(100);
        if roll < 25 {
            let name = format!("rn{}_{}.arxml", fi, self.rng.below(1000));
            self.rename(fi, name.into_bytes())?;
        } else if roll < 35 {
            let name = file.filename().display().to_string();
            self.rename(fi, name.into_bytes())?;
        } else if roll < 65 {
            // the name of another file of the same model
            if let Some(mi) = owner {
                let others: Vec<usize> = self.model_files(mi).into_iter().filter(|k| *k != fi).collect();
                if !others.is_empty() {
                    let o = others[self.rng.below(others.len() as u64) as usize];
                    let name = self.ex.files[o].filename().display().to_string();
                    self.bump("shape_rename_to_taken_name");
                    self.rename(fi, name.into_bytes())?;
                }
            }
        } else if roll < 80 {
            // the name of a file of another model
            let others: Vec<usize> = (0..self.ex.files.len())
                .filter(|k| self.ex.files[*k].model().ok().and_then(|m| self.ex.models.iter().position(|x| *x == m)) != owner)
                .collect();
            if !others.is_empty() {
                let o = others[self.rng.below(others.len() as u64) as usize];
                let name = self.ex.files[o].filename().display().to_string();
                self.rename(fi, name.into_bytes())?;
            }
        } else if let Some(mi) = owner {
            // load_buffer / create_file under the name of a file of the model: refused, no effect
            let name = file.filename().display().to_string().into_bytes();
            if roll < 92 {
                if let Ok(t) = file.serialize() {
                    self.bump("shape_load_taken_name");
                    self.push(Op::Load(mi, t.into_bytes(), name, false))?;
                }
            } else {
                self.push(Op::CreateFile(mi, name, V_LATEST))?;
            }
        }
        Some(())
    }

    fn el(&self, s: &str) -> u16 {
        self.ex.names.elidx(s)
    }
    fn pick_where(&mut self, f: impl Fn(&Element) -> bool) -> Option<usize> {
        let c: Vec<usize> = (0..self.ex.handles.len()).filter(|k| f(&self.ex.handles[*k])).collect();
        if c.is_empty() {
            None
        } else {
            Some(c[self.rng.below(c.len() as u64) as usize])
        }
    }
    fn live(e: &Element) -> bool {
        e.model().is_ok()
    }
    /// an element on which add_to_file / remove_from_file is allowed: the root, or below a splittable parent
    fn split_point(e: &Element) -> bool {
        Self::live(e) && e.parent().ok().flatten().map(|p| p.element_type().splittable() != 0).unwrap_or(true)
    }
    fn model_files(&self, m: usize) -> Vec<usize> {
        let fs: Vec<ArxmlFile> = self.ex.models[m].files().collect();
        (0..self.ex.files.len()).filter(|k| fs.contains(&self.ex.files[*k])).collect()
    }
    fn model_of(&self, e: &Element) -> Option<usize> {
        e.model().ok().and_then(|m| self.ex.models.iter().position(|x| *x == m))
    }

    fn build_model(&mut self, nfiles: usize, same_version: bool) -> Option<()> {
        self.push(Op::NewModel)?;
        let m = self.ex.models.len() - 1;
        for k in 0..nfiles {
            let v = if same_version { V_LATEST } else { *self.rng.pick(VERSIONS) };
            self.push(Op::CreateFile(m, format!("m{}f{}.arxml", m, k).into_bytes(), v))?;
            // content is created while only some of the files exist, so that later files start empty
            if k == 0 || self.rng.below(2) == 0 {
                self.grow(m)?;
            }
        }
        Some(())
    }

    /// a few packages / elements under the root of model m
    fn grow(&mut self, m: usize) -> Option<()> {
        let root = self.ex.hidx[&self.ex.models[m].root_element()];
        let pk = match self.ex.models[m].root_element().get_sub_element(ElementName::ArPackages) {
            Some(p) => self.ex.hidx[&p],
            None => ok_handle(&self.push(Op::GetOrCreate(root, self.el("AR-PACKAGES")))?)?,
        };
        let n = 1 + self.rng.below(3);
        for _ in 0..n {
            let nm = format!("p{}", self.rng.below(6));
            let r = self.push(Op::GetOrCreateNamed(pk, self.el("AR-PACKAGE"), nm.into_bytes()))?;
            let Some(p) = ok_handle(&r) else { continue };
            if self.rng.below(4) == 0 {
                // a sub-package level
                if let Some(sub) = ok_handle(&self.push(Op::GetOrCreate(p, self.el("AR-PACKAGES")))?) {
                    let nm = format!("q{}", self.rng.below(3));
                    self.push(Op::GetOrCreateNamed(sub, self.el("AR-PACKAGE"), nm.into_bytes()))?;
                }
            }
            let Some(els) = ok_handle(&self.push(Op::GetOrCreate(p, self.el("ELEMENTS")))?) else { continue };
            let k = 1 + self.rng.below(3);
            for _ in 0..k {
                let kind = *self.rng.pick(&["SYSTEM-SIGNAL", "I-SIGNAL", "SYSTEM", "ECUC-MODULE-CONFIGURATION-VALUES", "COMPU-METHOD", "APPLICATION-SW-COMPONENT-TYPE"]);
                let nm = format!("e{}", self.rng.below(8));
                let r = self.push(Op::CreateNamed(els, self.el(kind), nm.into_bytes()))?;
                let Some(e) = ok_handle(&r) else { continue };
                match kind {
                    "I-SIGNAL" => {
                        if let Some(rf) = ok_handle(&self.push(Op::CreateSub(e, self.el("SYSTEM-SIGNAL-REF")))?) {
                            if let Some(t) = self.pick_where(|x| Self::live(x) && x.element_name() == ElementName::SystemSignal) {
                                self.push(Op::SetRefTarget(rf, t))?;
                            }
                        }
                    }
                    "ECUC-MODULE-CONFIGURATION-VALUES" => {
                        if let Some(c) = ok_handle(&self.push(Op::CreateSub(e, self.el("CONTAINERS")))?) {
                            for i in 0..1 + self.rng.below(2) {
                                self.push(Op::CreateNamed(c, self.el("ECUC-CONTAINER-VALUE"), format!("c{}", i).into_bytes()))?;
                            }
                        }
                    }
                    "APPLICATION-SW-COMPONENT-TYPE" => {
                        if let Some(c) = ok_handle(&self.push(Op::CreateSub(e, self.el("PORTS")))?) {
                            self.push(Op::CreateNamed(c, self.el("P-PORT-PROTOTYPE"), b"pp".to_vec()))?;
                        }
                        // a named AND splittable element: its SHORT-NAME is a point where the file set may be changed
                        if self.rng.below(2) == 0 {
                            self.push(Op::CreateNamed(e, self.el("SYMBOL-PROPS"), b"sp".to_vec()))?;
                        }
                    }
                    "SYSTEM" => {
                        self.push(Op::CreateSub(e, self.el("CATEGORY")))?;
                    }
                    _ => {}
                }
            }
        }
        Some(())
    }

    fn step(&mut self) -> Option<()> {
        let nm = self.ex.models.len();
        let m = self.rng.below(nm as u64) as usize;
        let mf = self.model_files(m);
        if !self.enable.is_empty() && self.rng.below(100) < 6 {
            let fam = self.enable[self.rng.below(self.enable.len() as u64) as usize].clone();
            match fam.as_str() {
                // the text of one file (of any model) loaded into a model under a fresh name: the new file is merged
                "load" => {
                    if !self.ex.files.is_empty() && self.ex.files.len() < 9 && mf.len() < 4 {
                        let f = self.rng.below(self.ex.files.len() as u64) as usize;
                        if let Ok(t) = self.ex.files[f].serialize() {
                            let name = format!("ld{}.arxml", self.ex.files.len());
                            let strict = self.rng.below(2) == 0;
                            self.push(Op::Load(m, t.into_bytes(), name.into_bytes(), strict))?;
                        }
                    }
                }
                // a load that must be REJECTED after a partial import: rollback of the merge
                "conflict" => {
                    self.conflict_load(m)?;
                }
                "dup" => {
                    if self.ex.models.len() < 3 && self.ex.files.len() < 9 {
                        self.push(Op::Duplicate(m))?;
                    }
                }
                "merge3" => {
                    self.merge3()?;
                }
                "rename" => {
                    self.rename_step()?;
                }
                _ => {}
            }
            return Some(());
        }
        let roll = self.rng.below(100);
        if roll < 30 {
            // add_to_file on a split point (70 %), anywhere (15 %), on the root (5 %), with a removed / foreign file (10 %)
            let r = self.rng.below(100);
            let hk = if r < 70 { self.pick_where(|e| Self::split_point(e)) } else if r < 85 { self.pick_where(|_| true) } else if r < 90 { Some(self.ex.hidx[&self.ex.models[m].root_element()]) } else { self.pick_where(|e| Self::split_point(e)) };
            let hk = hk?;
            let em = self.model_of(&self.ex.handles[hk].clone());
            let f = if r >= 90 && !self.ex.files.is_empty() {
                self.rng.below(self.ex.files.len() as u64) as usize
            } else {
                let c = em.map(|k| self.model_files(k)).unwrap_or_default();
                if c.is_empty() { return Some(()); }
                c[self.rng.below(c.len() as u64) as usize]
            };
            self.push(Op::AddToFile(hk, f))?;
        } else if roll < 58 {
            let r = self.rng.below(100);
            let hk = if r < 75 { self.pick_where(|e| Self::split_point(e) && e.parent().ok().flatten().is_some()) } else if r < 90 { self.pick_where(|_| true) } else if r < 93 { Some(self.ex.hidx[&self.ex.models[m].root_element()]) } else { self.pick_where(|e| Self::split_point(e)) };
            let hk = hk?;
            let em = self.model_of(&self.ex.handles[hk].clone());
            let f = if r >= 93 && !self.ex.files.is_empty() {
                self.rng.below(self.ex.files.len() as u64) as usize
            } else {
                let c = em.map(|k| self.model_files(k)).unwrap_or_default();
                if c.is_empty() { return Some(()); }
                c[self.rng.below(c.len() as u64) as usize]
            };
            self.push(Op::RemoveFromFile(hk, f))?;
        } else if roll < 66 {
            // remove a file (any order; sometimes one that is already gone or belongs to the other model)
            if self.ex.files.is_empty() { return Some(()); }
            let f = if self.rng.below(10) < 8 && !mf.is_empty() { mf[self.rng.below(mf.len() as u64) as usize] } else { self.rng.below(self.ex.files.len() as u64) as usize };
            self.push(Op::RemoveFile(m, f))?;
        } else if roll < 73 {
            if mf.len() < 4 && self.ex.files.len() < 9 {
                let v = if self.rng.below(2) == 0 { V_LATEST } else { *self.rng.pick(VERSIONS) };
                // names of removed files are reused
                let name = format!("m{}f{}.arxml", m, self.rng.below(5));
                self.push(Op::CreateFile(m, name.into_bytes(), v))?;
            }
        } else if roll < 80 {
            if !mf.is_empty() {
                self.grow(m)?;
            }
        } else if roll < 88 {
            // move: packages / elements to another container of the same kind, in the same or the other model
            let mk = self.pick_where(|e| Self::live(e) && matches!(e.element_name(), ElementName::ArPackage | ElementName::SystemSignal | ElementName::ISignal | ElementName::System | ElementName::EcucContainerValue | ElementName::CompuMethod))?;
            let me = self.ex.handles[mk].clone();
            let pn = me.parent().ok().flatten().map(|p| p.element_name());
            let dk = self.pick_where(|e| Self::live(e) && Some(e.element_name()) == pn && Some(e.clone()) != me.parent().ok().flatten())?;
            if self.rng.below(4) == 0 { self.push(Op::MoveAt(dk, mk, 0))?; } else { self.push(Op::Move(dk, mk))?; }
        } else if roll < 92 {
            let ok = self.pick_where(|e| Self::live(e) && matches!(e.element_name(), ElementName::ArPackage | ElementName::SystemSignal | ElementName::ISignal | ElementName::System | ElementName::EcucContainerValue))?;
            let oe = self.ex.handles[ok].clone();
            let pn = oe.parent().ok().flatten().map(|p| p.element_name());
            let dk = self.pick_where(|e| Self::live(e) && Some(e.element_name()) == pn)?;
            self.push(Op::Copy(dk, ok))?;
        } else if roll < 96 {
            // remove an element
            let hk = self.pick_where(|e| Self::live(e) && e.sub_elements().next().is_some())?;
            let subs: Vec<Element> = self.ex.handles[hk].sub_elements().collect();
            let s = subs[self.rng.below(subs.len() as u64) as usize].clone();
            let sk = self.ex.hidx[&s];
            self.push(Op::Remove(hk, sk))?;
        } else if roll < 98 {
            let hk = self.pick_where(|e| Self::live(e) && e.is_identifiable())?;
            let nm = format!("r{}", self.rng.below(5));
            self.push(Op::SetItemName(hk, nm.into_bytes()))?;
        } else if self.ex.models.len() < 2 {
            let n = 1 + self.rng.below(2) as usize;
            let same = self.rng.below(2) == 0;
            self.build_model(n, same)?;
        }
        Some(())
    }

    /// the text of a file of model m that contains a SYSTEM-TIMING with a TIMING-RESOURCE, changed so that (a) it brings
    /// a package the model does not have (imported first) and (b) the TIMING-RESOURCE has another name (SYSTEM-TIMING is
    /// not splittable: InvalidFileMerge).  load_buffer must reject it and roll the import back.
    fn conflict_load(&mut self, m: usize) -> Option<()> {
        let mf = self.model_files(m);
        if mf.is_empty() || self.ex.files.len() >= 12 {
            return Some(());
        }
        // make sure there is a SYSTEM-TIMING / TIMING-RESOURCE pair in the model
        if !self.ex.models[m].elements_dfs().any(|(_, e)| e.element_name() == ElementName::TimingResource) {
            let mm = self.ex.models[m].clone();
            let els = self.pick_where(|e| Self::live(e) && e.element_name() == ElementName::Elements && e.model().ok() == Some(mm.clone()))?;
            let st = ok_handle(&self.push(Op::CreateNamed(els, self.el("SYSTEM-TIMING"), b"st".to_vec()))?)?;
            self.push(Op::CreateNamed(st, self.el("TIMING-RESOURCE"), b"tr0".to_vec()))?;
        }
        for f in mf {
            let Ok(t) = self.ex.files[f].serialize() else { continue };
            let Some(p) = t.find("<TIMING-RESOURCE>") else { continue };
            let Some(q) = t[p..].find("</SHORT-NAME>") else { continue };
            let mut text = String::new();
            text.push_str(&t[..p + q]);
            text.push_str("_other");
            text.push_str(&t[p + q..]);
            let Some(last) = text.rfind("</AR-PACKAGES>") else { continue };
            let extra = format!(
                "<AR-PACKAGE><SHORT-NAME>only_in_rejected_{}</SHORT-NAME><ELEMENTS><SYSTEM><SHORT-NAME>sys</SHORT-NAME></SYSTEM></ELEMENTS></AR-PACKAGE>",
                self.ex.files.len()
            );
            text.insert_str(last, &extra);
            let name = format!("rej{}.arxml", self.ex.files.len());
            let strict = self.rng.below(2) == 0;
            self.bump("shape_conflict_load");
            self.push(Op::Load(m, text.into_bytes(), name.into_bytes(), strict))?;
            break;
        }
        Some(())
    }

    /// three or more partial files merged into a FRESH model, in orders where (1) an element first becomes locally
    /// restricted to a strict subset of the files (it is absent from a later file), (2) a further file contains that
    /// element again but lacks one of its existing children, or shares its parent but not the element; then the first
    /// file is removed.  Every load / remove_file is followed by the usual checks (push).
    fn merge3(&mut self) -> Option<()> {
        if self.ex.models.len() >= 3 || self.ex.files.len() >= 8 {
            return Some(());
        }
        fn pkg(name: &str, elements: Option<&[String]>, sub: Option<&str>) -> String {
            let mut t = format!("<AR-PACKAGE><SHORT-NAME>{}</SHORT-NAME>", name);
            if let Some(els) = elements {
                t.push_str("<ELEMENTS>");
                for e in els {
                    t.push_str(&format!("<SYSTEM><SHORT-NAME>{}</SHORT-NAME></SYSTEM>", e));
                }
                t.push_str("</ELEMENTS>");
            }
            if let Some(q) = sub {
                t.push_str(&format!("<AR-PACKAGES><AR-PACKAGE><SHORT-NAME>{}</SHORT-NAME></AR-PACKAGE></AR-PACKAGES>", q));
            }
            t.push_str("</AR-PACKAGE>");
            t
        }
        fn doc(pkgs: &[String]) -> Vec<u8> {
            format!(
                "<?xml version=\"1.0\" encoding=\"utf-8\"?>\n<AUTOSAR xsi:schemaLocation=\"http://autosar.org/schema/r4.0 {}\" xmlns=\"http://autosar.org/schema/r4.0\" xmlns:xsi=\"http://www.w3.org/2001/XMLSchema-instance\"><AR-PACKAGES>{}</AR-PACKAGES></AUTOSAR>\n",
                AutosarVersion::LATEST.filename(),
                pkgs.join("")
            )
            .into_bytes()
        }
        let s = |x: &str| x.to_string();
        let variant = self.rng.below(5);
        let mut texts: Vec<Vec<u8>> = match variant {
            // the package comes from file 1 only, file 2 brings another package, file 3 has the package again without
            // (some of) its children
            0 => vec![doc(&[pkg("Pkg1", Some(&[s("Sys1")]), None)]), doc(&[pkg("Pkg2", None, None)]), doc(&[pkg("Pkg1", None, None)])],
            1 => vec![
                doc(&[pkg("Pkg1", Some(&[s("Sys1"), s("Sys2")]), Some("Sub1"))]),
                doc(&[pkg("Pkg2", Some(&[s("Other")]), None)]),
                doc(&[pkg("Pkg1", Some(&[s("Sys2")]), None)]),
                doc(&[pkg("Pkg1", None, Some("Sub1")), pkg("Pkg2", None, None)]),
            ],
            // one shared package, every file with an exclusive element; a further file shares the parent only
            2 => vec![
                doc(&[pkg("Pkg", Some(&[s("Sys1")]), None)]),
                doc(&[pkg("Pkg", Some(&[s("Sys2")]), None)]),
                doc(&[pkg("Pkg", Some(&[s("Sys3")]), None)]),
                doc(&[pkg("Pkg", Some(&[]), None)]),
            ],
            // random subsets of a small pool
            _ => {
                let n = 3 + self.rng.below(3) as usize;
                let mut v = vec![];
                for _ in 0..n {
                    let mut pkgs = vec![];
                    for pn in ["Pkg1", "Pkg2"] {
                        if self.rng.below(3) == 0 {
                            continue;
                        }
                        let els: Vec<String> = ["Sys1", "Sys2", "Sys3"].iter().filter(|_| self.rng.below(2) == 0).map(|x| x.to_string()).collect();
                        let with_els = self.rng.below(3) != 0;
                        let sub = if self.rng.below(3) == 0 { Some("Sub1") } else { None };
                        pkgs.push(pkg(pn, if with_els { Some(&els) } else { None }, sub));
                    }
                    if pkgs.is_empty() {
                        pkgs.push(pkg("Pkg1", None, None));
                    }
                    v.push(doc(&pkgs));
                }
                v
            }
        };
        // the orders matter: the recorded shapes as written (variant 0, 1), every order otherwise
        if variant >= 2 {
            for i in (1..texts.len()).rev() {
                let j = self.rng.below(i as u64 + 1) as usize;
                texts.swap(i, j);
            }
        }
        self.bump("shape_merge3");
        self.push(Op::NewModel)?;
        let m = self.ex.models.len() - 1;
        let first_file = self.ex.files.len();
        for (k, t) in texts.into_iter().enumerate() {
            let name = format!("mg{}_{}.arxml", m, k);
            let strict = self.rng.below(2) == 0;
            self.push(Op::Load(m, t, name.into_bytes(), strict))?;
        }
        // the first file goes: what was attributed to it alone goes with it, the rest is still written somewhere
        if self.ex.files.len() > first_file && self.rng.below(4) != 0 {
            self.push(Op::RemoveFile(m, first_file))?;
        }
        Some(())
    }

    fn run(&mut self, k: usize, tier: &str) {
        let nfiles = 1 + (k % 4);
        let same_version = k % 3 != 2;
        if self.build_model(nfiles, same_version).is_none() {
            return;
        }
        if k % 5 == 4 {
            let n = 1 + self.rng.below(2) as usize;
            if self.build_model(n, true).is_none() {
                return;
            }
        }
        // spread: restrict packages and elements to single files first, so that the files differ
        let spread = 2 + self.rng.below(5);
        for _ in 0..spread {
            let Some(hk) = self.pick_where(|e| Self::split_point(e) && e.parent().ok().flatten().is_some()) else { break };
            let Some(em) = self.model_of(&self.ex.handles[hk].clone()) else { continue };
            let c = self.model_files(em);
            if c.len() < 2 { break; }
            let keep = c[self.rng.below(c.len() as u64) as usize];
            for f in c {
                if f != keep && self.rng.below(4) != 0 {
                    if self.push(Op::RemoveFromFile(hk, f)).is_none() { return; }
                }
            }
        }
        let with_conflict = self.enable.iter().any(|e| e == "conflict") && k % 8 == 3;
        if with_conflict {
            let m = self.rng.below(self.ex.models.len() as u64) as usize;
            if self.conflict_load(m).is_none() && self.outcome.is_some() { return; }
            // work goes on after the rejected load: a later step must not be confused by what it left
            if self.grow(0).is_none() && self.outcome.is_some() { return; }
        }
        if self.enable.iter().any(|e| e == "rename") && k % 3 == 0 {
            for _ in 0..3 {
                if self.rename_step().is_none() && self.outcome.is_some() { return; }
            }
        }
        if self.enable.iter().any(|e| e == "merge3") && k % 4 == 1 {
            if self.merge3().is_none() && self.outcome.is_some() { return; }
        }
        let len = if tier == "thorough" { 30 + self.rng.below(50) } else { 15 + self.rng.below(30) };
        let mut tries = 0;
        while (self.lines.len() as u64) < 400 && tries < len {
            tries += 1;
            let before = self.lines.len();
            let _ = self.step();
            if self.outcome.is_some() {
                return;
            }
            let _ = before;
        }
        // epilogue: remove every file of model 0 in a random order
        if k % 2 == 0 {
            let mut fs = self.model_files(0);
            while !fs.is_empty() {
                let i = self.rng.below(fs.len() as u64) as usize;
                let f = fs.remove(i);
                if self.push(Op::RemoveFile(0, f)).is_none() { return; }
            }
        }
    }
}

fn script_thread(dump: String, seed: u64, k: usize, tier: String) -> (Vec<String>, Option<String>, HashMap<String, u64>, bool) {
    let (tx, rx) = mpsc::channel();
    let sink = std::sync::Arc::new(std::sync::Mutex::new(Vec::<String>::new()));
    let sink2 = sink.clone();
    std::thread::Builder::new()
        .stack_size(256 * 1024 * 1024)
        .spawn(move || {
            let names = Names::load(&dump);
            let mut g = Gen {
                rng: SplitMix64(seed.wrapping_mul(0x9E3779B97F4A7C15).wrapping_add(k as u64 * 104729 + 17)),
                ex: Exec::new(&names),
                lines: vec![],
                stats: HashMap::new(),
                outcome: None,
                removed_files: vec![],
                merged: false,
                avoid: true,
                enable: std::env::var("AVH_FILES_ENABLE").unwrap_or_default().split(',').filter(|x| !x.is_empty()).map(|x| x.to_string()).collect(),
            };
            let r = guard(std::panic::AssertUnwindSafe(|| g.run(k, &tier)));
            if let Err(p) = r {
                if g.outcome.is_none() {
                    g.outcome = Some(format!("VIOLATIONLINE kind=generator-panic step={} detail={} | -", g.lines.len(), p.replace(' ', "_")));
                }
            }
            *sink2.lock().unwrap() = g.lines.clone();
            let _ = tx.send((g.lines, g.outcome, g.stats));
        })
        .unwrap();
    match rx.recv_timeout(std::time::Duration::from_millis(60000)) {
        Ok((l, o, s)) => (l, o, s, false),
        Err(_) => (sink.lock().unwrap().clone(), None, HashMap::new(), true),
    }
}

fn report(k: usize, lines: &[String], outcome: &Option<String>) {
    if let Some(o) = outcome {
        let mut parts = o.splitn(2, ' ');
        let word = parts.next().unwrap();
        let rest = parts.next().unwrap_or("");
        println!("{} script={} {}", word, k, rest);
        println!("SCRIPTBEGIN {}", k);
        println!("SCRIPT {}", k);
        println!("PATHS-EMPTY");
        println!("OBSERVE serialize");
        for l in lines {
            println!("{}", l);
        }
        println!("SCRIPTEND {}", k);
    }
}

fn oracle_main(args: &[String], write_to: Option<&str>) {
    let dump = args[0].clone();
    let seed: u64 = args[1].parse().unwrap();
    let tier = args[2].clone();
    let extra = if write_to.is_some() { 4 } else { 3 };
    let n: usize = if args.len() > extra { args[extra].parse().unwrap() } else if tier == "thorough" { 1500 } else { 160 };
    let mut total: HashMap<String, u64> = HashMap::new();
    let mut text = String::new();
    let (mut nops, mut hung, mut bad, mut known) = (0u64, 0u64, 0u64, 0u64);
    for k in 0..n {
        let (lines, outcome, stats, h) = script_thread(dump.clone(), seed, k, tier.clone());
        if h {
            hung += 1;
            println!("HANGLINE script={} after {} operations", k, lines.len());
        }
        nops += lines.len() as u64;
        for (a, b) in stats {
            *total.entry(a).or_insert(0) += b;
        }
        match &outcome {
            Some(o) if o.starts_with("KNOWNLINE") => known += 1,
            Some(_) => bad += 1,
            None => {}
        }
        if write_to.is_some() {
            text.push_str(&format!("SCRIPT {}\nPATHS-EMPTY\nOBSERVE serialize\n", k));
            for l in &lines {
                text.push_str(l);
                text.push('\n');
            }
        } else {
            report(k, &lines, &outcome);
        }
    }
    if let Some(p) = write_to {
        std::fs::write(p, text).unwrap();
    }
    let mut keys: Vec<&String> = total.keys().collect();
    keys.sort();
    for k in keys {
        println!("STAT {}={}", k, total[k]);
    }
    println!("STAT scripts={} ops={} hung={} failing={} known={}", n, nops, hung, bad, known);
    std::process::exit(0);
}

/// the checks over recorded scripts
enum Act {
    T(Op),
    Rename(usize, Vec<u8>),
}

/// scripts with the harness-only lines `OPF set_filename <file> x<hex name>` in their place
fn read_acts(path: &str) -> Vec<(usize, Vec<Act>)> {
    let mut res: Vec<(usize, Vec<Act>)> = vec![];
    let text = std::fs::read_to_string(path).unwrap_or_default();
    for l in text.lines() {
        let w: Vec<&str> = l.split_whitespace().collect();
        if w.is_empty() {
            continue;
        }
        match w[0] {
            "SCRIPT" => res.push((w[1].parse().unwrap(), vec![])),
            "OP" | "OP2" => {
                if let (Some(last), Some(op)) = (res.last_mut(), Op::parse(l)) {
                    last.1.push(Act::T(op));
                }
            }
            "OPF" if w.len() >= 4 && w[1] == "set_filename" => {
                let hexs = w[3].strip_prefix('x').unwrap_or(w[3]);
                let bytes: Vec<u8> = (0..hexs.len() / 2).filter_map(|i| u8::from_str_radix(&hexs[2 * i..2 * i + 2], 16).ok()).collect();
                if let Some(last) = res.last_mut() {
                    last.1.push(Act::Rename(w[2].parse().unwrap(), bytes));
                }
            }
            _ => {}
        }
    }
    res
}

fn replay_main(args: &[String]) {
    let dump = args[0].clone();
    let scripts = read_acts(&args[1]);
    let mut total: HashMap<String, u64> = HashMap::new();
    let (mut bad, mut known) = (0, 0);
    for (idx, ops) in scripts {
        let dump2 = dump.clone();
        let (tx, rx) = mpsc::channel();
        std::thread::Builder::new()
            .stack_size(256 * 1024 * 1024)
            .spawn(move || {
                let names = Names::load(&dump2);
                let mut g = Gen { rng: SplitMix64(1), ex: Exec::new(&names), lines: vec![], stats: HashMap::new(), outcome: None, removed_files: vec![], enable: vec![], merged: false, avoid: false };
                let r = guard(std::panic::AssertUnwindSafe(|| {
                    for a in &ops {
                        let r = match a {
                            Act::T(op) => g.push(op.clone()),
                            Act::Rename(f, n) => g.rename(*f, n.clone()),
                        };
                        if r.is_none() {
                            break;
                        }
                    }
                }));
                if r.is_err() && g.outcome.is_none() {
                    g.outcome = Some(format!("VIOLATIONLINE kind=replay-panic step={} detail=- | -", g.lines.len()));
                }
                let _ = tx.send((g.lines, g.outcome, g.stats));
            })
            .unwrap();
        match rx.recv_timeout(std::time::Duration::from_millis(60000)) {
            Ok((lines, outcome, stats)) => {
                for (a, b) in stats {
                    *total.entry(a).or_insert(0) += b;
                }
                match &outcome {
                    Some(o) if o.starts_with("KNOWNLINE") => known += 1,
                    Some(_) => bad += 1,
                    None => println!("PASSLINE script={} operations={}", idx, lines.len()),
                }
                report(idx, &lines, &outcome);
            }
            Err(_) => println!("HANGLINE script={}", idx),
        }
    }
    println!("STAT failing={} known={}", bad, known);
    std::process::exit(0);
}

fn spec_main() {
    // (parent element name, element name) of every sub-element whose type is named AND splittable
    for t in crate::spec::reachable() {
        for (name, ct, _, _) in t.sub_element_spec_iter() {
            if ct.is_named() && ct.splittable() != 0 {
                let (d, y) = crate::spec::et_ids(&ct);
                println!("NAMED-SPLITTABLE {} def={} typ={} split={:#x}", name, d, y, ct.splittable());
            }
        }
    }
    println!("ROOT splittable={:#x}", autosar_data_specification::ElementType::ROOT.splittable());
}

pub fn main(args: &[String]) {
    match args.first().map(|s| s.as_str()) {
        Some("oracle") => oracle_main(&args[1..], None),
        Some("gen") => {
            let out = args[4].clone();
            oracle_main(&args[1..], Some(&out))
        }
        Some("replay") => replay_main(&args[1..]),
        Some("spec") => spec_main(),
        Some("texts") => {
            // debugging aid: run the first script of a file, then print the text of every file
            let names = Names::load(&args[1]);
            let mut ex = Exec::new(&names);
            for (_, _, ops) in crate::tree::read_scripts(&args[2]).into_iter().take(1) {
                for op in &ops {
                    ex.apply(op);
                }
            }
            for (k, f) in ex.files.iter().enumerate() {
                println!("==== file {} {} model={:?}", k, f.filename().display(), f.model().ok().and_then(|m| ex.models.iter().position(|x| *x == m)));
                match f.serialize() {
                    Ok(t) => println!("{}", t),
                    Err(e) => println!("ERR {}", err_name(&e)),
                }
            }
        }
        _ => {
            eprintln!("usage: avh files oracle|gen|replay|spec ...");
            std::process::exit(2)
        }
    }
}
