//! avh — the implementation side of the correspondence checks and the property oracles.
//! Every subcommand runs the REAL library built from /repo's working tree.
mod compat;
mod copy;
mod files;
mod locks;
mod merge;
mod names;
mod panics;
mod range;
mod regexes;
mod sortgen;
mod spec;
mod tree;
mod tree_oracle;
mod util;
mod xml;
mod values;

fn main() {
    let args: Vec<String> = std::env::args().collect();
    if args.len() < 2 {
        eprintln!("usage: avh <subcommand> ...");
        std::process::exit(2);
    }
    util::quiet_panics();
    match args[1].as_str() {
        "copy" => copy::main(&args[2..]),
        "files" => files::main(&args[2..]),
        "locks" => locks::main(&args[2..]),
        "names" => names::main(&args[2..]),
        "panics" => panics::main(&args[2..]),
        "spec-types" => spec::types_main(&args[2..]),
        "spec" => spec::main(&args[2..]),
        "range" => range::main(&args[2..]),
        "regex" => regexes::main(&args[2..]),
        "xml" => xml::main(&args[2..]),
        "tree" => tree::main(&args[2..]),
        "merge" => merge::main(&args[2..]),
        "sort" => sortgen::main(&args[2..]),
        "compat" => compat::main(&args[2..]),
        "values" => values::main(&args[2..]),
        other => {
            eprintln!("unknown subcommand {}", other);
            std::process::exit(2);
        }
    }
}
