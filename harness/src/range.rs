//! C07 — what the editing API builds conforms to the specification.
//!   avh range plan   <dump> <tier> <out>                         (type, version) pairs to sweep, with the creation chain
//!   avh range sweep  <dump> <plan> <tier> <shard> <nshards> [-v <line>]
//!        for every planned (ElementType, version): a REAL element of that type is built through the public API by a creation
//!        chain from the root; for contents of size 0 / 1 / 2 made of listed child names it prints list_valid_sub_elements(),
//!        calc_element_insert_range(name) for every listed name and the brute-forced result of create_[named_]sub_element_at at every
//!        position 0..=len+1.  One digest line per plan line (`T <line> <def> <typ> <ver> <nlines> <fnv>`); the extracted Coq model
//!        (`avm_range`) prints the same lines.  ORACLES on the implementation (never hashed, printed as `DISAGREE <class> ...`):
//!          range-vs-create, allowed-vs-create, listing (independent reading of the dumped tables), spec order (independent reading),
//!          reload (serialize + lenient load gives only RequiredAttributeMissing and the same text).
//!   avh range hist   <dump> <script>        history oracle: after every successful operation of a tree script every file serializes and
//!        re-loads leniently with only RequiredAttributeMissing warnings, and re-serializes to the same text.
use crate::spec::{et_ids, reachable};
use crate::tree::{err_name, read_scripts, Exec, Names, Op};
use crate::util::*;
use autosar_data::*;
use autosar_data_specification::{ContentMode, ElementType};
use std::collections::{BTreeMap, HashMap, HashSet, VecDeque};
use std::sync::mpsc;

// ------------------------------------------------------------------------------------------------ independent reading of the tables
pub struct SpecDump {
    elements: Vec<[u64; 6]>,    // name, type, mult, ordered, split, restrict
    subs: Vec<(u64, u64)>,      // kind, idx
    dts: Vec<[u64; 10]>,
    vinfo: Vec<u64>,
}

#[derive(Clone, Debug)]
pub struct Leaf {
    pub name: u16,
    pub path: Vec<usize>,
    pub mult: u64,
    pub mask: u64,
    pub child_typ: u64,
}

impl SpecDump {
    pub fn load(dump: &str) -> SpecDump {
        let lines = read_lines(&format!("{}/spec_tables.txt", dump));
        let mut p = 0usize;
        let mut kv = |name: &str, p: &mut usize| -> usize {
            let w: Vec<&str> = lines[*p].split_whitespace().collect();
            assert!(w[0] == name, "spec_tables.txt: expected {} got {}", name, w[0]);
            *p += 1;
            w[1].parse().unwrap()
        };
        kv("REFERENCE_TYPE_IDX", &mut p);
        kv("AUTOSAR_ELEMENT", &mut p);
        kv("SHORT_NAME", &mut p);
        kv("ATTR_DEST", &mut p);
        let n = kv("CDATA", &mut p);
        p += n;
        let ints = |l: &String| -> Vec<u64> { l.split_whitespace().map(|x| x.parse().unwrap()).collect() };
        let n = kv("ELEMENTS", &mut p);
        let elements: Vec<[u64; 6]> = lines[p..p + n].iter().map(|l| ints(l).try_into().unwrap()).collect();
        p += n;
        let n = kv("SUBELEMENTS", &mut p);
        let subs: Vec<(u64, u64)> = lines[p..p + n].iter().map(|l| { let v = ints(l); (v[0], v[1]) }).collect();
        p += n;
        let n = kv("ATTRIBUTES", &mut p);
        p += n;
        let n = kv("DATATYPES", &mut p);
        let dts: Vec<[u64; 10]> = lines[p..p + n].iter().map(|l| ints(l).try_into().unwrap()).collect();
        p += n;
        kv("VERSION_INFO", &mut p);
        let vinfo = ints(&lines[p]);
        SpecDump { elements, subs, dts, vinfo }
    }
    fn mode(&self, g: u64) -> u64 {
        self.dts[g as usize][7]
    }
    /// the leaves (sub-elements) of a datatype valid in `v`, in document order, with their index paths
    pub fn leaves(&self, ty: u64, v: u64) -> Vec<Leaf> {
        let mut out = vec![];
        self.leaves_rec(ty, v, &mut vec![], &mut out, 0);
        out
    }
    fn leaves_rec(&self, g: u64, v: u64, prefix: &mut Vec<usize>, out: &mut Vec<Leaf>, depth: usize) {
        if depth > 30 {
            return;
        }
        let d = &self.dts[g as usize];
        for pos in 0..(d[1] - d[0]) as usize {
            let (kind, idx) = self.subs[d[0] as usize + pos];
            prefix.push(pos);
            if kind == 0 {
                let mask = self.vinfo[d[2] as usize + pos];
                if mask & v != 0 {
                    let e = &self.elements[idx as usize];
                    out.push(Leaf { name: e[0] as u16, path: prefix.clone(), mult: e[2], mask, child_typ: e[1] });
                }
            } else {
                self.leaves_rec(idx, v, prefix, out, depth + 1);
            }
            prefix.pop();
        }
    }
    /// the group in which two index paths part (or the group that directly contains them when they are equal)
    fn parting_group(&self, ty: u64, a: &[usize], b: &[usize]) -> u64 {
        let mut g = ty;
        let mut k = 0;
        while k < a.len() && k < b.len() && a[k] == b[k] {
            let d = &self.dts[g as usize];
            let (kind, idx) = self.subs[d[0] as usize + a[k]];
            if kind == 0 {
                break;
            }
            g = idx;
            k += 1;
        }
        g
    }
    /// may an element with path a stand (anywhere) before an element with path b?
    pub fn pair_ok(&self, ty: u64, a: &Leaf, b: &Leaf) -> bool {
        match self.mode(self.parting_group(ty, &a.path, &b.path)) {
            0 => a.path < b.path || (a.path == b.path && a.mult == 2),
            1 => a.path == b.path && a.mult == 2,
            2 | 4 => true,
            _ => false,
        }
    }
    pub fn ordered(&self, ty: u64, l: &[&Leaf]) -> bool {
        for i in 0..l.len() {
            for j in i + 1..l.len() {
                if !self.pair_ok(ty, l[i], l[j]) {
                    return false;
                }
            }
        }
        true
    }
    fn first_is_short_name(&self, ty: u64, v: u64, short_name: u16) -> bool {
        let d = &self.dts[ty as usize];
        if d[1] == d[0] {
            return false;
        }
        let (kind, idx) = self.subs[d[0] as usize];
        kind == 0 && self.elements[idx as usize][0] as u16 == short_name && self.vinfo[d[2] as usize] & v != 0
    }
}

// ------------------------------------------------------------------------------------------------ plan
fn version_bits() -> Vec<u32> {
    (0..32).map(|i| 1u32 << i).filter(|b| AutosarVersion::from_val(*b).is_some()).collect()
}

/// BFS from ROOT inside one version: type -> (parent type, child name, named)
fn bfs_version(v: u32) -> (Vec<(u32, u32)>, HashMap<(u32, u32), ((u32, u32), ElementName, bool)>) {
    let ver = AutosarVersion::from_val(v).unwrap();
    let mut parent: HashMap<(u32, u32), ((u32, u32), ElementName, bool)> = HashMap::new();
    let mut order = vec![];
    let mut seen: HashSet<(u32, u32)> = HashSet::new();
    let mut q = VecDeque::new();
    q.push_back(ElementType::ROOT);
    seen.insert(et_ids(&ElementType::ROOT));
    while let Some(t) = q.pop_front() {
        let tid = et_ids(&t);
        order.push(tid);
        if t.content_mode() == ContentMode::Characters {
            continue;
        }
        for (name, _ct, mask, _named) in t.sub_element_spec_iter() {
            if mask & v == 0 {
                continue;
            }
            if let Some((ct, _)) = t.find_sub_element(name, v) {
                let cid = et_ids(&ct);
                if seen.insert(cid) {
                    parent.insert(cid, (tid, name, ct.is_named_in_version(ver)));
                    q.push_back(ct);
                }
            }
        }
    }
    (order, parent)
}

/// plan line: `<def> <typ> <version> <chain>` where chain = `name:named,name:named,...` from the root's child down to the element
pub fn plan_main(args: &[String]) {
    let _dump = &args[0];
    let tier = &args[1];
    let out = &args[2];
    let all: Vec<(u32, u32)> = reachable().iter().map(et_ids).collect();
    let vbits = version_bits();
    let mut chains: HashMap<((u32, u32), u32), String> = HashMap::new();
    let mut reach_in: HashMap<(u32, u32), Vec<u32>> = HashMap::new();
    for v in &vbits {
        let (order, parent) = bfs_version(*v);
        for t in order {
            reach_in.entry(t).or_default().push(*v);
            let mut chain: Vec<String> = vec![];
            let mut cur = t;
            while let Some((p, name, named)) = parent.get(&cur) {
                chain.push(format!("{}:{}", *name as u16, *named as u8));
                cur = *p;
            }
            chain.reverse();
            chains.insert((t, *v), if chain.is_empty() { "-".to_string() } else { chain.join(",") });
        }
    }
    let mut text = String::new();
    let mut n = 0usize;
    let mut unreachable_types = 0usize;
    let names = Names::load(_dump);
    let mut unbuildable: Vec<String> = vec![];
    // the SHORT-NAME of the named element that the chain creates carries its item name as character data
    let mut with_data: HashSet<((u32, u32), u32)> = HashSet::new();
    for t in &all {
        let vs0 = reach_in.get(t).cloned().unwrap_or_default();
        // a chain found in the tables may still be impossible to build (a named element of Choice type: once its SHORT-NAME
        // exists no alternative can be created); such (type, version) pairs cannot be reached through the API at all
        let vs: Vec<u32> = vs0
            .iter()
            .copied()
            .filter(|v| {
                let ok = guard(|| {
                    build(*v, &chains[&(*t, *v)], &names)
                        .map(|(_, _, e)| {
                            if e.content().any(|c| matches!(c, ElementContent::CharacterData(_))) {
                                with_data.insert((*t, *v));
                            }
                            et_ids(&e.element_type()) == *t
                        })
                        .unwrap_or(false)
                })
                .unwrap_or(false);
                if !ok {
                    unbuildable.push(format!("{}:{}:{}", t.0, t.1, v));
                }
                ok
            })
            .collect();
        if vs.is_empty() {
            unreachable_types += 1;
            continue;
        }
        let pick: Vec<u32> = if tier == "thorough" {
            vs.clone()
        } else {
            let mut p = vec![vs[0], vs[vs.len() / 2], vs[vs.len() - 1]];
            p.dedup();
            p
        };
        for v in pick {
            text.push_str(&format!("{} {} {} {} {}\n", t.0, t.1, v, chains[&(*t, v)], if with_data.contains(&(*t, v)) { "D" } else { "E" }));
            n += 1;
        }
    }
    std::fs::write(out, text).unwrap();
    println!("STAT plan types={} lines={} types_unreachable_in_every_version={} unbuildable_pairs={} [{}]", all.len(), n, unreachable_types, unbuildable.len(), unbuildable.iter().take(12).cloned().collect::<Vec<_>>().join(" "));
}

// ------------------------------------------------------------------------------------------------ sweep
fn err_char(e: &AutosarDataError) -> String {
    match e {
        AutosarDataError::InvalidPosition => "p".into(),
        AutosarDataError::ElementInsertionConflict { .. } => "c".into(),
        AutosarDataError::InvalidSubElement { .. } => "i".into(),
        AutosarDataError::ItemNameRequired { .. } => "n".into(),
        AutosarDataError::IncorrectContentType { .. } => "t".into(),
        AutosarDataError::ElementNotIdentifiable { .. } => "u".into(),
        AutosarDataError::DuplicateItemName { .. } => "d".into(),
        other => format!("[{}]", err_name(other)),
    }
}

/// indices 0..l sampled down to at most cap (all when l <= cap): floor(j*l/cap)
pub fn sample(l: usize, cap: usize) -> Vec<usize> {
    if l <= cap {
        (0..l).collect()
    } else {
        (0..cap).map(|j| j * l / cap).collect()
    }
}

struct Ctx<'a> {
    sd: &'a SpecDump,
    short_name: u16,
    tier: &'a str,
    stats: BTreeMap<String, u64>,
    disagree: Vec<String>,
}

fn bump(c: &mut Ctx, k: &str, n: u64) {
    *c.stats.entry(k.to_string()).or_insert(0) += n;
}

fn create_child(e: &Element, name: ElementName, named: bool, item: &str, pos: Option<usize>) -> Result<Element, AutosarDataError> {
    match (named, pos) {
        (true, Some(p)) => e.create_named_sub_element_at(name, item, p),
        (true, None) => e.create_named_sub_element(name, item),
        (false, Some(p)) => e.create_sub_element_at(name, p),
        (false, None) => e.create_sub_element(name),
    }
}

fn warn_name(w: &AutosarDataError) -> String {
    match w {
        AutosarDataError::ParserError { source, line, .. } => {
            let d = format!("{:?}", source);
            let n: String = d.chars().take_while(|c| c.is_ascii_alphanumeric()).collect();
            format!("{}@{}", n, line)
        }
        AutosarDataError::LexerError { line, .. } => format!("LexerError@{}", line),
        other => err_name(other),
    }
}

/// canonical dump of what a file contains: pre-order of its elements with attributes and character data
pub fn file_view(f: &ArxmlFile) -> Vec<String> {
    f.elements_dfs()
        .map(|(d, e)| {
            let attrs: Vec<String> = e.attributes().map(|a| format!("{}={}", a.attrname as u16, crate::tree::show_cdata(&a.content))).collect();
            let cd: Vec<String> = e
                .content()
                .filter_map(|c| match c {
                    ElementContent::CharacterData(x) => Some(crate::tree::show_cdata(&x)),
                    _ => None,
                })
                .collect();
            format!("{} {} [{}] [{}]", d, e.element_name() as u16, attrs.join(","), cd.join(","))
        })
        .collect()
}

/// serialize + lenient reload of one file: (non-allowed warnings, content of the re-loaded file)
pub fn reload_check(text: &str) -> (Vec<String>, Option<Vec<String>>) {
    let m2 = AutosarModel::new();
    match m2.load_buffer(text.as_bytes(), "reload.arxml", false) {
        Err(e) => (vec![format!("LOAD-ERROR:{}", warn_name(&e))], None),
        Ok((f2, ws)) => {
            let bad: Vec<String> = ws.iter().map(warn_name).filter(|w| !w.starts_with("RequiredAttributeMissing@")).collect();
            (bad, Some(file_view(&f2)))
        }
    }
}

fn names_of_content(e: &Element) -> Vec<Option<u16>> {
    e.content()
        .map(|c| match c {
            ElementContent::Element(s) => Some(s.element_name() as u16),
            ElementContent::CharacterData(_) => None,
        })
        .collect()
}

/// one content scenario: listing + range + brute force for every listed name
/// the element under test with the recipe that rebuilds it (needed when a probe cannot be undone: a second SHORT-NAME in a
/// named Bag/Mixed element can be created but never removed)
struct St<'a> {
    names: &'a Names,
    v: u32,
    chain: String,
    steps: Vec<(ElementName, bool, &'static str)>,
    model: AutosarModel,
    file: ArxmlFile,
    e: Element,
}
impl<'a> St<'a> {
    fn rebuild(&mut self) {
        let (m, f, e) = build(self.v, &self.chain, self.names).expect("rebuild");
        for (n, named, item) in &self.steps {
            let _ = create_child(&e, *n, *named, item, None);
        }
        self.model = m;
        self.file = f;
        self.e = e;
    }
    fn undo(&mut self, ch: Element, c: &mut Ctx) {
        if self.e.remove_sub_element(ch).is_err() {
            bump(c, "rebuilds", 1);
            self.rebuild();
        }
    }
}

fn scenario(c: &mut Ctx, h: &mut LineHash, st: &mut St, ver: AutosarVersion, typ: u64, tag: &str, reload_budget: usize) {
    let vbit = ver as u32 as u64;
    let content = names_of_content(&st.e);
    let len = content.len();
    h.line(&format!("C {} [{}]", tag, content.iter().map(|x| x.map(|n| n.to_string()).unwrap_or("-".into())).collect::<Vec<_>>().join(",")));
    let listing = st.e.list_valid_sub_elements();
    h.line(&format!(
        "V {}",
        listing.iter().map(|v| format!("{}:{}:{}", v.element_name as u16, v.is_named as u8, v.is_allowed as u8)).collect::<Vec<_>>().join(" ")
    ));
    // independent reading of the tables
    let leaves = c.sd.leaves(typ, vbit);
    {
        let a: Vec<(u16, bool)> = listing.iter().map(|v| (v.element_name as u16, v.is_named)).collect();
        let b: Vec<(u16, bool)> = leaves.iter().map(|l| (l.name, c.sd.first_is_short_name(l.child_typ, vbit, c.short_name))).collect();
        if a != b {
            c.disagree.push(format!("DISAGREE listing typ={} ver={} content=[{:?}] listed={:?} tables={:?}", typ, vbit, content, a, b));
        }
    }
    let leaf_of = |n: u16| -> Option<&Leaf> { leaves.iter().find(|l| l.name == n) };
    let cur: Option<Vec<&Leaf>> = content.iter().filter_map(|x| *x).map(leaf_of).collect();
    let cur_ordered = cur.as_ref().map(|l| c.sd.ordered(typ, l)).unwrap_or(false);
    if !cur_ordered {
        c.disagree.push(format!("DISAGREE order-inv typ={} ver={} content={:?} built through the API is not in specification order", typ, vbit, content));
    }
    let mut reloads = 0usize;
    for v in &listing {
        let name = v.element_name;
        let n16 = name as u16;
        let range = guard(|| st.e.calc_element_insert_range(name, ver));
        let rline = match &range {
            Ok(Ok((lo, hi))) => format!("R {} {} {}", n16, lo, hi),
            Ok(Err(er)) => format!("R {} E:{}", n16, err_char(er)),
            Err(_) => format!("R {} PANIC", n16),
        };
        h.line(&rline);
        bump(c, "ranges", 1);
        let mut bits = String::new();
        let mut okpos: Vec<bool> = vec![];
        for p in 0..=len + 1 {
            let r = guard(|| create_child(&st.e, name, v.is_named, "zz9", Some(p)));
            bump(c, "creates_at", 1);
            match r {
                Ok(Ok(ch)) => {
                    bits.push('1');
                    okpos.push(true);
                    let at = ch.position();
                    if at != Some(p) {
                        c.disagree.push(format!("DISAGREE create-position typ={} ver={} content={:?} name={} asked {} got {:?}", typ, vbit, content, n16, p, at));
                    }
                    st.undo(ch, c);
                }
                Ok(Err(er)) => {
                    bits.push_str(&err_char(&er));
                    okpos.push(false);
                }
                Err(_) => {
                    bits.push('!');
                    okpos.push(false);
                }
            }
        }
        h.line(&format!("P {} {}", n16, bits));
        // default position
        let d = guard(|| create_child(&st.e, name, v.is_named, "zz9", None));
        bump(c, "creates_default", 1);
        let (dline, dok) = match &d {
            Ok(Ok(ch)) => (format!("D {} {}", n16, ch.position().map(|x| x.to_string()).unwrap_or("?".into())), true),
            Ok(Err(er)) => (format!("D {} {}", n16, err_char(er)), false),
            Err(_) => (format!("D {} !", n16), false),
        };
        h.line(&dline);
        // ---- oracles
        if v.is_allowed != dok {
            c.disagree.push(format!("DISAGREE allowed-vs-create typ={} ver={} content={:?} name={} is_allowed={} create={}", typ, vbit, content, n16, v.is_allowed, dline));
        }
        match &range {
            Ok(Ok((lo, hi))) => {
                for p in 0..=len + 1 {
                    if okpos[p] != (*lo <= p && p <= *hi) {
                        c.disagree.push(format!("DISAGREE range-vs-create typ={} ver={} content={:?} name={} range=({},{}) position {} created={}", typ, vbit, content, n16, lo, hi, p, okpos[p]));
                        break;
                    }
                }
            }
            _ => {
                if okpos.iter().any(|x| *x) {
                    c.disagree.push(format!("DISAGREE range-vs-create typ={} ver={} content={:?} name={} range is an error but a position could be created: {}", typ, vbit, content, n16, bits));
                }
            }
        }
        // specification order, read independently from the dumped tables (positions refer to the full content list;
        // character data items do not take part in the order)
        {
            let nl = leaf_of(n16);
            let mut obits = String::new();
            let mut reported = false;
            for p in 0..=len {
                let ord = match (&cur, nl) {
                    (Some(cur), Some(nl)) => {
                        let k = content[..p].iter().filter(|x| x.is_some()).count();
                        let mut l2: Vec<&Leaf> = cur.clone();
                        l2.insert(k, nl);
                        c.sd.ordered(typ, &l2)
                    }
                    _ => false,
                };
                obits.push(if ord { '1' } else { '0' });
                let claimed = match &range {
                    Ok(Ok((lo, hi))) => *lo <= p && p <= *hi,
                    _ => false,
                };
                bump(c, "order_checks", 1);
                if cur_ordered && ord != claimed && !reported {
                    reported = true;
                    c.disagree.push(format!(
                        "DISAGREE spec-order typ={} ver={} content={:?} name={} position {}: in specification order={} but range says {} ({})",
                        typ, vbit, content, n16, p, ord, claimed, rline
                    ));
                }
            }
            h.line(&format!("O {} {}", n16, obits));
        }
        // reload of the file with the new child
        if let Ok(Ok(ch)) = d {
            if reloads < reload_budget {
                reloads += 1;
                bump(c, "reloads", 1);
                match st.file.serialize() {
                    Ok(text) => {
                        let (bad, v2) = reload_check(&text);
                        if !bad.is_empty() {
                            c.disagree.push(format!("DISAGREE reload typ={} ver={} content={:?} created={} warnings={:?}", typ, vbit, content, n16, bad));
                        } else if v2 != Some(file_view(&st.file)) {
                            c.disagree.push(format!("DISAGREE reload-content typ={} ver={} content={:?} created={} the re-loaded content differs", typ, vbit, content, n16));
                        }
                    }
                    Err(er) => c.disagree.push(format!("DISAGREE reload typ={} ver={} created={} serialize failed: {}", typ, vbit, n16, err_name(&er))),
                }
            }
            st.undo(ch, c);
        }
    }
}

/// builds the element of a plan line in a fresh model
fn build(v: u32, chain: &str, names: &Names) -> Result<(AutosarModel, ArxmlFile, Element), String> {
    let ver = AutosarVersion::from_val(v).ok_or("version")?;
    let model = AutosarModel::new();
    let file = model.create_file("sweep.arxml", ver).map_err(|e| err_name(&e))?;
    let mut cur = model.root_element();
    if chain != "-" {
        for (k, step) in chain.split(',').enumerate() {
            let mut it = step.split(':');
            let n: u16 = it.next().unwrap().parse().unwrap();
            let named = it.next().unwrap() == "1";
            let name = names.elname(n).ok_or("name")?;
            let r = if named { cur.create_named_sub_element(name, &format!("n{}", k)) } else { cur.create_sub_element(name) };
            cur = match r {
                Ok(x) => x,
                // the SHORT-NAME of a named element exists already
                Err(e) => cur.get_sub_element(name).ok_or_else(|| format!("chain step {} ({}): {}", k, step, err_name(&e)))?,
            };
        }
    }
    Ok((model, file, cur))
}

fn sweep_one(c: &mut Ctx, names: &Names, def: u32, typ: u32, v: u32, chain: &str, h: &mut LineHash) -> Result<(), String> {
    let (model, file, e) = build(v, chain, names)?;
    let ver = AutosarVersion::from_val(v).unwrap();
    let got = et_ids(&e.element_type());
    if got != (def, typ) {
        return Err(format!("chain leads to type {:?}", got));
    }
    let mut st = St { names, v, chain: chain.to_string(), steps: vec![], model, file, e };
    let typ64 = typ as u64;
    let (cap1, cap2, rb0, rb1) = if c.tier == "thorough" { (64usize, 12usize, 100000usize, 8usize) } else { (16, 3, 100000, 2) };
    scenario(c, h, &mut st, ver, typ64, "0", rb0);
    bump(c, "contents0", 1);
    let listing = st.e.list_valid_sub_elements();
    let l = listing.len();
    // names that the type lists more than once (with different version masks) are always part of the contents
    let all_names: Vec<ElementName> = st.e.element_type().sub_element_spec_iter().map(|x| x.0).collect();
    let split: Vec<usize> = (0..l).filter(|i| all_names.iter().filter(|n| **n == listing[*i].element_name).count() > 1).take(8).collect();
    let mut s1 = sample(l, cap1);
    s1.extend(split.iter().copied());
    s1.sort();
    s1.dedup();
    // size 1
    for i in s1 {
        let v1 = &listing[i];
        let r = guard(|| create_child(&st.e, v1.element_name, v1.is_named, "aa1", None));
        match r {
            Ok(Ok(_ch)) => {
                st.steps = vec![(v1.element_name, v1.is_named, "aa1")];
                scenario(c, h, &mut st, ver, typ64, &format!("1.{}", i), rb1);
                bump(c, "contents1", 1);
                st.steps.clear();
                st.rebuild();
            }
            Ok(Err(er)) => h.line(&format!("C 1.{} FAIL {}", i, err_char(&er))),
            Err(_) => h.line(&format!("C 1.{} FAIL !", i)),
        }
    }
    // size 2
    let mut s2 = sample(l, cap2);
    s2.extend(split.iter().take(2).copied());
    s2.sort();
    s2.dedup();
    for &i in &s2 {
        let v1 = &listing[i];
        for &j in &s2 {
            let v2 = &listing[j];
            let Ok(Ok(_c1)) = guard(|| create_child(&st.e, v1.element_name, v1.is_named, "aa1", None)) else { continue };
            let r = guard(|| create_child(&st.e, v2.element_name, v2.is_named, "bb2", None));
            match r {
                Ok(Ok(_c2)) => {
                    st.steps = vec![(v1.element_name, v1.is_named, "aa1"), (v2.element_name, v2.is_named, "bb2")];
                    scenario(c, h, &mut st, ver, typ64, &format!("2.{}.{}", i, j), 0);
                    bump(c, "contents2", 1);
                }
                Ok(Err(er)) => h.line(&format!("C 2.{}.{} FAIL {}", i, j, err_char(&er))),
                Err(_) => h.line(&format!("C 2.{}.{} FAIL !", i, j)),
            }
            st.steps.clear();
            st.rebuild();
        }
    }
    let _ = &st.model;
    Ok(())
}

pub fn sweep_main(args: &[String]) {
    let dump = &args[0];
    let plan = read_lines(&args[1]);
    let tier = args[2].clone();
    let shard: usize = args[3].parse().unwrap();
    let nshards: usize = args[4].parse().unwrap();
    let only: Option<usize> = if args.len() > 6 && args[5] == "-v" { Some(args[6].parse().unwrap()) } else { None };
    let names = Names::load(dump);
    let sd = SpecDump::load(dump);
    let short_name = names.elidx("SHORT-NAME");
    let mut c = Ctx { sd: &sd, short_name, tier: &tier, stats: BTreeMap::new(), disagree: vec![] };
    for (k, line) in plan.iter().enumerate() {
        if let Some(o) = only {
            if o != k {
                continue;
            }
        } else if k % nshards != shard {
            continue;
        }
        let w: Vec<&str> = line.split_whitespace().collect();
        let (def, typ, v): (u32, u32, u32) = (w[0].parse().unwrap(), w[1].parse().unwrap(), w[2].parse().unwrap());
        let mut h = LineHash::new(only.is_some());
        let r = sweep_one(&mut c, &names, def, typ, v, w[3], &mut h);
        match r {
            Ok(()) => println!("T {} {} {} {} {} {:016x}", k, def, typ, v, h.n, h.h),
            Err(m) => println!("BUILDFAIL {} {} {} {} {}", k, def, typ, v, m),
        }
        bump(&mut c, "pairs", 1);
        for d in c.disagree.drain(..) {
            println!("{} plan-line={}", d, k);
        }
    }
    for (k, v) in &c.stats {
        println!("STAT {} {}", k, v);
    }
}

// ------------------------------------------------------------------------------------------------ histories
fn op_kind(op: &Op) -> String {
    op.line().split_whitespace().nth(1).unwrap_or("?").to_string()
}


/// state conditions that are recorded findings of C07 or of neighbouring properties; a failure of the history oracle is only
/// attributed to a finding when the matching condition holds in the state (checks/c07.py decides)
fn state_causes(ex: &Exec, xcopy_done: bool) -> Vec<&'static str> {
    let mut c = vec![];
    if xcopy_done {
        c.push("after-cross-version-copy");
    }
    for m in &ex.models {
        let mut vs: Vec<u32> = m.files().map(|f| f.version() as u32).collect();
        vs.sort();
        vs.dedup();
        if vs.len() > 1 && !c.contains(&"mixed-version-files") {
            c.push("mixed-version-files");
        }
        let root = m.root_element();
        let dflt = |a: AttributeName, want: &str| -> bool {
            match root.attribute_value(a) {
                Some(CharacterData::String(s)) => s == want,
                None => true,
                _ => false,
            }
        };
        if !(dflt(AttributeName::xmlns, "http://autosar.org/schema/r4.0") && dflt(AttributeName::xmlnsXsi, "http://www.w3.org/2001/XMLSchema-instance"))
            && !c.contains(&"root-namespace-edited")
        {
            c.push("root-namespace-edited");
        }
        if has_duplicate_path(m) && !c.contains(&"duplicate-path") {
            c.push("duplicate-path");
        }
        if !c.contains(&"adjacent-text-items") && has_adjacent_text(m) {
            c.push("adjacent-text-items");
        }
        if !c.contains(&"item-name-over-length") && m.elements_dfs().any(|(_, e)| item_name_over_length(&e)) {
            c.push("item-name-over-length");
        }
        if !c.contains(&"short-name-not-first") && m.elements_dfs().any(|(_, e)| short_name_not_first(&e)) {
            c.push("short-name-not-first");
        }
        if !c.contains(&"named-without-short-name") && m.elements_dfs().any(|(_, e)| named_without_short_name(&e)) {
            c.push("named-without-short-name");
        }
        // an element whose stored DATATYPE is not the one its parent's stored type lists for its name in the version in force
        // (move_element_here / create_copied_sub_element keep the stored type and check only the name)
        if !c.contains(&"stored-type-mismatch") && m.elements_dfs().any(|(_, e)| stored_type_mismatch(&e, true)) {
            c.push("stored-type-mismatch");
        }
    }
    c
}

/// the element's type is identifiable in the version in force, but the element has no SHORT-NAME
pub fn named_without_short_name(e: &Element) -> bool {
    let Ok(ver) = e.min_version() else { return false };
    e.element_type().is_named_in_version(ver) && e.get_sub_element(ElementName::ShortName).is_none()
}

/// the element's type is identifiable in the version in force and it has a SHORT-NAME, but not as its FIRST content item
/// (possible for mixed content: the `*_at` calls accept position 0)
pub fn short_name_not_first(e: &Element) -> bool {
    let Ok(ver) = e.min_version() else { return false };
    if !e.element_type().is_named_in_version(ver) || e.get_sub_element(ElementName::ShortName).is_none() {
        return false;
    }
    !matches!(e.content().next(), Some(ElementContent::Element(s)) if s.element_name() == ElementName::ShortName)
}

/// an identifiable element whose item name is longer than the SHORT-NAME specification allows (the setters refuse such a
/// name; make_unique_item_name appends `_<n>` without looking at the limit)
pub fn item_name_over_length(e: &Element) -> bool {
    use autosar_data_specification::CharacterDataSpec as S;
    let Some(name) = e.item_name() else { return false };
    let Some(sn) = e.get_sub_element(ElementName::ShortName) else { return false };
    match sn.element_type().chardata_spec() {
        Some(S::Pattern { max_length: Some(m), .. }) | Some(S::String { max_length: Some(m), .. }) => name.len() > *m,
        _ => false,
    }
}

/// duplicate AUTOSAR paths, computed from the tree
pub fn has_duplicate_path(m: &AutosarModel) -> bool {
    let mut seen: HashSet<String> = HashSet::new();
    fn walk(e: &Element, prefix: &str, depth: usize, seen: &mut HashSet<String>, dup: &mut bool) {
        let mut p = prefix.to_string();
        if e.is_identifiable() {
            if let Some(n) = e.item_name() {
                p = format!("{}/{}", prefix, n);
            }
            if !seen.insert(p.clone()) {
                *dup = true;
            }
        }
        if depth < 300 {
            for s in e.sub_elements() {
                walk(&s, &p, depth + 1, seen, dup);
            }
        }
    }
    let mut dup = false;
    walk(&m.root_element(), "", 0, &mut seen, &mut dup);
    dup
}

/// the element's stored type differs from what its parent's stored type gives for its name in the element's version
/// (dt_only: the DATATYPE differs — the only part of a type the loader's decisions below the element depend on)
pub fn stored_type_mismatch(e: &Element, dt_only: bool) -> bool {
    let (Ok(Some(p)), Ok(ver)) = (e.parent(), e.min_version()) else { return false };
    match p.element_type().find_sub_element(e.element_name(), ver as u32) {
        Some((t, _)) => if dt_only { et_ids(&t).1 != et_ids(&e.element_type()).1 } else { t != e.element_type() },
        None => true,
    }
}

/// string values trimmed, empty strings dropped (what the loader does to String / Pattern values without preserve_whitespace)
fn normalise_view(v: &[String]) -> Vec<String> {
    v.iter()
        .map(|l| {
            let mut out = String::new();
            let mut rest = l.as_str();
            // tokens S<hex> appear after '=' , '[' or ','
            while let Some(k) = rest.find(|ch| ch == '=' || ch == '[' || ch == ',') {
                out.push_str(&rest[..=k]);
                rest = &rest[k + 1..];
                if let Some(h) = rest.strip_prefix('S') {
                    let end = h.find(|ch: char| !ch.is_ascii_hexdigit()).unwrap_or(h.len());
                    if end % 2 == 0 {
                        let bytes = unhex(&h[..end]);
                        let t = String::from_utf8_lossy(&bytes).trim_matches(|ch: char| ch == ' ' || ch == '\t' || ch == '\n' || ch == '\r').to_string();
                        if !t.is_empty() {
                            out.push('S');
                            out.push_str(&hex(t.as_bytes()));
                        }
                        rest = &h[end..];
                    }
                }
            }
            out.push_str(rest);
            out.replace("[,", "[").replace(",]", "]").replace(",,", ",")
        })
        .collect()
}

/// the text items of every element joined into one run, blanks dropped (what remains equal when NEIGHBOURING character data
/// items of a mixed-content element are written as one text run and read back as one item)
fn merged_text_view(v: &[String]) -> Vec<String> {
    v.iter()
        .map(|l| {
            let Some(k) = l.rfind(" [") else { return l.clone() };
            let (head, cd) = l.split_at(k);
            let inner = cd.trim_start_matches(" [").trim_end_matches(']');
            let items: Vec<&str> = if inner.is_empty() { vec![] } else { inner.split(',').collect() };
            if items.is_empty() || !items.iter().all(|x| x.starts_with('S') && x.len() % 2 == 1 && x[1..].bytes().all(|b| b.is_ascii_hexdigit())) {
                return l.clone();
            }
            let mut bytes: Vec<u8> = vec![];
            for x in items {
                bytes.extend(unhex(&x[1..]));
            }
            bytes.retain(|b| !matches!(b, b' ' | b'\t' | b'\n' | b'\r'));
            format!("{} [S{}]", head, hex(&bytes))
        })
        .collect()
}

/// two neighbouring character data items in some element (possible through insert_character_content_item and by removing the
/// sub-element between two texts of a mixed-content element)
fn has_adjacent_text(m: &AutosarModel) -> bool {
    m.elements_dfs().any(|(_, e)| {
        let mut prev = false;
        for c in e.content() {
            let t = matches!(c, ElementContent::CharacterData(_));
            if t && prev {
                return true;
            }
            prev = t;
        }
        false
    })
}

fn hist_script(names: std::sync::Arc<Names>, sd: std::sync::Arc<SpecDump>, probes: Vec<String>, ops: Vec<Op>, tx: mpsc::Sender<Option<String>>) {
    let mut ex = Exec::new(&names);
    ex.probes = probes.into_iter().filter(|p| !p.starts_with('\u{1}')).collect();
    // per file: warning signatures already reported / present before the step
    let mut before: HashMap<usize, HashSet<String>> = HashMap::new();
    let mut unordered_before: HashSet<Element> = HashSet::new();
    let mut xcopy_done = false;
    for (step, op) in ops.iter().enumerate() {
        let _ = tx.send(Some(format!("@{} {}", step, op_kind(op))));
        let cross = match op {
            Op::Copy(d, o) | Op::CopyAt(d, o, _) => match (ex.handles.get(*d).map(|e| e.min_version()), ex.handles.get(*o).map(|e| e.min_version())) {
                (Some(Ok(a)), Some(Ok(b))) => a != b,
                // a source outside any file has no version of its own
                (Some(Ok(_)), Some(Err(_))) => true,
                _ => false,
            },
            _ => false,
        };
        let res = ex.apply(op);
        if cross && res.starts_with("R OK") {
            xcopy_done = true;
        }
        if std::env::var("AVH_RANGE_RESULTS").is_ok() {
            let _ = tx.send(Some(format!("RES step={} op={} {}", step, op_kind(op), res)));
        }
        if res == "R PANIC" {
            let _ = tx.send(Some(format!("HFAIL step={} op={} kind=panic -", step, op_kind(op))));
            break;
        }
        let r = guard(|| {
            let mut out: Vec<String> = vec![];
            let causes = {
                let c = state_causes(&ex, xcopy_done);
                if c.is_empty() { "-".to_string() } else { c.join(",") }
            };
            // specification order of every child list of every live element (independent reading of the dumped tables)
            let mut unordered_now: HashSet<Element> = HashSet::new();
            for m in &ex.models {
                for (_, e) in m.elements_dfs() {
                    let Ok(ver) = e.min_version() else { continue };
                    let typ = et_ids(&e.element_type()).1 as u64;
                    let leaves = sd.leaves(typ, ver as u32 as u64);
                    let kids: Vec<u16> = e.sub_elements().map(|s| s.element_name() as u16).collect();
                    if kids.len() < 2 && kids.iter().all(|k| leaves.iter().any(|l| l.name == *k)) {
                        continue;
                    }
                    let ls: Option<Vec<&Leaf>> = kids.iter().map(|k| leaves.iter().find(|l| l.name == *k)).collect();
                    let ok = ls.as_ref().map(|l| sd.ordered(typ, l)).unwrap_or(false);
                    if !ok {
                        if !unordered_before.contains(&e) {
                            out.push(format!(
                                "HFAIL step={} op={} res={} kind=order:{} causes={} parent={} children={:?} version={}",
                                step, op_kind(op), res.replace(' ', "_"), if ls.is_none() { "child-not-in-version" } else { "not-in-specification-order" },
                                causes, e.element_name(), kids.iter().map(|k| k.to_string()).collect::<Vec<_>>().join("+"), ver as u32
                            ));
                        }
                        unordered_now.insert(e.clone());
                    }
                }
            }
            unordered_before = unordered_now;
            for (k, f) in ex.files.iter().enumerate() {
                // only files that are (still) part of a model
                if !ex.models.iter().any(|m| m.files().any(|x| x == *f)) {
                    continue;
                }
                let mut sigs: HashSet<String> = HashSet::new();
                match f.serialize() {
                    // a file without any element of its own has no text
                    Err(AutosarDataError::EmptyFile) | Err(AutosarDataError::NoFilesInModel) => {}
                    Err(e) => {
                        sigs.insert(format!("serialize-error:{}", err_name(&e)));
                    }
                    Ok(text) => {
                        let (bad, v2) = reload_check(&text);
                        let show = std::env::var("AVH_RANGE_SHOW").is_ok();
                        if !bad.is_empty() && show {
                            out.push(format!("SHOW step={} file={} text={:?}", step, k, text));
                        }
                        for b in bad {
                            // the line number is not part of the signature
                            sigs.insert(format!("warning:{}", b.split('@').next().unwrap_or("?")));
                        }
                        if let Some(v2) = v2 {
                            let v1 = file_view(f);
                            if v2 != v1 {
                                if normalise_view(&v1) == normalise_view(&v2) {
                                    sigs.insert("reload-content-differs:string-blank-or-empty".to_string());
                                } else if merged_text_view(&v1) == merged_text_view(&v2) {
                                    sigs.insert("reload-content-differs:adjacent-text-merged".to_string());
                                } else if merged_text_view(&normalise_view(&v1)) == merged_text_view(&normalise_view(&v2)) {
                                    // both recorded classes at once (e.g. an attribute value with a trailing blank set while
                                    // neighbouring text items exist): nothing else differs
                                    sigs.insert("reload-content-differs:string-blank-and-adjacent-text".to_string());
                                } else {
                                    sigs.insert("reload-content-differs".to_string());
                                }
                                if show {
                                    let d: Vec<String> = v1.iter().zip(v2.iter()).filter(|(a, b)| a != b).take(3).map(|(a, b)| format!("{} | {}", a, b)).collect();
                                    out.push(format!("SHOW step={} file={} lines {} vs {} first differences: {:?}", step, k, v1.len(), v2.len(), d));
                                }
                            }
                        }
                    }
                }
                let old = before.entry(k).or_default();
                for s in sigs.iter() {
                    if !old.contains(s) {
                        out.push(format!("HFAIL step={} op={} res={} kind={} causes={} file={} version={}", step, op_kind(op), res.replace(' ', "_"), s, causes, k, f.version() as u32));
                    }
                }
                *old = sigs;
            }
            out
        });
        match r {
            Ok(lines) => {
                for l in lines {
                    let _ = tx.send(Some(l));
                }
            }
            Err(_) => {
                let _ = tx.send(Some(format!("HFAIL step={} op={} kind=panic-in-oracle -", step, op_kind(op))));
                break;
            }
        }
    }
    let _ = tx.send(None);
}

pub fn hist_main(args: &[String]) {
    let dump = args[0].clone();
    let script = &args[1];
    let mut nsteps = 0u64;
    let mut nscripts = 0u64;
    let mut nfail = 0u64;
    let names = std::sync::Arc::new(Names::load(&dump));
    let sd = std::sync::Arc::new(SpecDump::load(&dump));
    for (idx, probes, ops) in read_scripts(script) {
        nscripts += 1;
        let (tx, rx) = mpsc::channel::<Option<String>>();
        let (n2, s2) = (names.clone(), sd.clone());
        std::thread::Builder::new().stack_size(256 * 1024 * 1024).spawn(move || hist_script(n2, s2, probes, ops, tx)).unwrap();
        let mut current = String::new();
        loop {
            // generous: the machine may be heavily loaded; a real hang of the library never returns
            match rx.recv_timeout(std::time::Duration::from_millis(40000)) {
                Ok(Some(l)) => {
                    if let Some(rest) = l.strip_prefix('@') {
                        current = rest.to_string();
                        nsteps += 1;
                    } else if l.starts_with("HFAIL ") {
                        nfail += 1;
                        println!("{} script={}", l, idx);
                    } else if l.starts_with("SHOW ") || l.starts_with("RES ") {
                        println!("{} script={}", l, idx);
                    }
                }
                Ok(None) => break,
                Err(_) => {
                    println!("HFAIL step={} kind=hang script={}", current, idx);
                    nfail += 1;
                    break;
                }
            }
        }
    }
    println!("STAT hist scripts={} steps={} fails={}", nscripts, nsteps, nfail);
    std::process::exit(0);
}

// ------------------------------------------------------------------------------------------------ cross-version copies
fn chain_of(parent: &HashMap<(u32, u32), ((u32, u32), ElementName, bool)>, t: (u32, u32)) -> String {
    let mut chain: Vec<String> = vec![];
    let mut cur = t;
    while let Some((p, name, named)) = parent.get(&cur) {
        chain.push(format!("{}:{}", *name as u16, *named as u8));
        cur = *p;
    }
    chain.reverse();
    if chain.is_empty() { "-".to_string() } else { chain.join(",") }
}

/// fills an element with one child per listed name (default position) and every listed attribute that accepts a simple value
fn populate(e: &Element, depth: usize) {
    for (k, v) in e.list_valid_sub_elements().iter().enumerate() {
        if !v.is_allowed {
            continue;
        }
        let r = if v.is_named { e.create_named_sub_element(v.element_name, &format!("c{}", k)) } else { e.create_sub_element(v.element_name) };
        if let (Ok(ch), true) = (r, depth > 0) {
            populate(&ch, depth - 1);
        }
    }
}

/// xcopy <dump>: for every (parent type, child name) whose child TYPE depends on the version: build the child in a file of
/// version A, populate it, copy it into a parent of the same type in a file of version B, and re-load the target file
pub fn xcopy_main(args: &[String]) {
    let dump = &args[0];
    let names = Names::load(dump);
    let vbits = version_bits();
    let all: Vec<ElementType> = reachable();
    let mut bfs: HashMap<u32, (Vec<(u32, u32)>, HashMap<(u32, u32), ((u32, u32), ElementName, bool)>)> = HashMap::new();
    for v in &vbits {
        bfs.insert(*v, bfs_version(*v));
    }
    let (mut pairs, mut copied, mut bad) = (0u64, 0u64, 0u64);
    let mut seen_sig: HashSet<String> = HashSet::new();
    for t in &all {
        let tid = et_ids(t);
        // names whose type differs between two versions
        let mut by_name: BTreeMap<u16, Vec<(u32, (u32, u32))>> = BTreeMap::new();
        for (name, _ct, mask, _) in t.sub_element_spec_iter() {
            for v in &vbits {
                if mask & v != 0 {
                    if let Some((ct, _)) = t.find_sub_element(name, *v) {
                        by_name.entry(name as u16).or_default().push((*v, et_ids(&ct)));
                    }
                }
            }
        }
        for (n16, l) in by_name {
            let mut tys: Vec<(u32, u32)> = l.iter().map(|x| x.1).collect();
            tys.sort();
            tys.dedup();
            if tys.len() < 2 {
                continue;
            }
            // one representative version per child type, then all ordered pairs
            let reps: Vec<(u32, (u32, u32))> = tys.iter().map(|ty| *l.iter().find(|x| x.1 == *ty).unwrap()).collect();
            for (va, ta) in &reps {
                for (vb, tb) in &reps {
                    if ta == tb {
                        continue;
                    }
                    let (Some(ba), Some(bb)) = (bfs.get(va), bfs.get(vb)) else { continue };
                    if !ba.0.contains(&tid) || !bb.0.contains(&tid) {
                        continue;
                    }
                    pairs += 1;
                    let name = names.elname(n16).unwrap();
                    let r = guard(|| -> Result<Vec<String>, String> {
                        let (_ma, _fa, pa) = build(*va, &chain_of(&ba.1, tid), &names)?;
                        let (_mb, fb, pb) = build(*vb, &chain_of(&bb.1, tid), &names)?;
                        let vera = AutosarVersion::from_val(*va).unwrap();
                        let src_named = pa.element_type().find_sub_element(name, *va).map(|(ct, _)| ct.is_named_in_version(vera)).unwrap_or(false);
                        let src = if src_named { pa.create_named_sub_element(name, "src") } else { pa.create_sub_element(name) }.map_err(|e| format!("create source: {}", err_name(&e)))?;
                        populate(&src, 1);
                        let cp = pb.create_copied_sub_element(&src).map_err(|e| format!("copy: {}", err_name(&e)))?;
                        let mut out = vec![];
                        if et_ids(&cp.element_type()) != *tb {
                            out.push(format!("type-of-copy {:?} expected {:?}", et_ids(&cp.element_type()), tb));
                        }
                        let text = fb.serialize().map_err(|e| format!("serialize: {}", err_name(&e)))?;
                        let (w, v2) = reload_check(&text);
                        for x in w {
                            out.push(format!("reload-warning {}", x.split('@').next().unwrap_or("?")));
                        }
                        if let Some(v2) = v2 {
                            if v2 != file_view(&fb) {
                                out.push("reload-content-differs".to_string());
                            }
                        }
                        Ok(out)
                    });
                    match r {
                        Ok(Ok(problems)) => {
                            copied += 1;
                            if !problems.is_empty() {
                                bad += 1;
                                let mut p2 = problems.clone();
                                p2.sort();
                                p2.dedup();
                                let sig = p2.join(";");
                                let first = seen_sig.insert(format!("{}", sig));
                                println!("XCOPY parent=({},{}) name={} from={} to={} {}{}", tid.0, tid.1, n16, va, vb, sig, if first { " FIRST" } else { "" });
                            }
                        }
                        Ok(Err(m)) => println!("XSKIP parent=({},{}) name={} from={} to={} {}", tid.0, tid.1, n16, va, vb, m),
                        Err(_) => println!("XCOPY parent=({},{}) name={} from={} to={} PANIC", tid.0, tid.1, n16, va, vb),
                    }
                }
            }
        }
    }
    println!("STAT xcopy pairs={} copied={} with_problems={}", pairs, copied, bad);
}

/// the chain below the root of an existing model; un-named steps re-use an existing element, named steps make a new one
fn build_into(model: &AutosarModel, chain: &str, names: &Names, tag: &str) -> Result<Element, String> {
    let mut cur = model.root_element();
    if chain != "-" {
        for (k, step) in chain.split(',').enumerate() {
            let mut it = step.split(':');
            let n: u16 = it.next().unwrap().parse().unwrap();
            let named = it.next().unwrap() == "1";
            let name = names.elname(n).ok_or("name")?;
            let r = if named {
                cur.create_named_sub_element(name, &format!("{}{}", tag, k))
            } else {
                match cur.get_sub_element(name) {
                    Some(x) => Ok(x),
                    None => cur.create_sub_element(name),
                }
            };
            cur = match r {
                Ok(x) => x,
                Err(e) => cur.get_sub_element(name).ok_or_else(|| format!("chain step {} ({}): {}", k, step, err_name(&e)))?,
            };
        }
    }
    Ok(cur)
}

/// xattach <dump> <tier> <shard> <nshards> [<version>]: inside ONE version, for every name that two parent types list with different child
/// ElementTypes (c1 below p1, c2 below p2; every ordered pair of child types, one representative pair of parents): build the
/// child below p1, populate it, and move it (same model: move / from another model: xmove) or copy it (into another model) below p2; then re-load the target file.
/// quick: the newest, the oldest and the median version; thorough: every version.
/// Lines: `XATTACH kind= v= name= p1= c1= p2= c2= stored=<type of the attached element> dt=<same|differs> <problems>` for every
/// combination with a problem; `stored` other than c2 = the element kept its source type.
pub fn xattach_main(args: &[String]) {
    let names = Names::load(&args[0]);
    let tier = args.get(1).map(|s| s.as_str()).unwrap_or("quick").to_string();
    let shard: usize = args.get(2).map(|x| x.parse().unwrap()).unwrap_or(0);
    let nshards: usize = args.get(3).map(|x| x.parse().unwrap()).unwrap_or(1);
    let vbits = version_bits();
    // an explicit version (replays) overrides the tier
    let versions: Vec<u32> = match args.get(4).map(|x| x.parse::<u32>().unwrap()) {
        Some(v) => vec![v],
        None => if tier == "thorough" { vbits.clone() } else { vec![vbits[vbits.len() - 1], vbits[0], vbits[vbits.len() / 2]] },
    };
    let by_id: HashMap<(u32, u32), ElementType> = reachable().into_iter().map(|t| (et_ids(&t), t)).collect();
    let (mut combos, mut done, mut skipped, mut bad, mut kept, mut retyped, mut harmless) = (0u64, 0u64, 0u64, 0u64, 0u64, 0u64, 0u64);
    let mut seen_sig: HashSet<String> = HashSet::new();
    let mut k = 0usize;
    for v in &versions {
        let ver = AutosarVersion::from_val(*v).unwrap();
        let (order, parent) = bfs_version(*v);
        // name -> child type -> first parent type that lists the name with this child type in v
        let mut by_name: BTreeMap<u16, BTreeMap<(u32, u32), (u32, u32)>> = BTreeMap::new();
        for tid in &order {
            let t = by_id[tid];
            if t.content_mode() == ContentMode::Characters {
                continue;
            }
            for (name, _ct, mask, _) in t.sub_element_spec_iter() {
                if mask & v == 0 {
                    continue;
                }
                if let Some((ct, _)) = t.find_sub_element(name, *v) {
                    by_name.entry(name as u16).or_default().entry(et_ids(&ct)).or_insert(*tid);
                }
            }
        }
        for (n16, m) in &by_name {
            if m.len() < 2 {
                continue;
            }
            let name = names.elname(*n16).unwrap();
            for (c1, p1) in m {
                for (c2, p2) in m {
                    if c1 == c2 || p1 == p2 {
                        continue;
                    }
                    for kind in ["move", "xmove", "copy"] {
                        k += 1;
                        if k % nshards != shard {
                            continue;
                        }
                        combos += 1;
                        let dt = if c1.1 == c2.1 { "same" } else { "differs" };
                        let r = guard(|| -> Result<(Vec<String>, (u32, u32)), String> {
                            let (ma, fa, pa) = build(*v, &chain_of(&parent, *p1), &names)?;
                            if et_ids(&pa.element_type()) != *p1 {
                                return Err("source parent has another type".into());
                            }
                            let src_named = by_id[c1].is_named_in_version(ver);
                            let src = if src_named { pa.create_named_sub_element(name, "src") } else { pa.create_sub_element(name) }.map_err(|e| format!("create source: {}", err_name(&e)))?;
                            if et_ids(&src.element_type()) != *c1 {
                                return Err("source has another type".into());
                            }
                            populate(&src, 1);
                            // the copy goes into another model as well (a copy beside its source repeats the AUTOSAR paths of the subtree)
                            let (_mb, fb, pb) = if kind != "move" {
                                build(*v, &chain_of(&parent, *p2), &names)?
                            } else {
                                let pb = build_into(&ma, &chain_of(&parent, *p2), &names, "m")?;
                                (ma.clone(), fa.clone(), pb)
                            };
                            if et_ids(&pb.element_type()) != *p2 {
                                return Err("target parent has another type".into());
                            }
                            let at = if kind == "copy" { pb.create_copied_sub_element(&src) } else { pb.move_element_here(&src) }.map_err(|e| format!("{}: {}", kind, err_name(&e)))?;
                            let stored = et_ids(&at.element_type());
                            let mut out = vec![];
                            let text = fb.serialize().map_err(|e| format!("serialize: {}", err_name(&e)))?;
                            let (w, v2) = reload_check(&text);
                            if !w.is_empty() && std::env::var("AVH_RANGE_SHOW").is_ok() {
                                println!("SHOW {:?} {}", w, text);
                            }
                            for x in w {
                                out.push(format!("reload-warning:{}", x.split('@').next().unwrap_or("?")));
                            }
                            if let Some(v2) = v2 {
                                let v1 = file_view(&fb);
                                if v2 != v1 {
                                    out.push(if normalise_view(&v1) == normalise_view(&v2) { "reload-content-differs:string-blank-or-empty".to_string() } else { "reload-content-differs".to_string() });
                                }
                            }
                            // the oracle's own reading of `kept its source type`: through the public API, below the new parent
                            if stored_type_mismatch(&at, false) != (stored != *c2) || stored_type_mismatch(&at, true) != (stored.1 != c2.1) {
                                out.push("mismatch-reading-differs".to_string());
                            }
                            if !out.is_empty() && has_duplicate_path(&_mb) {
                                out.push("cause:duplicate-path".to_string());
                            }
                            if !out.is_empty() && _mb.elements_dfs().any(|(_, x)| item_name_over_length(&x)) {
                                out.push("cause:item-name-over-length".to_string());
                            }
                            Ok((out, stored))
                        });
                        let head = format!("kind={} v={} name={} p1=({},{}) c1=({},{}) p2=({},{}) c2=({},{})", kind, v, n16, p1.0, p1.1, c1.0, c1.1, p2.0, p2.1, c2.0, c2.1);
                        match r {
                            Ok(Ok((problems, stored))) => {
                                done += 1;
                                if stored == *c2 { retyped += 1 } else { kept += 1 }
                                let mut p2s = problems.clone();
                                p2s.sort();
                                p2s.dedup();
                                if p2s.is_empty() {
                                    if stored != *c2 { harmless += 1 }
                                } else {
                                    bad += 1;
                                    let sig = p2s.join(";");
                                    let first = seen_sig.insert(format!("{}|{}", kind, sig));
                                    println!("XATTACH {} stored=({},{}) dt={} {}{}", head, stored.0, stored.1, dt, sig, if first { " FIRST" } else { "" });
                                    if std::env::var("AVH_RANGE_SHOW").is_ok() {
                                        println!("XCHAIN {} chain1={} chain2={}", head, chain_of(&parent, *p1), chain_of(&parent, *p2));
                                    }
                                }
                            }
                            Ok(Err(m)) => {
                                skipped += 1;
                                if std::env::var("AVH_RANGE_SHOW").is_ok() {
                                    println!("XSKIP {} {}", head, m);
                                }
                            }
                            Err(_) => {
                                bad += 1;
                                println!("XATTACH {} stored=(0,0) dt={} PANIC", head, dt);
                            }
                        }
                    }
                }
            }
        }
    }
    println!("STAT xattach versions={} combinations={} attached={} not_buildable_or_refused={} kept_source_type={} has_target_type={} with_problems={} kept_type_but_reloads_clean={}",
        versions.len(), combos, done, skipped, kept, retyped, bad, harmless);
}

// ------------------------------------------------------------------------------------------------ version-dependent content, copied across versions
const XVER_PATTERN_CANDIDATES: &[&str] = &[
    "x", "a", "A", "1", "0", "1.0", "true", "0x1", "/a", "/a/b", "a/b", "ABC", "1.0.0", "2020-01-01", "2020-01-01T00:00:00Z", "EN", "AA", "a1", "X_1",
    "00:00:00:00:00:00", "1.2.3.4", "::1", "0b1", "01", "-1", "1e3", "INF", "ANY", "ALL", "application/xml", "4.0.1", "R4.0", "blueprint", "#x", "a.b", "AUTOSAR",
];

fn xver_value(spec: &autosar_data_specification::CharacterDataSpec, v: u32) -> Option<CharacterData> {
    use autosar_data_specification::CharacterDataSpec as S;
    match spec {
        S::Enum { items } => items.iter().find(|(_, m)| m & v != 0).map(|(i, _)| CharacterData::Enum(*i)),
        S::Pattern { check_fn, max_length, .. } => XVER_PATTERN_CANDIDATES
            .iter()
            .find(|c| c.len() <= max_length.unwrap_or(usize::MAX) && check_fn(c.as_bytes()))
            .map(|c| CharacterData::String(c.to_string())),
        S::String { .. } => Some(CharacterData::String("x".to_string())),
        S::UnsignedInteger => Some(CharacterData::UnsignedInteger(1)),
        S::Float => Some(CharacterData::Float(1.0)),
    }
}

#[derive(Clone, Debug)]
enum XItem {
    Attr(AttributeName),
    AttrEnum(AttributeName, EnumItem),
    CdEnum(EnumItem),
    Sub(ElementName),
}

impl XItem {
    fn tag(&self) -> String {
        match self {
            XItem::Attr(a) => format!("attr:{}", *a as u16),
            XItem::AttrEnum(a, e) => format!("attrenum:{}:{}", *a as u16, *e as u16),
            XItem::CdEnum(e) => format!("cdenum:{}", *e as u16),
            XItem::Sub(n) => format!("sub:{}", *n as u16),
        }
    }
}

/// xver <dump> <tier> <shard> <nshards> [<datatype>]: content whose existence depends on the version, copied across versions.
/// For every datatype (one reachable ElementType each) and every item of it with a PARTIAL version mask —
///   attr      an attribute (set to a value valid in the source version)
///   attrenum  an enumeration value of an attribute
///   cdenum    an enumeration value as the element's character data
///   sub       a sub-element
/// the element is built in a file of a version INSIDE the mask (the oldest and the newest such version), given the item, and
/// copied with create_copied_sub_element and create_copied_sub_element_at below a parent of the same kind in a file of a version
/// OUTSIDE the mask (oldest, newest) and of another version INSIDE it (oldest, newest) — older -> newer and newer -> older.
/// When the element cannot be copied by itself (a SHORT-NAME: the target parent has one) its parent is copied instead.
/// Then the target file is serialized and re-loaded.  Lines `XVER item= dt= t= from= to= inside= kind= level= <problems>` for
/// every combination with a complaint other than RequiredAttributeMissing or a re-loaded content that differs; `cause:` tags
/// name state conditions of recorded findings (stored-type-mismatch: an element of the copy carries another datatype than its
/// new parent lists for its name in the target version).
pub fn xver_main(args: &[String]) {
    let names = Names::load(&args[0]);
    let _tier = args.get(1).map(|s| s.as_str()).unwrap_or("quick").to_string();
    let shard: usize = args.get(2).map(|x| x.parse().unwrap()).unwrap_or(0);
    let nshards: usize = args.get(3).map(|x| x.parse().unwrap()).unwrap_or(1);
    let only_dt: Option<u32> = args.get(4).map(|x| x.parse().unwrap());
    let vbits = version_bits();
    let all_mask: u32 = vbits.iter().fold(0, |a, b| a | b);
    let all: Vec<ElementType> = reachable();
    let mut bfs: HashMap<u32, (HashSet<(u32, u32)>, HashMap<(u32, u32), ((u32, u32), ElementName, bool)>)> = HashMap::new();
    for v in &vbits {
        let (o, p) = bfs_version(*v);
        bfs.insert(*v, (o.into_iter().collect(), p));
    }
    let mut seen_dt: HashSet<u32> = HashSet::new();
    let (mut items_n, mut combos, mut copied, mut refused, mut unbuildable, mut bad) = (0u64, 0u64, 0u64, 0u64, 0u64, 0u64);
    let mut by_class: BTreeMap<String, u64> = BTreeMap::new();
    let mut seen_sig: HashSet<String> = HashSet::new();
    let mut k = 0usize;
    for t in &all {
        let tid = et_ids(t);
        let reach_t: Vec<u32> = vbits.iter().copied().filter(|v| bfs[v].0.contains(&tid)).collect();
        if reach_t.is_empty() || tid == et_ids(&ElementType::ROOT) || !seen_dt.insert(tid.1) {
            continue;
        }
        if only_dt.map(|d| d != tid.1).unwrap_or(false) {
            continue;
        }
        // the items of this datatype with a partial mask
        let mut items: Vec<(XItem, u32)> = vec![];
        for (an, spec, _) in t.attribute_spec_iter() {
            let m = t.find_attribute_spec(an).map(|a| a.version).unwrap_or(0);
            if m & all_mask != all_mask {
                items.push((XItem::Attr(an), m));
            }
            if let autosar_data_specification::CharacterDataSpec::Enum { items: its } = spec {
                let part: Vec<&(EnumItem, u32)> = its.iter().filter(|(_, im)| im & all_mask != all_mask).collect();
                let pick: Vec<&(EnumItem, u32)> = part; // every partial value in both tiers (the whole sweep takes seconds)
                for (it, im) in pick {
                    items.push((XItem::AttrEnum(an, *it), m & im));
                }
            }
        }
        if let Some(autosar_data_specification::CharacterDataSpec::Enum { items: its }) = t.chardata_spec() {
            let part: Vec<&(EnumItem, u32)> = its.iter().filter(|(_, im)| im & all_mask != all_mask).collect();
            let pick: Vec<&(EnumItem, u32)> = part; // every partial value in both tiers (the whole sweep takes seconds)
            for (it, im) in pick {
                items.push((XItem::CdEnum(*it), *im));
            }
        }
        if t.content_mode() != ContentMode::Characters {
            for (name, _ct, m, _) in t.sub_element_spec_iter() {
                if m & all_mask != all_mask {
                    items.push((XItem::Sub(name), m));
                }
            }
        }
        for (item, mask) in items {
            let inside: Vec<u32> = reach_t.iter().copied().filter(|v| v & mask != 0).collect();
            let outside: Vec<u32> = reach_t.iter().copied().filter(|v| v & mask == 0).collect();
            if inside.is_empty() {
                continue;
            }
            items_n += 1;
            let mut sources = vec![inside[0], inside[inside.len() - 1]];
            sources.dedup();
            for va in sources {
                let mut targets: Vec<(u32, bool)> = vec![];
                if !outside.is_empty() {
                    targets.push((outside[0], false));
                    targets.push((outside[outside.len() - 1], false));
                }
                let others: Vec<u32> = inside.iter().copied().filter(|v| *v != va).collect();
                if !others.is_empty() {
                    targets.push((others[0], true));
                    targets.push((others[others.len() - 1], true));
                }
                targets.dedup();
                for (vb, is_inside) in targets {
                    for kind in ["copy", "copy_at"] {
                        k += 1;
                        if k % nshards != shard {
                            continue;
                        }
                        combos += 1;
                        let (ba, bb) = (&bfs[&va], &bfs[&vb]);
                        let r = guard(|| -> Result<(Vec<String>, usize), String> {
                            let (_ma, _fa, e) = build(va, &chain_of(&ba.1, tid), &names).map_err(|m| format!("UNBUILDABLE {}", m))?;
                            if et_ids(&e.element_type()) != tid {
                                return Err("UNBUILDABLE source has another type".into());
                            }
                            let vera = AutosarVersion::from_val(va).unwrap();
                            match &item {
                                XItem::Attr(an) => {
                                    let sp = t.find_attribute_spec(*an).ok_or("UNBUILDABLE no attribute spec")?;
                                    let val = xver_value(sp.spec, va).ok_or("UNBUILDABLE no value for the attribute")?;
                                    e.set_attribute(*an, val).map_err(|x| format!("UNBUILDABLE set_attribute: {}", err_name(&x)))?;
                                }
                                XItem::AttrEnum(an, it) => {
                                    e.set_attribute(*an, CharacterData::Enum(*it)).map_err(|x| format!("UNBUILDABLE set_attribute: {}", err_name(&x)))?;
                                }
                                XItem::CdEnum(it) => {
                                    e.set_character_data(CharacterData::Enum(*it)).map_err(|x| format!("UNBUILDABLE set_character_data: {}", err_name(&x)))?;
                                }
                                XItem::Sub(name) => {
                                    let named = t.find_sub_element(*name, va).map(|(ct, _)| ct.is_named_in_version(vera)).unwrap_or(false);
                                    let r = if named { e.create_named_sub_element(*name, "sub") } else { e.create_sub_element(*name) };
                                    if let Err(x) = r {
                                        if e.get_sub_element(*name).is_none() {
                                            return Err(format!("UNBUILDABLE create sub-element: {}", err_name(&x)));
                                        }
                                    }
                                }
                            }
                            // copy the element itself, or (when the target parent cannot take it) its parent
                            let mut last_err = String::from("no level");
                            let mut cur = e.clone();
                            for level in 0..3usize {
                                let ct = et_ids(&cur.element_type());
                                let Some((pt, _nm, _)) = bb.1.get(&ct) else {
                                    last_err = "type not reachable in the target version".into();
                                    break;
                                };
                                let (mb, fb, pb) = build(vb, &chain_of(&bb.1, *pt), &names).map_err(|m| format!("UNBUILDABLE target: {}", m))?;
                                if et_ids(&pb.element_type()) != *pt {
                                    return Err("UNBUILDABLE target parent has another type".into());
                                }
                                let res = if kind == "copy" {
                                    pb.create_copied_sub_element(&cur)
                                } else {
                                    let n = pb.content().count();
                                    let mut r = Err(AutosarDataError::InvalidPosition);
                                    for pos in 0..=n {
                                        r = pb.create_copied_sub_element_at(&cur, pos);
                                        if !matches!(r, Err(AutosarDataError::InvalidPosition)) {
                                            break;
                                        }
                                    }
                                    r
                                };
                                match res {
                                    Ok(_cp) => {
                                        let mut out = vec![];
                                        let text = fb.serialize().map_err(|x| format!("serialize: {}", err_name(&x)))?;
                                        let (w, v2) = reload_check(&text);
                                        if !w.is_empty() && std::env::var("AVH_RANGE_SHOW").is_ok() {
                                            println!("SHOW {:?} {}", w, text);
                                        }
                                        for x in w {
                                            out.push(format!("reload-warning:{}", x.split('@').next().unwrap_or("?")));
                                        }
                                        if let Some(v2) = v2 {
                                            let v1 = file_view(&fb);
                                            if v2 != v1 {
                                                out.push(if normalise_view(&v1) == normalise_view(&v2) { "reload-content-differs:string-blank-or-empty".to_string() } else { "reload-content-differs".to_string() });
                                            }
                                        }
                                        if !out.is_empty() {
                                            if mb.elements_dfs().any(|(_, x)| stored_type_mismatch(&x, true)) {
                                                out.push("cause:stored-type-mismatch".to_string());
                                            }
                                            if has_duplicate_path(&mb) {
                                                out.push("cause:duplicate-path".to_string());
                                            }
                                            // an element whose type is identifiable in the version of its file but that has no SHORT-NAME
                                            if mb.elements_dfs().any(|(_, x)| named_without_short_name(&x)) {
                                                out.push("cause:named-without-short-name".to_string());
                                            }
                                            if mb.elements_dfs().any(|(_, x)| short_name_not_first(&x)) {
                                                out.push("cause:short-name-not-first".to_string());
                                            }
                                            if mb.elements_dfs().any(|(_, x)| item_name_over_length(&x)) {
                                                out.push("cause:item-name-over-length".to_string());
                                            }
                                        }
                                        return Ok((out, level));
                                    }
                                    Err(x) => {
                                        last_err = format!("{}: {}", kind, err_name(&x));
                                        match cur.parent() {
                                            Ok(Some(p)) if p.element_type() != ElementType::ROOT => cur = p,
                                            _ => break,
                                        }
                                    }
                                }
                            }
                            Err(last_err)
                        });
                        let head = format!("item={} dt={} t=({},{}) from={} to={} inside={} kind={}", item.tag(), tid.1, tid.0, tid.1, va, vb, is_inside as u8, kind);
                        match r {
                            Ok(Ok((problems, level))) => {
                                copied += 1;
                                *by_class.entry(item.tag().split(':').next().unwrap().to_string()).or_insert(0) += 1;
                                let mut p2 = problems.clone();
                                p2.sort();
                                p2.dedup();
                                if !p2.is_empty() {
                                    bad += 1;
                                    let sig = p2.join(";");
                                    let first = seen_sig.insert(format!("{}|{}", item.tag().split(':').next().unwrap(), sig));
                                    println!("XVER {} level={} {}{}", head, level, sig, if first { " FIRST" } else { "" });
                                }
                            }
                            Ok(Err(m)) => {
                                if m.starts_with("UNBUILDABLE") { unbuildable += 1 } else { refused += 1 }
                                if std::env::var("AVH_RANGE_SHOW").is_ok() {
                                    println!("XVSKIP {} {}", head, m);
                                }
                            }
                            Err(_) => {
                                bad += 1;
                                println!("XVER {} level=0 PANIC", head);
                            }
                        }
                    }
                }
            }
        }
    }
    println!("STAT xver items={} combinations={} copied={} refused={} unbuildable={} with_problems={} copied_by_class={:?}", items_n, combos, copied, refused, unbuildable, bad, by_class);
}

pub fn main(args: &[String]) {
    match args[0].as_str() {
        "xver" => xver_main(&args[1..]),
        "xattach" => xattach_main(&args[1..]),
        "xcopy" => xcopy_main(&args[1..]),
        "plan" => plan_main(&args[1..]),
        "sweep" => sweep_main(&args[1..]),
        "hist" => hist_main(&args[1..]),
        _ => {
            eprintln!("usage: avh range plan|sweep|hist ...");
            std::process::exit(2)
        }
    }
}
