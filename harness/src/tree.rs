//! Element-tree histories (C03-C07, C10-C13): script generator (online, guided by the real library), script executor
//! printing the canonical observation after every operation (the same lines `avm_tree` prints from the Coq model),
//! and direct property oracles on the implementation.
//!   avh tree gen <dump> <seed> <tier> <out-script>      avh tree run <dump> <script> [-v]      avh tree oracle <dump> <script>
use crate::util::*;
use autosar_data::*;
use autosar_data_specification::CharacterDataSpec;
use std::collections::{BTreeSet, HashMap};
use std::str::FromStr;
use std::sync::mpsc;

#[derive(Clone, Debug)]
pub enum Val {
    E(u16),
    S(Vec<u8>),
    U(u64),
    F(u64),
}

#[derive(Clone, Debug)]
pub enum Op {
    CreateSub(usize, u16),
    CreateSubAt(usize, u16, usize),
    CreateNamed(usize, u16, Vec<u8>),
    CreateNamedAt(usize, u16, Vec<u8>, usize),
    Copy(usize, usize),
    CopyAt(usize, usize, usize),
    Move(usize, usize),
    MoveAt(usize, usize, usize),
    Remove(usize, usize),
    RemoveKind(usize, u16),
    SetItemName(usize, Vec<u8>),
    SetCData(usize, Val),
    RemoveCData(usize),
    InsertCItem(usize, Vec<u8>, usize),
    RemoveCItem(usize, usize),
    SetRefTarget(usize, usize),
    SetAttr(usize, u16, Val),
    RemoveAttr(usize, u16),
    SetComment(usize, Option<Vec<u8>>),
    GetOrCreate(usize, u16),
    GetOrCreateNamed(usize, u16, Vec<u8>),
    NewModel,
    CreateFile(usize, Vec<u8>, u32),
    RemoveFile(usize, usize),
    AddToFile(usize, usize),
    RemoveFromFile(usize, usize),
    // ---- OP2 family (Tree/Script2.v)
    Sort(usize),
    SortModel(usize),
    Duplicate(usize),
    Load(usize, Vec<u8>, Vec<u8>, bool),
    SetVersion(usize, u32),
    CheckCompat(usize, u32),
    SerializeFile(usize),
    SerializeElem(usize),
    /// Element::cmp on every ordered pair of sub-elements of the handle (C14)
    CmpKids(usize),
}

fn xh(b: &[u8]) -> String {
    format!("x{}", hex(b))
}
fn unxh(s: &str) -> Vec<u8> {
    unhex(s.strip_prefix('x').unwrap_or(s))
}
fn val_str(v: &Val) -> String {
    match v {
        Val::E(e) => format!("E{}", e),
        Val::S(s) => format!("S{}", hex(s)),
        Val::U(n) => format!("U{}", n),
        Val::F(b) => format!("F{:016x}", b),
    }
}
fn parse_val(s: &str) -> Val {
    let body = &s[1..];
    match s.as_bytes()[0] {
        b'E' => Val::E(body.parse().unwrap()),
        b'S' => Val::S(unhex(body)),
        b'U' => Val::U(body.parse().unwrap()),
        b'F' => Val::F(u64::from_str_radix(body, 16).unwrap()),
        _ => panic!("value {}", s),
    }
}

impl Op {
    pub fn line(&self) -> String {
        use Op::*;
        match self {
            CreateSub(h, n) => format!("OP create_sub {} {}", h, n),
            CreateSubAt(h, n, p) => format!("OP create_sub_at {} {} {}", h, n, p),
            CreateNamed(h, n, i) => format!("OP create_named {} {} {}", h, n, xh(i)),
            CreateNamedAt(h, n, i, p) => format!("OP create_named_at {} {} {} {}", h, n, xh(i), p),
            Copy(h, o) => format!("OP copy {} {}", h, o),
            CopyAt(h, o, p) => format!("OP copy_at {} {} {}", h, o, p),
            Move(h, o) => format!("OP move {} {}", h, o),
            MoveAt(h, o, p) => format!("OP move_at {} {} {}", h, o, p),
            Remove(h, s) => format!("OP remove {} {}", h, s),
            RemoveKind(h, n) => format!("OP remove_kind {} {}", h, n),
            SetItemName(h, n) => format!("OP set_item_name {} {}", h, xh(n)),
            SetCData(h, v) => format!("OP set_cdata {} {}", h, val_str(v)),
            RemoveCData(h) => format!("OP remove_cdata {}", h),
            InsertCItem(h, t, p) => format!("OP insert_citem {} {} {}", h, xh(t), p),
            RemoveCItem(h, p) => format!("OP remove_citem {} {}", h, p),
            SetRefTarget(h, t) => format!("OP set_ref_target {} {}", h, t),
            SetAttr(h, a, v) => format!("OP set_attr {} {} {}", h, a, val_str(v)),
            RemoveAttr(h, a) => format!("OP remove_attr {} {}", h, a),
            SetComment(h, c) => format!("OP set_comment {} {}", h, c.as_ref().map(|x| xh(x)).unwrap_or("-".into())),
            GetOrCreate(h, n) => format!("OP get_or_create {} {}", h, n),
            GetOrCreateNamed(h, n, i) => format!("OP get_or_create_named {} {} {}", h, n, xh(i)),
            NewModel => "OP new_model".to_string(),
            CreateFile(m, n, v) => format!("OP create_file {} {} {}", m, xh(n), v),
            RemoveFile(m, f) => format!("OP remove_file {} {}", m, f),
            AddToFile(h, f) => format!("OP add_to_file {} {}", h, f),
            RemoveFromFile(h, f) => format!("OP remove_from_file {} {}", h, f),
            Sort(h) => format!("OP2 sort {}", h),
            SortModel(m) => format!("OP2 sort_model {}", m),
            Duplicate(m) => format!("OP2 duplicate {}", m),
            Load(m, b, f, st) => format!("OP2 load {} {} {} {}", m, xh(b), xh(f), *st as u8),
            SetVersion(f, v) => format!("OP2 set_version {} {}", f, v),
            CheckCompat(f, v) => format!("OP2 check_compat {} {}", f, v),
            SerializeFile(f) => format!("OP2 serialize_file {}", f),
            SerializeElem(h) => format!("OP2 serialize_elem {}", h),
            CmpKids(h) => format!("OP2 cmp_kids {}", h),
        }
    }
    pub fn parse(l: &str) -> Option<Op> {
        use Op::*;
        let w: Vec<&str> = l.split_whitespace().collect();
        if w.len() < 2 || (w[0] != "OP" && w[0] != "OP2") {
            return None;
        }
        let u = |k: usize| -> usize { w[k + 2].parse().unwrap() };
        let n = |k: usize| -> u16 { w[k + 2].parse().unwrap() };
        let hx = |k: usize| -> Vec<u8> { unxh(w[k + 2]) };
        Some(match w[1] {
            "create_sub" => CreateSub(u(0), n(1)),
            "create_sub_at" => CreateSubAt(u(0), n(1), u(2)),
            "create_named" => CreateNamed(u(0), n(1), hx(2)),
            "create_named_at" => CreateNamedAt(u(0), n(1), hx(2), u(3)),
            "copy" => Copy(u(0), u(1)),
            "copy_at" => CopyAt(u(0), u(1), u(2)),
            "move" => Move(u(0), u(1)),
            "move_at" => MoveAt(u(0), u(1), u(2)),
            "remove" => Remove(u(0), u(1)),
            "remove_kind" => RemoveKind(u(0), n(1)),
            "set_item_name" => SetItemName(u(0), hx(1)),
            "set_cdata" => SetCData(u(0), parse_val(w[3])),
            "remove_cdata" => RemoveCData(u(0)),
            "insert_citem" => InsertCItem(u(0), hx(1), u(2)),
            "remove_citem" => RemoveCItem(u(0), u(1)),
            "set_ref_target" => SetRefTarget(u(0), u(1)),
            "set_attr" => SetAttr(u(0), n(1), parse_val(w[4])),
            "remove_attr" => RemoveAttr(u(0), n(1)),
            "set_comment" => SetComment(u(0), if w[3] == "-" { None } else { Some(unxh(w[3])) }),
            "get_or_create" => GetOrCreate(u(0), n(1)),
            "get_or_create_named" => GetOrCreateNamed(u(0), n(1), hx(2)),
            "new_model" => NewModel,
            "create_file" => CreateFile(u(0), unxh(w[3]), w[4].parse().unwrap()),
            "remove_file" => RemoveFile(u(0), u(1)),
            "add_to_file" => AddToFile(u(0), u(1)),
            "remove_from_file" => RemoveFromFile(u(0), u(1)),
            "sort" => Sort(u(0)),
            "sort_model" => SortModel(u(0)),
            "duplicate" => Duplicate(u(0)),
            "load" => Load(u(0), hx(1), hx(2), w[5] == "1"),
            "set_version" => SetVersion(u(0), w[3].parse().unwrap()),
            "check_compat" => CheckCompat(u(0), w[3].parse().unwrap()),
            "serialize_file" => SerializeFile(u(0)),
            "serialize_elem" => SerializeElem(u(0)),
            "cmp_kids" => CmpKids(u(0)),
            other => panic!("unknown op {}", other),
        })
    }
}

pub struct Names {
    pub el: Vec<String>,
    pub at: Vec<String>,
    pub en: Vec<String>,
}
impl Names {
    pub fn load(dump: &str) -> Names {
        Names {
            el: read_lines(&format!("{}/names_Element.txt", dump)),
            at: read_lines(&format!("{}/names_Attr.txt", dump)),
            en: read_lines(&format!("{}/names_Enum.txt", dump)),
        }
    }
    pub fn elname(&self, n: u16) -> Option<ElementName> {
        self.el.get(n as usize).and_then(|s| ElementName::from_str(s).ok())
    }
    pub fn atname(&self, n: u16) -> Option<AttributeName> {
        self.at.get(n as usize).and_then(|s| AttributeName::from_str(s).ok())
    }
    pub fn enitem(&self, n: u16) -> Option<EnumItem> {
        self.en.get(n as usize).and_then(|s| EnumItem::from_str(s).ok())
    }
    pub fn elidx(&self, s: &str) -> u16 {
        self.el.iter().position(|x| x == s).unwrap_or_else(|| panic!("element name {}", s)) as u16
    }
}

pub fn text_digest(t: &str) -> String {
    let mut h: u64 = 0xcbf29ce484222325;
    for b in t.bytes() {
        h ^= b as u64;
        h = h.wrapping_mul(0x100000001b3);
    }
    format!("{}:{:016x}", t.len(), h)
}
pub fn show_load_error(e: &AutosarDataError) -> String {
    match e {
        AutosarDataError::LexerError { line, .. } => format!("L@{}", line),
        AutosarDataError::ParserError { line, source, .. } => {
            let d = format!("{:?}", source);
            let n: String = d.chars().take_while(|c| c.is_ascii_alphanumeric()).collect();
            format!("P{}@{}", n, line)
        }
        other => format!("?{}", err_name(other)),
    }
}
pub fn err_name(e: &AutosarDataError) -> String {
    let d = format!("{:?}", e);
    d.chars().take_while(|c| c.is_ascii_alphanumeric()).collect()
}

fn cdata_of(v: &Val, names: &Names) -> Option<CharacterData> {
    Some(match v {
        Val::E(e) => CharacterData::Enum(names.enitem(*e)?),
        Val::S(s) => CharacterData::String(String::from_utf8(s.clone()).ok()?),
        Val::U(n) => CharacterData::UnsignedInteger(*n),
        Val::F(b) => CharacterData::Float(f64::from_bits(*b)),
    })
}
pub fn show_cdata(c: &CharacterData) -> String {
    match c {
        CharacterData::Enum(e) => format!("E{}", *e as u16),
        CharacterData::String(s) => format!("S{}", hex(s.as_bytes())),
        CharacterData::UnsignedInteger(n) => format!("U{}", n),
        CharacterData::Float(f) => format!("F{:016x}", f.to_bits()),
    }
}

/// Element::cmp of every ordered pair of sub-elements: rows separated by '/', one of < = > per pair
pub fn cmp_matrix(e: &Element) -> String {
    let kids: Vec<Element> = e.sub_elements().collect();
    let rows: Vec<String> = kids
        .iter()
        .map(|a| kids.iter().map(|b| match a.cmp(b) { std::cmp::Ordering::Less => '<', std::cmp::Ordering::Equal => '=', std::cmp::Ordering::Greater => '>' }).collect::<String>())
        .collect();
    rows.join("/")
}

pub struct Exec<'a> {
    pub names: &'a Names,
    pub models: Vec<AutosarModel>,
    pub files: Vec<ArxmlFile>,
    pub handles: Vec<Element>,
    pub hidx: HashMap<Element, usize>,
    pub probes: Vec<String>,
    pub serialize_obs: bool,
}

fn vers(v: u32) -> Option<AutosarVersion> {
    AutosarVersion::from_val(v)
}

impl<'a> Exec<'a> {
    pub fn new(names: &'a Names) -> Exec<'a> {
        Exec { names, models: vec![], files: vec![], handles: vec![], hidx: HashMap::new(), probes: vec![], serialize_obs: false }
    }
    pub fn hnum(&self, e: &Element) -> String {
        match self.hidx.get(e) {
            Some(k) => format!("h{}", k),
            None => "h?".to_string(),
        }
    }
    fn walk(&mut self, e: &Element, depth: usize) {
        if !self.hidx.contains_key(e) {
            self.hidx.insert(e.clone(), self.handles.len());
            self.handles.push(e.clone());
        }
        if depth > 400 {
            return;
        }
        let subs: Vec<Element> = e.sub_elements().collect();
        for s in subs {
            self.walk(&s, depth + 1);
        }
    }
    fn discover(&mut self, result: Option<&Element>) {
        if let Some(r) = result {
            self.walk(&r.clone(), 0);
        }
        let roots: Vec<Element> = self.models.iter().map(|m| m.root_element()).collect();
        for r in roots {
            self.walk(&r, 0);
        }
    }
    fn model_idx(&self, m: &AutosarModel) -> String {
        self.models.iter().position(|x| x == m).map(|k| k.to_string()).unwrap_or("?".into())
    }
    fn file_idx(&self, f: &ArxmlFile) -> Option<usize> {
        self.files.iter().position(|x| x == f)
    }

    /// executes one operation; returns the result line
    pub fn apply(&mut self, op: &Op) -> String {
        use Op::*;
        let names = self.names;
        let h = |k: &usize| -> Element { self.handles[*k].clone() };
        enum R {
            Unit(Result<(), AutosarDataError>),
            Elem(Result<Element, AutosarDataError>),
            Bool(bool),
            File(Result<ArxmlFile, AutosarDataError>),
            Model(AutosarModel),
            Text(Result<String, AutosarDataError>),
            Compat(Vec<CompatibilityError>, u32),
            Load(Result<(ArxmlFile, Vec<AutosarDataError>), AutosarDataError>),
            Dup(Result<AutosarModel, AutosarDataError>),
            Raw(String),
            Bad(&'static str),
        }
        let opc = op.clone();
        let models = self.models.clone();
        let files = self.files.clone();
        let r = guard(move || -> R {
            match &opc {
                CreateSub(a, n) => match names.elname(*n) { Some(nm) => R::Elem(h(a).create_sub_element(nm)), None => R::Bad("name") },
                CreateSubAt(a, n, p) => match names.elname(*n) { Some(nm) => R::Elem(h(a).create_sub_element_at(nm, *p)), None => R::Bad("name") },
                CreateNamed(a, n, i) => match (names.elname(*n), std::str::from_utf8(i)) {
                    (Some(nm), Ok(it)) => R::Elem(h(a).create_named_sub_element(nm, it)),
                    _ => R::Bad("name"),
                },
                CreateNamedAt(a, n, i, p) => match (names.elname(*n), std::str::from_utf8(i)) {
                    (Some(nm), Ok(it)) => R::Elem(h(a).create_named_sub_element_at(nm, it, *p)),
                    _ => R::Bad("name"),
                },
                Copy(a, o) => R::Elem(h(a).create_copied_sub_element(&h(o))),
                CopyAt(a, o, p) => R::Elem(h(a).create_copied_sub_element_at(&h(o), *p)),
                Move(a, o) => R::Elem(h(a).move_element_here(&h(o))),
                MoveAt(a, o, p) => R::Elem(h(a).move_element_here_at(&h(o), *p)),
                Remove(a, s) => R::Unit(h(a).remove_sub_element(h(s))),
                RemoveKind(a, n) => match names.elname(*n) { Some(nm) => R::Unit(h(a).remove_sub_element_kind(nm)), None => R::Bad("name") },
                SetItemName(a, n) => match std::str::from_utf8(n) { Ok(s) => R::Unit(h(a).set_item_name(s)), Err(_) => R::Bad("utf8") },
                SetCData(a, v) => match cdata_of(v, names) { Some(c) => R::Unit(h(a).set_character_data(c)), None => R::Bad("value") },
                RemoveCData(a) => R::Unit(h(a).remove_character_data()),
                InsertCItem(a, t, p) => match std::str::from_utf8(t) { Ok(s) => R::Unit(h(a).insert_character_content_item(s, *p)), Err(_) => R::Bad("utf8") },
                RemoveCItem(a, p) => R::Unit(h(a).remove_character_content_item(*p)),
                SetRefTarget(a, t) => R::Unit(h(a).set_reference_target(&h(t))),
                SetAttr(a, at, v) => match (names.atname(*at), cdata_of(v, names)) {
                    (Some(an), Some(c)) => R::Unit(h(a).set_attribute(an, c)),
                    _ => R::Bad("attr"),
                },
                RemoveAttr(a, at) => match names.atname(*at) { Some(an) => R::Bool(h(a).remove_attribute(an)), None => R::Bad("attr") },
                SetComment(a, c) => {
                    h(a).set_comment(c.as_ref().map(|x| String::from_utf8_lossy(x).to_string()));
                    R::Unit(Ok(()))
                }
                GetOrCreate(a, n) => match names.elname(*n) { Some(nm) => R::Elem(h(a).get_or_create_sub_element(nm)), None => R::Bad("name") },
                GetOrCreateNamed(a, n, i) => match (names.elname(*n), std::str::from_utf8(i)) {
                    (Some(nm), Ok(it)) => R::Elem(h(a).get_or_create_named_sub_element(nm, it)),
                    _ => R::Bad("name"),
                },
                NewModel => R::Model(AutosarModel::new()),
                CreateFile(m, n, v) => match vers(*v) {
                    Some(ver) => R::File(models[*m].create_file(String::from_utf8_lossy(n).to_string(), ver)),
                    None => R::Bad("version"),
                },
                RemoveFile(m, f) => {
                    models[*m].remove_file(&files[*f]);
                    R::Unit(Ok(()))
                }
                AddToFile(a, f) => R::Unit(h(a).add_to_file(&files[*f])),
                RemoveFromFile(a, f) => R::Unit(h(a).remove_from_file(&files[*f])),
                Sort(a) => {
                    h(a).sort();
                    R::Unit(Ok(()))
                }
                SortModel(m) => {
                    models[*m].sort();
                    R::Unit(Ok(()))
                }
                Duplicate(m) => R::Dup(models[*m].duplicate()),
                Load(m, b, f, st) => R::Load(models[*m].load_buffer(b, String::from_utf8_lossy(f).to_string(), *st)),
                SetVersion(f, v) => match vers(*v) { Some(ver) => R::Unit(files[*f].set_version(ver)), None => R::Bad("version") },
                CheckCompat(f, v) => match vers(*v) {
                    Some(ver) => {
                        let (e, m) = files[*f].check_version_compatibility(ver);
                        R::Compat(e, m)
                    }
                    None => R::Bad("version"),
                },
                SerializeFile(f) => R::Text(files[*f].serialize()),
                SerializeElem(a) => R::Text(Ok(h(a).serialize())),
                CmpKids(a) => R::Raw(format!("cmp {}", cmp_matrix(&h(a)))),
            }
        });
        match r {
            Err(_) => "R PANIC".to_string(),
            Ok(R::Bad(w)) => format!("R BADSCRIPT {}", w),
            Ok(R::Unit(Ok(()))) => {
                self.discover(None);
                "R OK".to_string()
            }
            Ok(R::Raw(t)) => {
                self.discover(None);
                format!("R OK {}", t)
            }
            Ok(R::Text(Ok(t))) => {
                self.discover(None);
                format!("R OK text {}", text_digest(&t))
            }
            Ok(R::Compat(errs, mask)) => {
                self.discover(None);
                let l: Vec<String> = errs
                    .iter()
                    .map(|e| match e {
                        CompatibilityError::IncompatibleAttribute { element, attribute, version_mask } => {
                            format!("A:{}:{}:{}", self.hnum(element), *attribute as u16, version_mask)
                        }
                        CompatibilityError::IncompatibleAttributeValue { element, attribute, version_mask, .. } => {
                            format!("V:{}:{}:{}", self.hnum(element), *attribute as u16, version_mask)
                        }
                        CompatibilityError::IncompatibleElement { element, version_mask } => format!("E:{}:{}", self.hnum(element), version_mask),
                    })
                    .collect();
                format!("R OK compat mask={} [{}]", mask, l.join(";"))
            }
            Ok(R::Load(Ok((f, ws)))) => {
                self.files.push(f);
                self.discover(None);
                let l: Vec<String> = ws.iter().map(show_load_error).collect();
                format!("R OK f{} warn=[{}]", self.files.len() - 1, l.join(";"))
            }
            Ok(R::Dup(Ok(m))) => {
                // the files of the copy are new file objects, in the order of the original's files
                for f in m.files() {
                    self.files.push(f);
                }
                self.models.push(m);
                self.discover(None);
                format!("R OK m{}", self.models.len() - 1)
            }
            Ok(R::Text(Err(e))) | Ok(R::Load(Err(e))) | Ok(R::Dup(Err(e))) => {
                self.discover(None);
                let n = err_name(&e);
                format!("R ERR {}", if n == "LexerError" || n == "ParserError" { "LoadError".to_string() } else { n })
            }
            Ok(R::Unit(Err(e))) | Ok(R::Elem(Err(e))) | Ok(R::File(Err(e))) => {
                self.discover(None);
                format!("R ERR {}", err_name(&e))
            }
            Ok(R::Elem(Ok(e))) => {
                self.discover(Some(&e));
                format!("R OK {}", self.hnum(&e))
            }
            Ok(R::Bool(b)) => {
                self.discover(None);
                format!("R OK b{}", b as u8)
            }
            Ok(R::File(Ok(f))) => {
                self.files.push(f);
                self.discover(None);
                format!("R OK f{}", self.files.len() - 1)
            }
            Ok(R::Model(m)) => {
                self.models.push(m);
                self.discover(None);
                format!("R OK m{}", self.models.len() - 1)
            }
        }
    }

    fn res<T>(&self, r: Result<T, AutosarDataError>, f: impl Fn(&T) -> String) -> String {
        match r {
            Ok(v) => format!("ok:{}", f(&v)),
            Err(e) => format!("err:{}", err_name(&e)),
        }
    }
    fn hsorted(&self, l: &[WeakElement]) -> String {
        let mut v: Vec<usize> = l.iter().map(|w| w.upgrade().and_then(|e| self.hidx.get(&e).copied()).unwrap_or(1000000)).collect();
        v.sort();
        v.iter().map(|k| if *k == 1000000 { "h?".to_string() } else { format!("h{}", k) }).collect::<Vec<_>>().join(",")
    }
    fn fileset(&self, s: &std::collections::HashSet<WeakArxmlFile>) -> String {
        let mut v: Vec<i64> = s.iter().map(|w| w.upgrade().and_then(|f| self.file_idx(&f)).map(|k| k as i64).unwrap_or(-1)).collect();
        v.sort();
        v.iter().map(|k| k.to_string()).collect::<Vec<_>>().join(",")
    }

    /// the canonical observation of the whole state
    pub fn observe(&self, out: &mut dyn FnMut(&str)) {
        for (mi, m) in self.models.iter().enumerate() {
            let root = m.root_element();
            let fl: Vec<String> = m.files().map(|f| self.file_idx(&f).map(|k| k.to_string()).unwrap_or("?".into())).collect();
            out(&format!("M {} root={} files=[{}]", mi, self.hnum(&root), fl.join(",")));
            self.dump(&root, 0, out);
            let mut idents: Vec<(String, String)> = m
                .identifiable_elements()
                .map(|(p, w)| (hex(p.as_bytes()), w.upgrade().map(|e| self.hnum(&e)).unwrap_or("h?".into())))
                .collect();
            idents.sort();
            for (p, hh) in idents {
                out(&format!("I {} {} {}", mi, p, hh));
            }
            for p in &self.probes {
                let r = m.get_element_by_path(p).map(|e| self.hnum(&e)).unwrap_or("-".into());
                let o = self.hsorted(&m.get_references_to(p));
                if r != "-" || !o.is_empty() {
                    out(&format!("P {} {} {} [{}]", mi, hex(p.as_bytes()), r, o));
                }
            }
            out(&format!("B {} [{}]", mi, self.hsorted(&m.check_references())));
        }
        for (k, e) in self.handles.iter().enumerate() {
            let par = self.res(e.parent(), |p| p.as_ref().map(|x| self.hnum(x)).unwrap_or("-".into()));
            let pos = e.position().map(|p| p.to_string()).unwrap_or("-".into());
            let path = self.res(e.path(), |p| hex(p.as_bytes()));
            let md = self.res(e.model(), |m| self.model_idx(m));
            let fm = self.res(e.file_membership(), |(l, s)| format!("{}:[{}]", *l as u8, self.fileset(s)));
            let nm = e.item_name().map(|s| hex(s.as_bytes())).unwrap_or("-".into());
            let ident = e.is_identifiable() as u8;
            let cd = e.character_data().map(|c| show_cdata(&c)).unwrap_or("-".into());
            let reft = self.res(e.get_reference_target(), |t| self.hnum(t));
            let mv = self.res(e.min_version(), |v| (*v as u32).to_string());
            out(&format!(
                "H {} par={} pos={} path={} model={} fm={} name={} ident={} cd={} reft={} minver={}",
                k, par, pos, path, md, fm, nm, ident, cd, reft, mv
            ));
        }
        for (k, f) in self.files.iter().enumerate() {
            let m = f.model().map(|m| self.model_idx(&m)).unwrap_or("?".into());
            out(&format!("F {} model={} ver={}", k, m, f.version() as u32));
        }
        // the depth-first iterators: model- and file-scoped, unlimited and max_depth 2
        let show = |v: Vec<(usize, Element)>| -> String { v.iter().map(|(d, e)| format!("{}:{}", d, self.hnum(e))).collect::<Vec<_>>().join(",") };
        for (mi, m) in self.models.iter().enumerate() {
            for md in [0usize, 2] {
                let v: Vec<(usize, Element)> = if md == 0 { m.elements_dfs().collect() } else { m.elements_dfs_with_max_depth(md).collect() };
                out(&format!("D {} md={} [{}]", mi, md, show(v)));
            }
        }
        for (k, f) in self.files.iter().enumerate() {
            if f.model().is_ok() {
                for md in [0usize, 2] {
                    let v: Vec<(usize, Element)> = if md == 0 { f.elements_dfs().collect() } else { f.elements_dfs_with_max_depth(md).collect() };
                    out(&format!("DF {} md={} [{}]", k, md, show(v)));
                }
            }
        }
        if self.serialize_obs {
            for (k, f) in self.files.iter().enumerate() {
                match f.serialize() {
                    Ok(t) => out(&format!("X {} ok:{}", k, text_digest(&t))),
                    Err(e) => out(&format!("X {} err:{}", k, err_name(&e))),
                }
            }
        }
    }

    fn dump(&self, e: &Element, depth: usize, out: &mut dyn FnMut(&str)) {
        let attrs: Vec<String> = e.attributes().map(|a| format!("{}={}", a.attrname as u16, show_cdata(&a.content))).collect();
        let content: Vec<String> = e
            .content()
            .map(|c| match c {
                ElementContent::Element(s) => format!("e{}", self.hnum(&s)),
                ElementContent::CharacterData(d) => show_cdata(&d),
            })
            .collect();
        let local = match e.file_membership() {
            Ok((true, s)) => self.fileset(&s),
            _ => String::new(),
        };
        out(&format!(
            "N {} {} n={} a=[{}] c=[{}] f=[{}] cm={}",
            depth,
            self.hnum(e),
            e.element_name() as u16,
            attrs.join(","),
            content.join(","),
            local,
            e.comment().map(|c| hex(c.as_bytes())).unwrap_or("-".into())
        ));
        if depth < 200 {
            for s in e.sub_elements() {
                self.dump(&s, depth + 1, out);
            }
        }
    }
}

pub struct Hasher {
    pub h: u64,
    pub n: u64,
}
impl Hasher {
    pub fn new() -> Self {
        Hasher { h: 0xcbf29ce484222325, n: 0 }
    }
    pub fn line(&mut self, s: &str) {
        for b in s.bytes().chain(std::iter::once(b'\n')) {
            self.h ^= b as u64;
            self.h = self.h.wrapping_mul(0x100000001b3);
        }
        self.n += 1;
    }
}

/// split a script file into (index, probes, ops)
pub fn read_scripts(path: &str) -> Vec<(usize, Vec<String>, Vec<Op>)> {
    let mut res: Vec<(usize, Vec<String>, Vec<Op>)> = vec![];
    for l in read_lines(path) {
        let w: Vec<&str> = l.split_whitespace().collect();
        if w.is_empty() {
            continue;
        }
        match w[0] {
            "SCRIPT" => res.push((w[1].parse().unwrap(), vec![], vec![])),
            "PATHS" => {
                let last = res.last_mut().unwrap();
                last.1 = w[1..].iter().map(|x| String::from_utf8_lossy(&unhex(x)).to_string()).collect();
            }
            "PATHS-EMPTY" => res.last_mut().unwrap().1 = vec![String::new()],
            "OBSERVE" => res.last_mut().unwrap().1.push("\u{1}OBSERVE-serialize".to_string()),
            "OP" | "OP2" => {
                let op = Op::parse(&l).unwrap();
                res.last_mut().unwrap().2.push(op);
            }
            _ => {}
        }
    }
    res
}

/// run one script in its own thread; a blocked operation is reported as HANG after the timeout
fn run_script_lines(dump: String, probes: Vec<String>, ops: Vec<Op>, timeout_ms: u64) -> Vec<String> {
    let (tx, rx) = mpsc::channel::<Option<String>>();
    std::thread::Builder::new()
        .stack_size(256 * 1024 * 1024)
        .spawn(move || {
            let names = Names::load(&dump);
            let mut ex = Exec::new(&names);
            ex.serialize_obs = probes.iter().any(|p| p == "\u{1}OBSERVE-serialize");
            ex.probes = probes.into_iter().filter(|p| !p.starts_with('\u{1}')).collect();
            for op in &ops {
                // announce the operation first, so that a hang can be attributed
                let _ = tx.send(Some("@".to_string()));
                let r = ex.apply(op);
                let stop = r == "R PANIC";
                let _ = tx.send(Some(r));
                if stop {
                    break;
                }
                let mut lines: Vec<String> = vec![];
                let ok = guard(|| {
                    let mut v: Vec<String> = vec![];
                    ex.observe(&mut |s: &str| v.push(s.to_string()));
                    v
                });
                match ok {
                    Ok(v) => lines = v,
                    Err(_) => lines.push("Q PANIC".to_string()),
                }
                let qp = lines.last().map(|s| s == "Q PANIC").unwrap_or(false);
                for l in lines {
                    let _ = tx.send(Some(l));
                }
                if qp {
                    break;
                }
            }
            let _ = tx.send(None);
        })
        .unwrap();
    let mut out = vec![];
    let mut pending_op = false;
    loop {
        match rx.recv_timeout(std::time::Duration::from_millis(timeout_ms)) {
            Ok(Some(l)) => {
                if l == "@" {
                    pending_op = true;
                } else {
                    pending_op = false;
                    out.push(l);
                }
            }
            Ok(None) => break,
            Err(_) => {
                out.push(if pending_op { "R HANG".to_string() } else { "Q HANG".to_string() });
                break;
            }
        }
    }
    out
}

pub fn run_main(args: &[String]) {
    let dump = args[0].clone();
    let script = &args[1];
    let verbose = args.len() > 2 && args[2] == "-v";
    for (idx, probes, ops) in read_scripts(script) {
        if verbose {
            println!("SCRIPT {}", idx);
        }
        let lines = run_script_lines(dump.clone(), probes, ops, 30000);
        let mut h = Hasher::new();
        for l in &lines {
            h.line(l);
            if verbose {
                println!("{}", l);
            }
        }
        println!("S {} lines={} {:016x}", idx, h.n, h.h);
    }
    // threads blocked in a hung operation never finish
    std::process::exit(0);
}

// ------------------------------------------------------------------------------------------------ generator
const ITEM_NAMES: &[&str] = &["a", "b", "c", "a1", "a2", "a10", "a1b", "a01", "p", "p1", "p10", "x_1", "Sig", "Sig_1", "a_1", "a_2"];
const BAD_ITEM_NAMES: &[&str] = &["", "1a", "a b", "a/b", "\u{fc}x", "a-b"];
pub(crate) const ELEMENT_KINDS: &[&str] = &[
    "SYSTEM", "I-SIGNAL", "SYSTEM-SIGNAL", "COMPU-METHOD", "SW-BASE-TYPE", "ECUC-MODULE-CONFIGURATION-VALUES",
    "APPLICATION-SW-COMPONENT-TYPE", "I-SIGNAL-I-PDU", "ECU-INSTANCE", "UNIT", "DATA-CONSTR", "SENDER-RECEIVER-INTERFACE",
    "IMPLEMENTATION-DATA-TYPE", "COMPOSITION-SW-COMPONENT-TYPE", "CAN-CLUSTER",
];
const STRINGS: &[&str] = &["", "x", "hello world", " lead", "trail ", "a&b", "<tag>", "q\"uote'", "1.0.0", "0x1F", "123", "true", "/a/b", "/a", "a/b", "/p1/a", "/p10", "AUTOSAR_00050", "\u{e4}\u{20ac}"];
pub(crate) const VERSIONS: &[u32] = &[0x100000, 0x40000, 0x1, 0x800, 0x80000];

type Sink = std::sync::Arc<std::sync::Mutex<(Vec<String>, BTreeSet<String>)>>;

pub(crate) struct Gen<'a> {
    pub(crate) enable: Vec<String>,
    sink: Sink,
    pub(crate) rng: SplitMix64,
    pub(crate) ex: Exec<'a>,
    pub(crate) ops: Vec<Op>,
    pub(crate) paths: BTreeSet<String>,
    stats: HashMap<String, (u64, u64)>,
    hang_budget: u32,
}

impl<'a> Gen<'a> {
    pub(crate) fn pickh(&mut self) -> Option<usize> {
        if self.ex.handles.is_empty() {
            None
        } else {
            Some(self.rng.below(self.ex.handles.len() as u64) as usize)
        }
    }
    pub(crate) fn pick_where(&mut self, f: impl Fn(&Element) -> bool) -> Option<usize> {
        let c: Vec<usize> = (0..self.ex.handles.len()).filter(|k| f(&self.ex.handles[*k])).collect();
        if c.is_empty() {
            None
        } else {
            Some(c[self.rng.below(c.len() as u64) as usize])
        }
    }
    pub(crate) fn item_name(&mut self) -> Vec<u8> {
        if self.rng.below(12) == 0 {
            self.rng.pick(BAD_ITEM_NAMES).as_bytes().to_vec()
        } else {
            self.rng.pick(ITEM_NAMES).as_bytes().to_vec()
        }
    }
    pub(crate) fn value_for(&mut self, spec: Option<&CharacterDataSpec>) -> Val {
        let mismatch = self.rng.below(8) == 0;
        match (spec, mismatch) {
            (Some(CharacterDataSpec::Enum { items }), false) => {
                if items.is_empty() || self.rng.below(6) == 0 {
                    Val::E(self.rng.below(self.ex.names.en.len() as u64) as u16)
                } else {
                    Val::E(items[self.rng.below(items.len() as u64) as usize].0 as u16)
                }
            }
            (Some(CharacterDataSpec::UnsignedInteger), false) => Val::U(*self.rng.pick(&[0u64, 1, 7, 255, 65536, u64::MAX, 1 << 63])),
            (Some(CharacterDataSpec::Float), false) => Val::F(*self.rng.pick(&[0u64, 0x3ff0000000000000, 0x8000000000000000, 0x7ff0000000000000, 0x7ff8000000000000, 0x400921fb54442d18, 1])),
            (Some(CharacterDataSpec::Enum { .. }), true) | (Some(CharacterDataSpec::UnsignedInteger), true) | (Some(CharacterDataSpec::Float), true) => {
                match self.rng.below(3) {
                    0 => Val::S(self.rng.pick(STRINGS).as_bytes().to_vec()),
                    1 => Val::U(5),
                    _ => Val::E(self.rng.below(self.ex.names.en.len() as u64) as u16),
                }
            }
            (_, true) => {
                // string-like spec, value of another kind (never a float: f64::to_string is not modelled)
                if self.rng.below(2) == 0 { Val::U(*self.rng.pick(&[0u64, 42, u64::MAX])) } else { Val::E(self.rng.below(self.ex.names.en.len() as u64) as u16) }
            }
            _ => {
                if self.rng.below(3) == 0 {
                    Val::S(self.rng.pick(ITEM_NAMES).as_bytes().to_vec())
                } else {
                    Val::S(self.rng.pick(STRINGS).as_bytes().to_vec())
                }
            }
        }
    }
    fn some_path(&mut self) -> Vec<u8> {
        // an existing path, a path that may exist later, or garbage
        let existing: Vec<String> = self.ex.models.iter().flat_map(|m| m.identifiable_elements().map(|(p, _)| p)).collect();
        match self.rng.below(5) {
            0 | 1 | 2 if !existing.is_empty() => existing[self.rng.below(existing.len() as u64) as usize].clone().into_bytes(),
            3 => {
                let a = *self.rng.pick(ITEM_NAMES);
                let b = *self.rng.pick(ITEM_NAMES);
                format!("/{}/{}", a, b).into_bytes()
            }
            _ => {
                if !existing.is_empty() && self.rng.below(2) == 0 {
                    let mut p = existing[self.rng.below(existing.len() as u64) as usize].clone();
                    p.push('0');
                    p.into_bytes()
                } else {
                    self.rng.pick(STRINGS).as_bytes().to_vec()
                }
            }
        }
    }

    pub(crate) fn push(&mut self, op: Op) -> String {
        let kind = op.line().split_whitespace().nth(1).unwrap().to_string();
        {
            // recorded BEFORE the call: if the library blocks forever the script still ends with this operation
            let mut s = self.sink.lock().unwrap();
            s.0.push(op.line());
            s.1 = self.paths.clone();
        }
        let r = self.ex.apply(&op);
        let e = self.stats.entry(kind).or_insert((0, 0));
        if r.starts_with("R OK") {
            e.0 += 1;
        } else {
            e.1 += 1;
        }
        self.ops.push(op);
        for m in &self.ex.models {
            for (p, _) in m.identifiable_elements() {
                self.paths.insert(p);
            }
        }
        r
    }

    fn step(&mut self) {
        let names = self.ex.names;
        if self.ex.models.is_empty() {
            self.push(Op::NewModel);
            return;
        }
        if self.ex.files.is_empty() && self.rng.below(10) != 0 {
            let v = if self.rng.below(3) == 0 { *self.rng.pick(VERSIONS) } else { VERSIONS[0] };
            self.push(Op::CreateFile(0, b"f0.arxml".to_vec(), v));
            return;
        }
        if !self.enable.is_empty() && self.rng.below(100) < 7 {
            let fam = self.enable[self.rng.below(self.enable.len() as u64) as usize].clone();
            match fam.as_str() {
                "sort" => {
                    if self.rng.below(3) == 0 {
                        let m = self.rng.below(self.ex.models.len() as u64) as usize;
                        self.push(Op::SortModel(m));
                    } else if let Some(hk) = self.pickh() {
                        self.push(Op::Sort(hk));
                    }
                }
                "dup" => {
                    if self.ex.models.len() < 3 {
                        let m = self.rng.below(self.ex.models.len() as u64) as usize;
                        self.push(Op::Duplicate(m));
                    }
                }
                "compat" => {
                    if !self.ex.files.is_empty() {
                        let f = self.rng.below(self.ex.files.len() as u64) as usize;
                        // any of the 21 versions (bit k), biased to the versions files are created with
                        let v = if self.rng.below(2) == 0 { *self.rng.pick(VERSIONS) } else { 1u32 << self.rng.below(21) };
                        if self.rng.below(3) == 0 { self.push(Op::SetVersion(f, v)); } else { self.push(Op::CheckCompat(f, v)); }
                    }
                }
                "load" => {
                    // the text of an existing file (possibly of another model) loaded under a fresh name
                    if !self.ex.files.is_empty() && self.ex.files.len() < 5 {
                        let f = self.rng.below(self.ex.files.len() as u64) as usize;
                        if let Ok(t) = self.ex.files[f].serialize() {
                            let m = self.rng.below(self.ex.models.len() as u64) as usize;
                            let nm = format!("l{}.arxml", self.rng.below(4));
                            let strict = self.rng.below(2) == 0;
                            let r = self.push(Op::Load(m, t.into_bytes(), nm.into_bytes(), strict));
                            // follow-up of a merge: an overlapping load leaves the dropped duplicates behind as dead entries of the
                            // referrer lists; a reference to the same target registered AFTERWARDS sits behind them, and a rename of
                            // the target (or of its package) has to reach it
                            if r.starts_with("R OK") && self.rng.below(2) == 0 {
                                let model = self.ex.models[m].clone();
                                let refs: Vec<usize> = (0..self.ex.handles.len())
                                    .filter(|k| self.ex.handles[*k].is_reference() && self.ex.handles[*k].model().ok().as_ref() == Some(&model))
                                    .collect();
                                let with_target: Vec<(usize, Element)> =
                                    refs.iter().filter_map(|k| self.ex.handles[*k].get_reference_target().ok().map(|t| (*k, t))).collect();
                                if !with_target.is_empty() && refs.len() >= 2 {
                                    let (r1, tgt) = with_target[self.rng.below(with_target.len() as u64) as usize].clone();
                                    let others: Vec<usize> = refs.iter().copied().filter(|k| *k != r1).collect();
                                    let r2 = others[self.rng.below(others.len() as u64) as usize];
                                    if let Some(tk) = self.ex.hidx.get(&tgt).copied() {
                                        self.push(Op::SetRefTarget(r2, tk));
                                        // rename the target itself or its named parent
                                        let victim = if self.rng.below(2) == 0 { Some(tk) } else {
                                            tgt.named_parent().ok().flatten().and_then(|p| self.ex.hidx.get(&p).copied())
                                        };
                                        if let Some(vk) = victim {
                                            let item = self.item_name();
                                            self.push(Op::SetItemName(vk, item));
                                        }
                                    }
                                }
                            }
                        }
                    }
                }
                "serialize" => {
                    if let Some(hk) = self.pickh() {
                        self.push(Op::SerializeElem(hk));
                    }
                }
                _ => {}
            }
            return;
        }
        let roll = self.rng.below(100);
        if roll < 38 {
            // create
            let focus = self.rng.below(10) < 4;
            let hk = if focus {
                self.pick_where(|e| matches!(e.element_name(), ElementName::ArPackages | ElementName::ArPackage | ElementName::Elements | ElementName::Autosar))
            } else {
                self.pickh()
            };
            let Some(hk) = hk else { return };
            let e = self.ex.handles[hk].clone();
            let valid = e.list_valid_sub_elements();
            if valid.is_empty() {
                let n = self.rng.below(names.el.len() as u64) as u16;
                self.push(Op::CreateSub(hk, n));
                return;
            }
            struct Ch { element_name: ElementName, is_named: bool }
            let allowed: Vec<&ValidSubElementInfo> = valid.iter().filter(|v| v.is_allowed).collect();
            let mut choice = if !allowed.is_empty() && self.rng.below(100) < 85 {
                let v = allowed[self.rng.below(allowed.len() as u64) as usize];
                Ch { element_name: v.element_name, is_named: v.is_named }
            } else {
                let v = &valid[self.rng.below(valid.len() as u64) as usize];
                Ch { element_name: v.element_name, is_named: v.is_named }
            };
            if e.element_name() == ElementName::Elements && self.rng.below(10) < 7 {
                let k = *self.rng.pick(ELEMENT_KINDS);
                if let Some(v) = valid.iter().find(|v| v.element_name.to_str() == k) {
                    choice = Ch { element_name: v.element_name, is_named: v.is_named };
                }
            }
            let n = choice.element_name as u16;
            let len = e.content_item_count();
            let at = self.rng.below(10) < 3;
            let pos = if self.rng.below(4) == 0 { self.rng.below(len as u64 + 3) as usize } else {
                match e.calc_element_insert_range(choice.element_name, e.min_version().unwrap_or(AutosarVersion::LATEST)) {
                    Ok((a, b)) => a + self.rng.below((b - a + 1) as u64) as usize,
                    Err(_) => self.rng.below(len as u64 + 1) as usize,
                }
            };
            let wrong_kind = self.rng.below(25) == 0;
            if choice.is_named != wrong_kind {
                let item = self.item_name();
                if at { self.push(Op::CreateNamedAt(hk, n, item, pos)); } else if self.rng.below(12) == 0 { self.push(Op::GetOrCreateNamed(hk, n, item)); } else { self.push(Op::CreateNamed(hk, n, item)); }
            } else if at {
                self.push(Op::CreateSubAt(hk, n, pos));
            } else if self.rng.below(12) == 0 {
                self.push(Op::GetOrCreate(hk, n));
            } else {
                self.push(Op::CreateSub(hk, n));
            }
        } else if roll < 55 {
            // character data / references
            let hk = self.pick_where(|e| matches!(e.content_type(), ContentType::CharacterData | ContentType::Mixed));
            let Some(hk) = hk else { return };
            let e = self.ex.handles[hk].clone();
            if e.is_reference() && self.rng.below(10) < 6 {
                let t = if self.rng.below(10) < 8 { self.pick_where(|x| x.is_identifiable()) } else { self.pickh() };
                if let Some(t) = t {
                    self.push(Op::SetRefTarget(hk, t));
                    return;
                }
            }
            if e.is_reference() {
                let p = self.some_path();
                self.paths.insert(String::from_utf8_lossy(&p).to_string());
                self.push(Op::SetCData(hk, Val::S(p)));
                return;
            }
            let r = self.rng.below(20);
            if r == 0 {
                self.push(Op::RemoveCData(hk));
            } else if r == 1 {
                let t = self.rng.pick(STRINGS).as_bytes().to_vec();
                let p = self.rng.below(e.content_item_count() as u64 + 2) as usize;
                self.push(Op::InsertCItem(hk, t, p));
            } else if r == 2 {
                let p = self.rng.below(e.content_item_count() as u64 + 1) as usize;
                self.push(Op::RemoveCItem(hk, p));
            } else {
                let et = e.element_type();
                let v = self.value_for(et.chardata_spec());
                self.push(Op::SetCData(hk, v));
            }
        } else if roll < 63 {
            let hk = if self.rng.below(10) < 9 { self.pick_where(|e| e.is_identifiable()) } else { self.pickh() };
            let Some(hk) = hk else { return };
            let item = self.item_name();
            self.push(Op::SetItemName(hk, item));
        } else if roll < 71 {
            // remove
            let hk = self.pick_where(|e| e.sub_elements().next().is_some());
            let Some(hk) = hk else { return };
            let e = self.ex.handles[hk].clone();
            let subs: Vec<Element> = e.sub_elements().collect();
            let r = self.rng.below(10);
            if r < 7 {
                let s = subs[self.rng.below(subs.len() as u64) as usize].clone();
                let sk = self.ex.hidx[&s];
                self.push(Op::Remove(hk, sk));
            } else if r < 9 {
                let s = subs[self.rng.below(subs.len() as u64) as usize].clone();
                self.push(Op::RemoveKind(hk, s.element_name() as u16));
            } else if let Some(o) = self.pickh() {
                if o != hk || self.hang_budget > 0 {
                    if o == hk { self.hang_budget -= 1; }
                    self.push(Op::Remove(hk, o));
                }
            }
        } else if roll < 80 {
            // move
            if self.ex.models.len() >= 2 && self.rng.below(10) < 4 {
                // cross-model move of a package / element into the matching container of another model
                let models = self.ex.models.clone();
                let src_m = self.rng.below(models.len() as u64) as usize;
                let dst_m = (src_m + 1 + self.rng.below(models.len() as u64 - 1) as usize) % models.len();
                let want = if self.rng.below(3) == 0 { ElementName::Elements } else { ElementName::ArPackages };
                let dk = self.pick_where(|e| e.element_name() == want && e.model().ok().as_ref() == Some(&models[dst_m]));
                let mk = self.pick_where(|e| {
                    e.model().ok().as_ref() == Some(&models[src_m])
                        && e.parent().ok().flatten().map(|p| p.element_name() == want).unwrap_or(false)
                });
                if let (Some(dk), Some(mk)) = (dk, mk) {
                    if self.rng.below(4) == 0 {
                        let p = self.rng.below(self.ex.handles[dk].content_item_count() as u64 + 1) as usize;
                        self.push(Op::MoveAt(dk, mk, p));
                    } else {
                        self.push(Op::Move(dk, mk));
                    }
                    return;
                }
            }
            let Some(dk) = self.pickh() else { return };
            let d = self.ex.handles[dk].clone();
            let validnames: Vec<ElementName> = d.list_valid_sub_elements().iter().map(|v| v.element_name).collect();
            let mk = if self.rng.below(10) < 8 { self.pick_where(|e| validnames.contains(&e.element_name())) } else { self.pickh() };
            let Some(mk) = mk else { return };
            if mk == dk {
                if self.hang_budget == 0 { return; }
                self.hang_budget -= 1;
            }
            if self.rng.below(10) < 4 {
                let p = self.rng.below(d.content_item_count() as u64 + 2) as usize;
                self.push(Op::MoveAt(dk, mk, p));
            } else {
                self.push(Op::Move(dk, mk));
            }
        } else if roll < 86 {
            // copy
            let Some(dk) = self.pickh() else { return };
            let d = self.ex.handles[dk].clone();
            let validnames: Vec<ElementName> = d.list_valid_sub_elements().iter().map(|v| v.element_name).collect();
            let ok = if self.rng.below(10) < 8 { self.pick_where(|e| validnames.contains(&e.element_name())) } else { self.pickh() };
            let Some(ok) = ok else { return };
            if self.rng.below(10) < 3 {
                let p = self.rng.below(d.content_item_count() as u64 + 2) as usize;
                self.push(Op::CopyAt(dk, ok, p));
            } else {
                self.push(Op::Copy(dk, ok));
            }
        } else if roll < 91 {
            // attributes
            let Some(hk) = self.pickh() else { return };
            let e = self.ex.handles[hk].clone();
            let specs: Vec<(AttributeName, &CharacterDataSpec, bool)> = e.element_type().attribute_spec_iter().collect();
            if specs.is_empty() || self.rng.below(8) == 0 {
                let a = self.rng.below(names.at.len() as u64) as u16;
                let v = self.value_for(None);
                self.push(Op::SetAttr(hk, a, v));
            } else {
                let (an, spec, _) = specs[self.rng.below(specs.len() as u64) as usize];
                if self.rng.below(4) == 0 {
                    self.push(Op::RemoveAttr(hk, an as u16));
                } else {
                    let v = self.value_for(Some(spec));
                    self.push(Op::SetAttr(hk, an as u16, v));
                }
            }
        } else if roll < 97 {
            // files
            let m = self.rng.below(self.ex.models.len() as u64) as usize;
            let r = self.rng.below(10);
            if r < 3 && self.ex.files.len() < 4 {
                let nm = format!("f{}.arxml", self.rng.below(5));
                let v = if self.rng.below(3) == 0 { *self.rng.pick(VERSIONS) } else { VERSIONS[0] };
                self.push(Op::CreateFile(m, nm.into_bytes(), v));
            } else if self.ex.files.is_empty() {
            } else if r < 6 {
                let f = self.rng.below(self.ex.files.len() as u64) as usize;
                let hk = if self.rng.below(10) < 7 { self.pick_where(|e| matches!(e.element_name(), ElementName::ArPackage | ElementName::ArPackages) || e.parent().ok().flatten().map(|p| p.element_name() == ElementName::Elements).unwrap_or(false)) } else { self.pickh() };
                if let Some(hk) = hk { self.push(Op::AddToFile(hk, f)); }
            } else if r < 9 {
                let f = self.rng.below(self.ex.files.len() as u64) as usize;
                let hk = if self.rng.below(10) < 7 { self.pick_where(|e| matches!(e.element_name(), ElementName::ArPackage | ElementName::ArPackages) || e.parent().ok().flatten().map(|p| p.element_name() == ElementName::Elements).unwrap_or(false)) } else { self.pickh() };
                if let Some(hk) = hk { self.push(Op::RemoveFromFile(hk, f)); }
            } else {
                let f = self.rng.below(self.ex.files.len() as u64) as usize;
                self.push(Op::RemoveFile(m, f));
            }
        } else if roll < 99 {
            let Some(hk) = self.pickh() else { return };
            let c = match self.rng.below(4) { 0 => None, 1 => Some(b"a--b---c".to_vec()), 2 => Some(b" note ".to_vec()), _ => Some(b"x".to_vec()) };
            self.push(Op::SetComment(hk, c));
        } else if self.ex.models.len() < 2 {
            self.push(Op::NewModel);
            let m = self.ex.models.len() - 1;
            let v = if self.rng.below(3) == 0 { *self.rng.pick(VERSIONS) } else { VERSIONS[0] };
            self.push(Op::CreateFile(m, b"g0.arxml".to_vec(), v));
        }
    }
}

/// a fixed prologue that builds packages, elements and references quickly (so that random steps act on a rich state)
fn prologue(g: &mut Gen, variant: u64) {
    let n = g.ex.names;
    g.push(Op::NewModel);
    g.push(Op::CreateFile(0, b"f0.arxml".to_vec(), VERSIONS[0]));
    if variant % 3 == 1 {
        g.push(Op::CreateFile(0, b"f1.arxml".to_vec(), VERSIONS[0]));
    }
    let root = 0usize;
    let r = g.push(Op::CreateSub(root, n.elidx("AR-PACKAGES")));
    let Some(pk) = r.strip_prefix("R OK h").and_then(|x| x.parse::<usize>().ok()) else { return };
    let mut pkgs = vec![];
    for nm in ["p1", "p10", "p1b"].iter().take(2 + (variant % 2) as usize) {
        let r = g.push(Op::CreateNamed(pk, n.elidx("AR-PACKAGE"), nm.as_bytes().to_vec()));
        if let Some(h) = r.strip_prefix("R OK h").and_then(|x| x.parse::<usize>().ok()) {
            pkgs.push(h);
        }
    }
    let mut elems = vec![];
    for p in &pkgs {
        let r = g.push(Op::CreateSub(*p, n.elidx("ELEMENTS")));
        if let Some(h) = r.strip_prefix("R OK h").and_then(|x| x.parse::<usize>().ok()) {
            elems.push(h);
        }
    }
    if elems.is_empty() {
        return;
    }
    let r = g.push(Op::CreateNamed(elems[0], n.elidx("SYSTEM-SIGNAL"), b"Sig".to_vec()));
    let sig = r.strip_prefix("R OK h").and_then(|x| x.parse::<usize>().ok());
    let r = g.push(Op::CreateNamed(elems[elems.len() - 1], n.elidx("I-SIGNAL"), b"a1".to_vec()));
    if let (Some(is), Some(sig)) = (r.strip_prefix("R OK h").and_then(|x| x.parse::<usize>().ok()), sig) {
        let r = g.push(Op::CreateSub(is, n.elidx("SYSTEM-SIGNAL-REF")));
        if let Some(rf) = r.strip_prefix("R OK h").and_then(|x| x.parse::<usize>().ok()) {
            g.push(Op::SetRefTarget(rf, sig));
        }
    }
    {
        // a reference INSIDE the first package to an element of the same package (follows the package when it moves)
        let r = g.push(Op::CreateNamed(elems[0], n.elidx("I-SIGNAL"), b"b".to_vec()));
        if let (Some(is), Some(sig)) = (r.strip_prefix("R OK h").and_then(|x| x.parse::<usize>().ok()), sig) {
            let r = g.push(Op::CreateSub(is, n.elidx("SYSTEM-SIGNAL-REF")));
            if let Some(rf) = r.strip_prefix("R OK h").and_then(|x| x.parse::<usize>().ok()) {
                g.push(Op::SetRefTarget(rf, sig));
                if variant % 3 == 2 {
                    // the reference pattern makes the leading '/' optional: "p1/Sig" is accepted as a text, but it is no
                    // Autosar path - the reference dangles, for the invalid-reference report AND for get_reference_target
                    g.paths.insert("p1/Sig".to_string());
                    g.push(Op::SetCData(rf, Val::S(b"p1/Sig".to_vec())));
                }
            }
        }
    }
    let mut pk_other: Option<usize> = None;
    if variant % 5 == 2 || variant % 5 == 4 {
        // a second model of the same version whose AR-PACKAGES already holds a package named like one of the first model
        g.push(Op::NewModel);
        let m = g.ex.models.len() - 1;
        g.push(Op::CreateFile(m, b"g0.arxml".to_vec(), VERSIONS[0]));
        let root2 = g.ex.hidx[&g.ex.models[m].root_element()];
        let r = g.push(Op::CreateSub(root2, n.elidx("AR-PACKAGES")));
        if let Some(pk2) = r.strip_prefix("R OK h").and_then(|x| x.parse::<usize>().ok()) {
            pk_other = Some(pk2);
            let r = g.push(Op::CreateNamed(pk2, n.elidx("AR-PACKAGE"), b"p1".to_vec()));
            if let Some(p) = r.strip_prefix("R OK h").and_then(|x| x.parse::<usize>().ok()) {
                g.push(Op::CreateSub(p, n.elidx("ELEMENTS")));
            }
        }
    }
    let oknum = |r: &str| r.strip_prefix("R OK h").and_then(|x| x.split_whitespace().next().and_then(|y| y.parse::<usize>().ok()));
    if variant % 7 == 3 || variant % 7 == 6 {
        // mixed content: text items in front of and between sub elements, then a removal behind a text item
        // (content index and sub-element index differ there)
        let r = g.push(Op::CreateSub(pkgs[0], n.elidx("DESC")));
        if let Some(desc) = oknum(&r) {
            let r = g.push(Op::CreateSub(desc, n.elidx("L-2")));
            if let Some(l2) = oknum(&r) {
                g.push(Op::InsertCItem(l2, b"first ".to_vec(), 0));
                let tt = oknum(&g.push(Op::CreateSub(l2, n.elidx("TT"))));
                let br = oknum(&g.push(Op::CreateSub(l2, n.elidx("BR"))));
                let cnt = g.ex.handles[l2].content_item_count();
                g.push(Op::InsertCItem(l2, b" last".to_vec(), cnt));
                if variant % 2 == 0 {
                    g.push(Op::InsertCItem(l2, b"mid".to_vec(), 2));
                }
                match (variant / 7) % 4 {
                    0 => { if let Some(b) = br { g.push(Op::Remove(l2, b)); } }
                    1 => { if let Some(t) = tt { g.push(Op::Remove(l2, t)); } }
                    2 => { g.push(Op::RemoveKind(l2, n.elidx("BR"))); }
                    _ => {
                        // an IDENTIFIABLE element behind text items of mixed content, then a deep copy of the package or its
                        // move into another model: the copy / the moved subtree is (un)registered by walking it depth first,
                        // and that walk has to step over the text items
                        if oknum(&g.push(Op::CreateNamed(l2, n.elidx("XREF-TARGET"), b"Anchor".to_vec()))).is_some() {
                            match (pk_other, (variant / 28) % 3) {
                                (Some(o), 0) => { g.push(Op::Move(o, pkgs[0])); }
                                (_, 1) => { g.push(Op::CopyAt(pk, pkgs[0], 0)); }
                                _ => { g.push(Op::Copy(pk, pkgs[0])); }
                            }
                        }
                    }
                }
            }
        }
    }
    if variant % 7 == 1 || variant % 7 == 5 {
        // a non-identifiable container whose identifiable children have names that are string prefixes of one another
        // (a1, a10, a1b in document order) moves to another package: every child has to be re-keyed on its own
        let src = elems[elems.len() - 1];
        g.push(Op::CreateNamed(src, n.elidx("I-SIGNAL"), b"a10".to_vec()));
        let r = g.push(Op::CreateNamed(src, n.elidx("SYSTEM-SIGNAL"), b"a1b".to_vec()));
        // a reference from outside the container to the child whose name has a sibling's name as a prefix: it has to follow
        if let Some(t) = oknum(&r) {
            let r = g.push(Op::CreateNamed(elems[0], n.elidx("I-SIGNAL"), b"c".to_vec()));
            if let Some(is) = oknum(&r) {
                if let Some(rf) = oknum(&g.push(Op::CreateSub(is, n.elidx("SYSTEM-SIGNAL-REF")))) {
                    g.push(Op::SetRefTarget(rf, t));
                }
            }
        }
        let r = g.push(Op::CreateNamed(pk, n.elidx("AR-PACKAGE"), b"q".to_vec()));
        if let Some(q) = oknum(&r) {
            if variant % 2 == 0 {
                g.push(Op::Move(q, src));
            } else {
                g.push(Op::MoveAt(q, src, 1));
            }
        }
    }
    if variant % 13 == 5 && elems.len() >= 2 {
        // a name clash ACROSS element kinds: paths are one name space per package, so a copied / moved I-SIGNAL `Sig` must be
        // renamed although the element that holds the name is a SYSTEM-SIGNAL
        let r = g.push(Op::CreateNamed(elems[elems.len() - 1], n.elidx("I-SIGNAL"), b"Sig".to_vec()));
        if let Some(x) = oknum(&r) {
            match (variant / 13) % 3 {
                0 => { g.push(Op::Copy(elems[0], x)); }
                1 => { g.push(Op::Move(elems[0], x)); }
                _ => { g.push(Op::CopyAt(elems[0], x, 0)); }
            }
        }
    }
    if variant % 17 == 4 {
        // a NON-identifiable container that may occur repeatedly (CAN-CLUSTER-CONDITIONAL) is copied next to a sibling whose
        // identifiable descendants partly have the same names: the copied subtree holds a FRESH identifiable (Ch0, with a
        // reference inside) in front of a COLLIDING one (Ch1) in depth-first order.  On the unchanged tree the copy succeeds and
        // duplicates the path (known class C04-copy-container-duplicates-paths); a copy that is rejected at the collision must
        // not leave the registrations made before it
        let mk = |g: &mut Gen, cl: &[u8], chans: &[&[u8]]| -> Option<(usize, usize)> {
            let c = oknum(&g.push(Op::CreateNamed(elems[0], n.elidx("CAN-CLUSTER"), cl.to_vec())))?;
            let vs = oknum(&g.push(Op::CreateSub(c, n.elidx("CAN-CLUSTER-VARIANTS"))))?;
            let cond = oknum(&g.push(Op::CreateSub(vs, n.elidx("CAN-CLUSTER-CONDITIONAL"))))?;
            let pcs = oknum(&g.push(Op::CreateSub(cond, n.elidx("PHYSICAL-CHANNELS"))))?;
            for (i, ch) in chans.iter().enumerate() {
                let h = oknum(&g.push(Op::CreateNamed(pcs, n.elidx("CAN-PHYSICAL-CHANNEL"), ch.to_vec())))?;
                if i == 0 && chans.len() > 1 {
                    if let Some(ccs) = oknum(&g.push(Op::CreateSub(h, n.elidx("COMM-CONNECTORS")))) {
                        if let Some(cc) = oknum(&g.push(Op::CreateSub(ccs, n.elidx("COMMUNICATION-CONNECTOR-REF-CONDITIONAL")))) {
                            if let Some(rf) = oknum(&g.push(Op::CreateSub(cc, n.elidx("COMMUNICATION-CONNECTOR-REF")))) {
                                g.push(Op::SetCData(rf, Val::S(b"/p1/Sig".to_vec())));
                            }
                        }
                    }
                }
            }
            Some((vs, cond))
        };
        let a = mk(g, b"CA", &[b"Ch1"]);
        let b = mk(g, b"CB", &[b"Ch0", b"Ch1"]);
        if let (Some((vs_a, _)), Some((_, cond_b))) = (a, b) {
            if variant % 2 == 0 {
                g.push(Op::Copy(vs_a, cond_b));
            } else {
                g.push(Op::CopyAt(vs_a, cond_b, 0));
            }
        }
    }
    if variant % 11 == 7 && elems.len() >= 2 {
        // names at the length limit of SHORT-NAME (127 / 128 characters) that collide when an element moves or is copied:
        // make_unique_item_name appends `_1` (C07 known finding unique-name-exceeds-max-length on the unchanged tree;
        // a name check at that point that fails AFTER the element was detached is a C03 / C11 violation)
        let len = if variant % 2 == 0 { 127 } else { 128 };
        let mut nm = vec![b'N'];
        nm.extend(std::iter::repeat(b'a').take(len - 1));
        let a = oknum(&g.push(Op::CreateNamed(elems[0], n.elidx("SYSTEM-SIGNAL"), nm.clone())));
        let b = oknum(&g.push(Op::CreateNamed(elems[1], n.elidx("SYSTEM-SIGNAL"), nm.clone())));
        if let (Some(_a), Some(b)) = (a, b) {
            match (variant / 11) % 3 {
                0 => { g.push(Op::Move(elems[0], b)); }
                1 => { g.push(Op::Copy(elems[0], b)); }
                _ => { g.push(Op::MoveAt(elems[0], b, 1)); }
            }
        }
    }
    let r = g.push(Op::CreateNamed(elems[0], n.elidx("SYSTEM"), b"a".to_vec()));
    if let Some(sys) = r.strip_prefix("R OK h").and_then(|x| x.parse::<usize>().ok()) {
        let r = g.push(Op::CreateSub(sys, n.elidx("FIBEX-ELEMENTS")));
        if let Some(fe) = r.strip_prefix("R OK h").and_then(|x| x.parse::<usize>().ok()) {
            let r = g.push(Op::CreateSub(fe, n.elidx("FIBEX-ELEMENT-REF-CONDITIONAL")));
            if let Some(c) = r.strip_prefix("R OK h").and_then(|x| x.parse::<usize>().ok()) {
                let r = g.push(Op::CreateSub(c, n.elidx("FIBEX-ELEMENT-REF")));
                if let Some(rf) = r.strip_prefix("R OK h").and_then(|x| x.parse::<usize>().ok()) {
                    // a dangling reference whose text equals a possible future path
                    g.paths.insert("/p1/a2".to_string());
                    g.push(Op::SetCData(rf, Val::S(b"/p1/a2".to_vec())));
                }
            }
        }
    }
}

pub fn gen_main(args: &[String]) {
    let dump = &args[0];
    let seed: u64 = args[1].parse().unwrap();
    let tier = &args[2];
    let out = &args[3];
    let nscripts = if args.len() > 4 { args[4].parse().unwrap() } else if tier == "thorough" { 3000 } else { 400 };
    let mut text = String::new();
    let mut total: HashMap<String, (u64, u64)> = HashMap::new();
    let mut nops = 0u64;
    let mut hung = 0u64;
    // operation families beyond Tree/Script.v, switched on as their Coq models arrive: serialize,sort,dup,load,compat
    let enable: Vec<String> = std::env::var("AVH_TREE_ENABLE").unwrap_or_default().split(',').filter(|x| !x.is_empty()).map(|x| x.to_string()).collect();
    for k in 0..nscripts {
        let sink: Sink = std::sync::Arc::new(std::sync::Mutex::new((vec![], BTreeSet::new())));
        let sink2 = sink.clone();
        let dump2 = dump.clone();
        let tier2 = tier.clone();
        let enable2 = enable.clone();
        let (tx, rx) = mpsc::channel::<HashMap<String, (u64, u64)>>();
        std::thread::Builder::new()
            .stack_size(256 * 1024 * 1024)
            .spawn(move || {
                let names = Names::load(&dump2);
                let mut g = Gen {
                    enable: enable2,
                    sink: sink2,
                    rng: SplitMix64(seed.wrapping_mul(0x9E3779B97F4A7C15).wrapping_add(k as u64 * 7919 + 1)),
                    ex: Exec::new(&names),
                    ops: vec![],
                    paths: BTreeSet::new(),
                    stats: HashMap::new(),
                    hang_budget: if k % 97 == 5 { 1 } else { 0 },
                };
                let len = 4 + g.rng.below(if tier2 == "thorough" { 60 } else { 36 }) as usize;
                if k % 4 != 0 {
                    prologue(&mut g, k as u64);
                }
                let mut extra = if k % 4 != 0 { 12 } else { 0 };
                if g.enable.iter().any(|e| e == "dup") && k % 2 == 1 {
                    // C13: copy / duplicate scenarios (harness/src/copy.rs)
                    let before = g.ops.len();
                    let _ = crate::util::guard(std::panic::AssertUnwindSafe(|| crate::copy::scenario(&mut g, k as u64)));
                    extra += g.ops.len() - before;
                }
                let mut tries = 0;
                while g.ops.len() < len + extra && tries < 400 {
                    tries += 1;
                    let r = crate::util::guard(std::panic::AssertUnwindSafe(|| g.step()));
                    if r.is_err() {
                        break;
                    }
                    if g.ops.last().map(|_| false).unwrap_or(false) {
                        break;
                    }
                }
                {
                    let mut s = g.sink.lock().unwrap();
                    s.1 = g.paths.clone();
                }
                let _ = tx.send(g.stats.clone());
            })
            .unwrap();
        let stats = match rx.recv_timeout(std::time::Duration::from_millis(60000)) {
            Ok(st) => st,
            Err(_) => {
                hung += 1;
                HashMap::new()
            }
        };
        let (ops_lines, paths) = {
            let s = sink.lock().unwrap();
            (s.0.clone(), s.1.clone())
        };
        text.push_str(&format!("SCRIPT {}\n", k));
        // probe paths: everything seen + one-edit neighbours
        let mut probes: BTreeSet<String> = paths.clone();
        for p in paths.iter() {
            probes.insert(format!("{}0", p));
            probes.insert(format!("{}/a", p));
            if p.len() > 1 && p.is_char_boundary(p.len() - 1) {
                probes.insert(p[..p.len() - 1].to_string());
            }
        }
        let pl: Vec<String> = probes.iter().filter(|p| !p.is_empty() && p.len() < 80).map(|p| hex(p.as_bytes())).collect();
        text.push_str(&format!("PATHS {}\n", pl.join(" ")));
        if enable.iter().any(|e| e == "serialize") {
            text.push_str("OBSERVE serialize\n");
        }
        for l in &ops_lines {
            text.push_str(l);
            text.push('\n');
        }
        nops += ops_lines.len() as u64;
        for (k2, v) in stats {
            let e = total.entry(k2).or_insert((0, 0));
            e.0 += v.0;
            e.1 += v.1;
        }
    }
    println!("STAT hung_generations={}", hung);
    std::fs::write(out, text).unwrap();
    let mut keys: Vec<&String> = total.keys().collect();
    keys.sort();
    for k in keys {
        println!("STAT op={} ok={} err={}", k, total[k].0, total[k].1);
    }
    println!("STAT scripts={} ops={}", nscripts, nops);
    std::process::exit(0);
}

pub fn main(args: &[String]) {
    match args[0].as_str() {
        "gen" => gen_main(&args[1..]),
        "run" => run_main(&args[1..]),
        "oracle" => crate::tree_oracle::oracle_main(&args[1..]),
        _ => {
            eprintln!("usage: avh tree gen|run|oracle ...");
            std::process::exit(2)
        }
    }
}
