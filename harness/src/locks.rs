//! locks — lock traces (hook H2) of every public operation family on several model shapes (C12 lock half, C15, C16)
//! and scheduler exploration of concurrent operation pairs / triples.
//! Needs the hook build (`--cfg autosar_data_verif`, see checks/lib.py:harness_build(hooks=True)).

#[cfg(not(autosar_data_verif))]
pub fn main(_args: &[String]) {
    eprintln!("locks: this subcommand needs the hook build (RUSTFLAGS=\"--cfg autosar_data_verif\")");
    std::process::exit(2);
}

#[cfg(autosar_data_verif)]
pub fn main(args: &[String]) {
    imp::main(args)
}

#[cfg(autosar_data_verif)]
#[path = "sched.rs"]
pub mod sched;

#[cfg(autosar_data_verif)]
pub mod imp {
    use crate::util::{guard, SplitMix64};
    use autosar_data::verif_shim as shim;
    use autosar_data::*;
    use std::collections::BTreeMap;
    use std::sync::Arc;

    pub const SHAPES: [&str; 4] = ["S1", "S2", "S3", "S4"];

    /// everything an operation instance can touch; every handle ever obtained is kept
    pub struct World {
        pub shape: &'static str,
        pub model: AutosarModel,
        pub model2: AutosarModel,
        pub files: Vec<ArxmlFile>,
        pub files2: Vec<ArxmlFile>,
        pub h: BTreeMap<&'static str, Element>,
        pub base_lock: u64,
    }

    impl World {
        pub fn e(&self, name: &str) -> Element {
            self.h.get(name).unwrap_or_else(|| panic!("no handle {}", name)).clone()
        }
        pub fn has(&self, name: &str) -> bool {
            self.h.contains_key(name)
        }
    }

    const V: AutosarVersion = AutosarVersion::Autosar_00050;

    fn sys_with_ref(parent: &Element, name: &str, target: &Element) -> (Element, Element, Element, Element) {
        let sys = parent.create_named_sub_element(ElementName::System, name).unwrap();
        let fibex = sys.create_sub_element(ElementName::FibexElements).unwrap();
        let ferc = fibex.create_sub_element(ElementName::FibexElementRefConditional).unwrap();
        let r = ferc.create_sub_element(ElementName::FibexElementRef).unwrap();
        r.set_reference_target(target).unwrap();
        (sys, fibex, ferc, r)
    }

    /// S1: one file, flat.  S2: two files (P2 lives only in the second file).  S3: one file + packages nested 3 deep
    /// with references in both directions.  S4: as S2, but the second file has an older version (only used for the
    /// instances that name it).  Always: a second model with its own file.
    pub fn build(shape: &'static str) -> World {
        let base_lock = shim::next_lock_id();
        let model = AutosarModel::new();
        let mut files = vec![model.create_file("f1.arxml", V).unwrap()];
        let mut h: BTreeMap<&'static str, Element> = BTreeMap::new();
        let root = model.root_element();
        let pkgs = root.create_sub_element(ElementName::ArPackages).unwrap();
        let p1 = pkgs.create_named_sub_element(ElementName::ArPackage, "P1").unwrap();
        let p1el = p1.create_sub_element(ElementName::Elements).unwrap();
        let ecu1 = p1el.create_named_sub_element(ElementName::EcuInstance, "Ecu1").unwrap();
        let ecu2 = p1el.create_named_sub_element(ElementName::EcuInstance, "Ecu2").unwrap();
        let (sys, fibex, ferc, ref1) = sys_with_ref(&p1el, "Sys", &ecu1);
        let stale = p1el.create_named_sub_element(ElementName::EcuInstance, "Ecu3").unwrap();
        let stale_sn = stale.get_sub_element(ElementName::ShortName).unwrap();
        p1el.remove_sub_element(stale.clone()).unwrap();
        let p2 = pkgs.create_named_sub_element(ElementName::ArPackage, "P2").unwrap();
        let p2el = p2.create_sub_element(ElementName::Elements).unwrap();
        let ecu4 = p2el.create_named_sub_element(ElementName::EcuInstance, "Ecu4").unwrap();
        // the destination of the move / copy instances "clash" already has an element called Ecu2
        let ecu2b = p2el.create_named_sub_element(ElementName::EcuInstance, "Ecu2").unwrap();
        h.insert("ecu2b", ecu2b);
        let longname = p2.create_sub_element(ElementName::LongName).unwrap();
        let l4 = longname.create_sub_element(ElementName::L4).unwrap();
        l4.insert_character_content_item("text", 0).unwrap();
        let cat = p2.create_sub_element(ElementName::Category).unwrap();
        cat.set_character_data("CAT").unwrap();
        p2.set_attribute_string(AttributeName::Uuid, "1234").unwrap();
        h.insert("sn_ecu1", ecu1.get_sub_element(ElementName::ShortName).unwrap());
        if shape == "S3" {
            let p1pk = p1.create_sub_element(ElementName::ArPackages).unwrap();
            let sub1 = p1pk.create_named_sub_element(ElementName::ArPackage, "Sub1").unwrap();
            let sub1pk = sub1.create_sub_element(ElementName::ArPackages).unwrap();
            let sub2 = sub1pk.create_named_sub_element(ElementName::ArPackage, "Sub2").unwrap();
            let sub2el = sub2.create_sub_element(ElementName::Elements).unwrap();
            let ecudeep = sub2el.create_named_sub_element(ElementName::EcuInstance, "EcuDeep").unwrap();
            let (sysdeep, _, _, ref2) = sys_with_ref(&sub2el, "SysDeep", &ecu1);
            // a second reference in Sys pointing down into the nested packages
            let ferc2 = fibex.create_sub_element(ElementName::FibexElementRefConditional).unwrap();
            let ref3 = ferc2.create_sub_element(ElementName::FibexElementRef).unwrap();
            ref3.set_reference_target(&ecudeep).unwrap();
            // DIAG-EVENT-DEBOUNCE-ALGORITHM is named only in 4.0.1: in this file it is an unnamed wrapper whose first sub element
            // is the identifiable DIAG-EVENT-DEBOUNCE-COUNTER-BASED (item_name() of the wrapper looks at that first sub element)
            let needs = sub2el
                .create_named_sub_element(ElementName::ServiceSwComponentType, "Swc")
                .and_then(|e| e.create_sub_element(ElementName::InternalBehaviors))
                .and_then(|e| e.create_named_sub_element(ElementName::SwcInternalBehavior, "Behavior"))
                .and_then(|e| e.create_sub_element(ElementName::ServiceDependencys))
                .and_then(|e| e.create_named_sub_element(ElementName::SwcServiceDependency, "Dependency"))
                .and_then(|e| e.create_sub_element(ElementName::ServiceNeeds))
                .and_then(|e| e.create_named_sub_element(ElementName::DiagnosticEventNeeds, "Needs"))
                .unwrap();
            let wrapper = needs.create_sub_element(ElementName::DiagEventDebounceAlgorithm).unwrap();
            let wchild = wrapper.create_named_sub_element(ElementName::DiagEventDebounceCounterBased, "Debounce").unwrap();
            let wgrand = wchild.create_sub_element(ElementName::CounterDecrementStepSize).unwrap();
            h.insert("needs", needs);
            h.insert("wrapper", wrapper);
            h.insert("wchild", wchild);
            h.insert("wgrand", wgrand);
            for (k, v) in [
                ("p1pk", p1pk),
                ("sub1", sub1),
                ("sub1pk", sub1pk),
                ("sub2", sub2),
                ("sub2el", sub2el),
                ("ecudeep", ecudeep),
                ("sysdeep", sysdeep),
                ("ref2", ref2),
                ("ref3", ref3),
            ] {
                h.insert(k, v);
            }
        }
        if shape == "S2" || shape == "S4" {
            let f2 = model.create_file("f2.arxml", if shape == "S4" { AutosarVersion::Autosar_4_3_0 } else { V }).unwrap();
            p2.add_to_file(&f2).unwrap();
            p2.remove_from_file(&files[0]).unwrap();
            files.push(f2);
        }
        for (k, v) in [
            ("root", root),
            ("pkgs", pkgs),
            ("p1", p1),
            ("p1el", p1el),
            ("ecu1", ecu1),
            ("ecu2", ecu2),
            ("sys", sys),
            ("fibex", fibex),
            ("ferc", ferc),
            ("ref1", ref1),
            ("stale", stale),
            ("stale_sn", stale_sn),
            ("p2", p2),
            ("p2el", p2el),
            ("ecu4", ecu4),
            ("longname", longname),
            ("l4", l4),
            ("cat", cat),
        ] {
            h.insert(k, v);
        }
        // second model
        let model2 = AutosarModel::new();
        let files2 = vec![model2.create_file("g1.arxml", V).unwrap()];
        let root2 = model2.root_element();
        let qpkgs = root2.create_sub_element(ElementName::ArPackages).unwrap();
        let q1 = qpkgs.create_named_sub_element(ElementName::ArPackage, "Q1").unwrap();
        let q1el = q1.create_sub_element(ElementName::Elements).unwrap();
        let ecuq = q1el.create_named_sub_element(ElementName::EcuInstance, "EcuQ").unwrap();
        let (sysq, _, _, refq) = sys_with_ref(&q1el, "SysQ", &ecuq);
        for (k, v) in [("root2", root2), ("qpkgs", qpkgs), ("q1", q1), ("q1el", q1el), ("ecuq", ecuq), ("sysq", sysq), ("refq", refq)] {
            h.insert(k, v);
        }
        World { shape, model, model2, files, files2, h, base_lock }
    }

    pub const EXTRA_FILE: &str = r#"<?xml version="1.0" encoding="utf-8"?>
<AUTOSAR xsi:schemaLocation="http://autosar.org/schema/r4.0 AUTOSAR_00050.xsd" xmlns="http://autosar.org/schema/r4.0" xmlns:xsi="http://www.w3.org/2001/XMLSchema-instance">
<AR-PACKAGES>
<AR-PACKAGE><SHORT-NAME>P1</SHORT-NAME><ELEMENTS><ECU-INSTANCE><SHORT-NAME>EcuL</SHORT-NAME></ECU-INSTANCE></ELEMENTS></AR-PACKAGE>
<AR-PACKAGE><SHORT-NAME>L1</SHORT-NAME><ELEMENTS><SYSTEM><SHORT-NAME>SysL</SHORT-NAME><FIBEX-ELEMENTS><FIBEX-ELEMENT-REF-CONDITIONAL><FIBEX-ELEMENT-REF DEST="ECU-INSTANCE">/P1/Ecu1</FIBEX-ELEMENT-REF></FIBEX-ELEMENT-REF-CONDITIONAL></FIBEX-ELEMENTS></SYSTEM></ELEMENTS></AR-PACKAGE>
</AR-PACKAGES></AUTOSAR>"#;

    pub const EXTRA_FILE2: &str = r#"<?xml version="1.0" encoding="utf-8"?>
<AUTOSAR xsi:schemaLocation="http://autosar.org/schema/r4.0 AUTOSAR_00050.xsd" xmlns="http://autosar.org/schema/r4.0" xmlns:xsi="http://www.w3.org/2001/XMLSchema-instance">
<AR-PACKAGES>
<AR-PACKAGE><SHORT-NAME>L2</SHORT-NAME><ELEMENTS><ECU-INSTANCE><SHORT-NAME>EcuM</SHORT-NAME></ECU-INSTANCE></ELEMENTS></AR-PACKAGE>
</AR-PACKAGES></AUTOSAR>"#;

    pub fn variant(e: &AutosarDataError) -> String {
        let s = format!("{:?}", e);
        s.split(|c: char| !(c.is_alphanumeric() || c == '_')).next().unwrap_or("").to_string()
    }
    fn r<T>(x: Result<T, AutosarDataError>) -> String {
        match x {
            Ok(_) => "ok".to_string(),
            Err(e) => format!("err:{}", variant(&e)),
        }
    }
    fn rs(x: Result<String, AutosarDataError>) -> String {
        match x {
            Ok(s) => format!("ok:{}", s.replace(' ', "_")),
            Err(e) => format!("err:{}", variant(&e)),
        }
    }
    pub fn fnv(s: &str) -> u64 {
        let mut h: u64 = 0xcbf29ce484222325;
        for b in s.bytes() {
            h ^= b as u64;
            h = h.wrapping_mul(0x100000001b3);
        }
        h
    }

    pub type OpFn = Arc<dyn Fn(&World) -> String + Send + Sync>;
    #[derive(Clone)]
    pub struct Op {
        pub class: &'static str,
        pub inst: &'static str,
        /// shapes on which the instance exists ("" = all)
        pub only: &'static str,
        pub f: OpFn,
    }

    macro_rules! op {
        ($v:ident, $class:expr, $inst:expr, $only:expr, |$w:ident| $body:expr) => {
            $v.push(Op { class: $class, inst: $inst, only: $only, f: Arc::new(move |$w: &World| -> String { $body }) });
        };
    }

    /// the operation instances: every public method family of Element / AutosarModel / ArxmlFile on several argument
    /// shapes, including stale handles, the element itself as argument, parent / child as argument, foreign elements
    pub fn ops() -> Vec<Op> {
        use ElementName as EN;
        let mut v: Vec<Op> = Vec::new();
        // ---------------------------------------------------------------- creation
        op!(v, "create_sub_element", "ok", "", |w| r(w.e("p1").create_sub_element(EN::Category)));
        op!(v, "create_sub_element", "conflict", "", |w| r(w.e("p2").create_sub_element(EN::Elements)));
        op!(v, "create_sub_element", "invalid", "", |w| r(w.e("ecu1").create_sub_element(EN::ArPackages)));
        op!(v, "create_sub_element", "stale", "", |w| r(w.e("stale").create_sub_element(EN::Category)));
        op!(v, "create_sub_element", "deep", "S3", |w| r(w.e("sub2").create_sub_element(EN::Category)));
        op!(v, "create_sub_element_at", "ok", "", |w| r(w.e("p1").create_sub_element_at(EN::Category, 1)));
        op!(v, "create_sub_element_at", "badpos", "", |w| r(w.e("p1").create_sub_element_at(EN::Category, 7)));
        op!(v, "create_sub_element_at", "stale", "", |w| r(w.e("stale").create_sub_element_at(EN::Category, 1)));
        op!(v, "create_named_sub_element", "ok", "", |w| r(w.e("p1el").create_named_sub_element(EN::System, "New")));
        op!(v, "create_named_sub_element", "dup", "", |w| r(w.e("p1el").create_named_sub_element(EN::EcuInstance, "Ecu1")));
        op!(v, "create_named_sub_element", "pkg", "", |w| r(w.e("pkgs").create_named_sub_element(EN::ArPackage, "P3")));
        op!(v, "create_named_sub_element", "stale", "", |w| r(w.e("stale").create_named_sub_element(EN::System, "X")));
        op!(v, "create_named_sub_element", "deep", "S3", |w| r(w.e("sub2el").create_named_sub_element(EN::System, "New")));
        op!(v, "create_named_sub_element_at", "ok", "", |w| r(w.e("p1el").create_named_sub_element_at(EN::System, "New", 0)));
        op!(v, "create_named_sub_element_at", "badpos", "", |w| r(w.e("p1el").create_named_sub_element_at(EN::System, "New", 99)));
        // the result names the returned element by its position among the children of that kind (two calls must get the SAME element)
        fn which(parent: &Element, x: Result<Element, AutosarDataError>) -> String {
            match x {
                Ok(e) => {
                    let same: Vec<Element> = parent.sub_elements().filter(|s| s.element_name() == e.element_name()).collect();
                    format!("ok:{:?}#{}of{}", e.element_name(), same.iter().position(|s| *s == e).map_or(-1, |p| p as i64), same.len())
                }
                Err(e) => format!("err:{}", variant(&e)),
            }
        }
        op!(v, "get_or_create_sub_element", "get", "", |w| r(w.e("p2").get_or_create_sub_element(EN::Elements)));
        op!(v, "get_or_create_sub_element", "create", "", |w| r(w.e("p1").get_or_create_sub_element(EN::Category)));
        op!(v, "get_or_create_sub_element", "create_which", "", |w| which(&w.e("p1"), w.e("p1").get_or_create_sub_element(EN::Category)));
        op!(v, "get_or_create_sub_element", "stale", "", |w| r(w.e("stale").get_or_create_sub_element(EN::Category)));
        op!(v, "get_or_create_named_sub_element", "get", "", |w| r(w.e("p1el").get_or_create_named_sub_element(EN::EcuInstance, "Ecu1")));
        op!(v, "get_or_create_named_sub_element", "create", "", |w| r(w.e("p1el").get_or_create_named_sub_element(EN::EcuInstance, "EcuN")));
        op!(v, "get_or_create_named_sub_element", "create_which", "", |w| which(&w.e("p1el"), w.e("p1el").get_or_create_named_sub_element(EN::EcuInstance, "EcuN")));
        op!(v, "get_or_create_named_sub_element", "create_pkg", "", |w| which(&w.e("pkgs"), w.e("pkgs").get_or_create_named_sub_element(EN::ArPackage, "PN")));
        // ---------------------------------------------------------------- copy
        op!(v, "create_copied_sub_element", "local", "", |w| r(w.e("p2el").create_copied_sub_element(&w.e("ecu1"))));
        op!(v, "create_copied_sub_element", "local_withref", "", |w| r(w.e("p2el").create_copied_sub_element(&w.e("sys"))));
        op!(v, "create_copied_sub_element", "sibling_samename", "", |w| r(w.e("p1el").create_copied_sub_element(&w.e("ecu1"))));
        op!(v, "create_copied_sub_element", "clash", "", |w| r(w.e("p2el").create_copied_sub_element(&w.e("ecu2"))));
        op!(v, "create_copied_sub_element_at", "clash", "", |w| r(w.e("p2el").create_copied_sub_element_at(&w.e("ecu2"), 0)));
        op!(v, "create_copied_sub_element", "foreign", "", |w| r(w.e("p2el").create_copied_sub_element(&w.e("ecuq"))));
        op!(v, "create_copied_sub_element", "foreign_pkg", "", |w| r(w.e("pkgs").create_copied_sub_element(&w.e("q1"))));
        op!(v, "create_copied_sub_element", "self", "", |w| r(w.e("p1el").create_copied_sub_element(&w.e("p1el"))));
        op!(v, "create_copied_sub_element", "own_child", "", |w| r(w.e("pkgs").create_copied_sub_element(&w.e("p1"))));
        op!(v, "create_copied_sub_element", "parent", "", |w| r(w.e("p1el").create_copied_sub_element(&w.e("p1"))));
        op!(v, "create_copied_sub_element", "ancestor", "S3", |w| r(w.e("sub1pk").create_copied_sub_element(&w.e("p1"))));
        op!(v, "create_copied_sub_element", "stale_arg", "", |w| r(w.e("p2el").create_copied_sub_element(&w.e("stale"))));
        op!(v, "create_copied_sub_element", "stale_self", "", |w| r(w.e("stale").create_copied_sub_element(&w.e("ecu1"))));
        op!(v, "create_copied_sub_element", "deep", "S3", |w| r(w.e("pkgs").create_copied_sub_element(&w.e("sub1"))));
        op!(v, "create_copied_sub_element_at", "local", "", |w| r(w.e("p2el").create_copied_sub_element_at(&w.e("ecu1"), 0)));
        op!(v, "create_copied_sub_element_at", "self", "", |w| r(w.e("p1el").create_copied_sub_element_at(&w.e("p1el"), 0)));
        op!(v, "create_copied_sub_element_at", "parent", "", |w| r(w.e("p1el").create_copied_sub_element_at(&w.e("p1"), 0)));
        op!(v, "create_copied_sub_element_at", "foreign", "", |w| r(w.e("p2el").create_copied_sub_element_at(&w.e("ecuq"), 1)));
        op!(v, "create_copied_sub_element_at", "badpos", "", |w| r(w.e("p2el").create_copied_sub_element_at(&w.e("ecu1"), 9)));
        // ---------------------------------------------------------------- move
        op!(v, "move_element_here", "local", "", |w| r(w.e("p2el").move_element_here(&w.e("ecu1"))));
        op!(v, "move_element_here", "local_withref", "", |w| r(w.e("p2el").move_element_here(&w.e("sys"))));
        op!(v, "move_element_here", "local_pkg", "S3", |w| r(w.e("pkgs").move_element_here(&w.e("sub1"))));
        op!(v, "move_element_here", "grandchild_up", "S3", |w| r(w.e("p1pk").move_element_here(&w.e("sub2"))));
        op!(v, "move_element_here", "unnamed_grandchild_up", "", |w| r(w.e("p1").move_element_here(&w.e("l4"))));
        op!(v, "move_element_here", "same_parent", "", |w| r(w.e("p1el").move_element_here(&w.e("ecu1"))));
        op!(v, "move_element_here", "foreign", "", |w| r(w.e("p2el").move_element_here(&w.e("ecuq"))));
        op!(v, "move_element_here", "foreign_pkg", "", |w| r(w.e("pkgs").move_element_here(&w.e("q1"))));
        op!(v, "move_element_here", "self", "", |w| r(w.e("p1el").move_element_here(&w.e("p1el"))));
        op!(v, "move_element_here", "self_pkgs", "", |w| r(w.e("pkgs").move_element_here(&w.e("pkgs"))));
        op!(v, "move_element_here", "parent", "", |w| r(w.e("p1el").move_element_here(&w.e("p1"))));
        op!(v, "move_element_here", "ancestor", "S3", |w| r(w.e("sub1pk").move_element_here(&w.e("p1"))));
        op!(v, "move_element_here", "stale_arg", "", |w| r(w.e("p2el").move_element_here(&w.e("stale"))));
        op!(v, "move_element_here", "stale_self", "", |w| r(w.e("stale").move_element_here(&w.e("ecu1"))));
        op!(v, "move_element_here", "wrongtype", "", |w| r(w.e("p2el").move_element_here(&w.e("p1"))));
        op!(v, "move_element_here", "deep_to_flat", "S3", |w| r(w.e("p2el").move_element_here(&w.e("ecudeep"))));
        // destination below the moved element's current parent (via a sibling): the mover holds the destination and then needs the source parent
        op!(v, "move_element_here", "into_sibling_subtree", "S3", |w| r(w.e("sub1").move_element_here(&w.e("p1el"))));
        op!(v, "move_element_here_at", "into_sibling_subtree", "S3", |w| r(w.e("sub1").move_element_here_at(&w.e("p1el"), 1)));
        op!(v, "move_element_here", "clash", "", |w| r(w.e("p2el").move_element_here(&w.e("ecu2"))));
        op!(v, "move_element_here", "clash_referenced", "", |w| {
            let _ = w.e("ref1").set_reference_target(&w.e("ecu2"));
            r(w.e("p2el").move_element_here(&w.e("ecu2")))
        });
        op!(v, "move_element_here_at", "clash", "", |w| r(w.e("p2el").move_element_here_at(&w.e("ecu2"), 0)));
        op!(v, "move_element_here", "foreign_clash", "", |w| {
            let _ = w.e("ecuq").set_item_name("Ecu2");
            r(w.e("p2el").move_element_here(&w.e("ecuq")))
        });
        op!(v, "move_element_here_at", "local", "", |w| r(w.e("p2el").move_element_here_at(&w.e("ecu1"), 0)));
        op!(v, "move_element_here_at", "same_parent", "", |w| r(w.e("p1el").move_element_here_at(&w.e("ecu2"), 0)));
        op!(v, "move_element_here_at", "same_parent_front", "", |w| r(w.e("p1el").move_element_here_at(&w.e("sys"), 0)));
        op!(v, "move_element_here_at", "foreign", "", |w| r(w.e("p2el").move_element_here_at(&w.e("ecuq"), 0)));
        op!(v, "move_element_here_at", "self", "", |w| r(w.e("p1el").move_element_here_at(&w.e("p1el"), 0)));
        op!(v, "move_element_here_at", "parent", "", |w| r(w.e("p1el").move_element_here_at(&w.e("p1"), 0)));
        op!(v, "move_element_here_at", "grandchild_up", "S3", |w| r(w.e("p1pk").move_element_here_at(&w.e("sub2"), 0)));
        op!(v, "move_element_here_at", "badpos", "", |w| r(w.e("p2el").move_element_here_at(&w.e("ecu1"), 9)));
        op!(v, "move_element_here_at", "stale_arg", "", |w| r(w.e("p2el").move_element_here_at(&w.e("stale"), 0)));
        // ---------------------------------------------------------------- remove
        op!(v, "remove_sub_element", "referenced", "", |w| r(w.e("p1el").remove_sub_element(w.e("ecu1"))));
        op!(v, "remove_sub_element", "withref", "", |w| r(w.e("p1el").remove_sub_element(w.e("sys"))));
        op!(v, "remove_sub_element", "subtree", "", |w| r(w.e("pkgs").remove_sub_element(w.e("p1"))));
        op!(v, "remove_sub_element", "notchild", "", |w| r(w.e("p2el").remove_sub_element(w.e("ecu1"))));
        op!(v, "remove_sub_element", "self", "", |w| r(w.e("p1el").remove_sub_element(w.e("p1el"))));
        op!(v, "remove_sub_element", "parent", "", |w| r(w.e("p1el").remove_sub_element(w.e("p1"))));
        op!(v, "remove_sub_element", "grandchild", "", |w| r(w.e("p1").remove_sub_element(w.e("ecu1"))));
        op!(v, "remove_sub_element", "shortname", "", |w| r(w.e("ecu1").remove_sub_element(w.e("sn_ecu1"))));
        op!(v, "remove_sub_element", "stale_arg", "", |w| r(w.e("p1el").remove_sub_element(w.e("stale"))));
        op!(v, "remove_sub_element", "stale_self", "", |w| r(w.e("stale").remove_sub_element(w.e("stale_sn"))));
        op!(v, "remove_sub_element", "foreign", "", |w| r(w.e("p1el").remove_sub_element(w.e("ecuq"))));
        op!(v, "remove_sub_element_kind", "ok", "", |w| r(w.e("p2").remove_sub_element_kind(EN::Elements)));
        op!(v, "remove_sub_element_kind", "last_kind", "", |w| r(w.e("p1el").remove_sub_element_kind(EN::System)));
        op!(v, "remove_sub_element_kind", "missing", "", |w| r(w.e("p1").remove_sub_element_kind(EN::Category)));
        op!(v, "remove_sub_element_kind", "stale", "", |w| r(w.e("stale").remove_sub_element_kind(EN::ShortName)));
        // ---------------------------------------------------------------- names, character data
        op!(v, "set_item_name", "referenced", "", |w| r(w.e("ecu1").set_item_name("Renamed")));
        op!(v, "set_item_name", "pkg", "", |w| r(w.e("p1").set_item_name("P1x")));
        op!(v, "set_item_name", "same", "", |w| r(w.e("ecu1").set_item_name("Ecu1")));
        op!(v, "set_item_name", "dup", "", |w| r(w.e("ecu1").set_item_name("Ecu2")));
        op!(v, "set_item_name", "empty", "", |w| r(w.e("ecu1").set_item_name("")));
        op!(v, "set_item_name", "notnamed", "", |w| r(w.e("p1el").set_item_name("X")));
        op!(v, "set_item_name", "stale", "", |w| r(w.e("stale").set_item_name("X")));
        op!(v, "set_item_name", "deep", "S3", |w| r(w.e("sub1").set_item_name("Sub1x")));
        // below a wrapper whose type is named only in other versions (item_name() of the wrapper looks at its first sub element)
        op!(v, "set_item_name", "wrapper_child", "S3", |w| r(w.e("wchild").set_item_name("Renamed")));
        op!(v, "remove_sub_element", "wrapper_child", "S3", |w| r(w.e("wchild").remove_sub_element(w.e("wgrand"))));
        op!(v, "create_sub_element", "wrapper_child", "S3", |w| r(w.e("wchild").create_sub_element(EN::CounterIncrementStepSize)));
        op!(v, "create_copied_sub_element", "wrapper_child", "S3", |w| r(w.e("wrapper").create_copied_sub_element(&w.e("wchild"))));
        op!(v, "path", "wrapper_child", "S3", |w| rs(w.e("wchild").path()));
        op!(v, "remove_sub_element", "wrapper", "S3", |w| r(w.e("needs").remove_sub_element(w.e("wrapper"))));
        op!(v, "set_character_data", "plain", "", |w| r(w.e("cat").set_character_data("OTHER")));
        op!(v, "set_character_data", "shortname", "", |w| r(w.e("sn_ecu1").set_character_data("EcuR")));
        op!(v, "set_character_data", "reference", "", |w| r(w.e("ref1").set_character_data("/P1/Ecu2")));
        op!(v, "set_character_data", "wrongtype", "", |w| r(w.e("p1el").set_character_data("x")));
        op!(v, "set_character_data", "stale_sn", "", |w| r(w.e("stale_sn").set_character_data("Zz")));
        op!(v, "set_character_data", "mixed", "", |w| r(w.e("l4").set_character_data("mixed")));
        op!(v, "remove_character_data", "plain", "", |w| r(w.e("cat").remove_character_data()));
        op!(v, "remove_character_data", "reference", "", |w| r(w.e("ref1").remove_character_data()));
        op!(v, "remove_character_data", "shortname", "", |w| r(w.e("sn_ecu1").remove_character_data()));
        op!(v, "remove_character_data", "stale", "", |w| r(w.e("stale_sn").remove_character_data()));
        op!(v, "character_content_item", "insert", "", |w| r(w.e("l4").insert_character_content_item("more", 1)));
        op!(v, "character_content_item", "insert_badpos", "", |w| r(w.e("l4").insert_character_content_item("more", 9)));
        op!(v, "character_content_item", "insert_wrongtype", "", |w| r(w.e("p1").insert_character_content_item("more", 0)));
        op!(v, "character_content_item", "remove", "", |w| r(w.e("l4").remove_character_content_item(0)));
        op!(v, "character_content_item", "remove_badpos", "", |w| r(w.e("l4").remove_character_content_item(5)));
        op!(v, "character_data", "get", "", |w| format!("ok:{:?}", w.e("cat").character_data().map(|c| c.to_string())));
        op!(v, "character_data", "content_iter", "", |w| format!("ok:{}", w.e("l4").content().count()));
        op!(v, "character_data", "content_item_count", "", |w| format!("ok:{}", w.e("p1el").content_item_count()));
        // ---------------------------------------------------------------- references
        op!(v, "set_reference_target", "ok", "", |w| r(w.e("ref1").set_reference_target(&w.e("ecu2"))));
        op!(v, "set_reference_target", "self", "", |w| r(w.e("ref1").set_reference_target(&w.e("ref1"))));
        op!(v, "set_reference_target", "ancestor", "", |w| r(w.e("ref1").set_reference_target(&w.e("sys"))));
        op!(v, "set_reference_target", "wrongdest", "", |w| r(w.e("ref1").set_reference_target(&w.e("p1"))));
        op!(v, "set_reference_target", "notref", "", |w| r(w.e("p1el").set_reference_target(&w.e("ecu1"))));
        op!(v, "set_reference_target", "foreign", "", |w| r(w.e("ref1").set_reference_target(&w.e("ecuq"))));
        op!(v, "set_reference_target", "stale_target", "", |w| r(w.e("ref1").set_reference_target(&w.e("stale"))));
        op!(v, "set_reference_target", "deep", "S3", |w| r(w.e("ref2").set_reference_target(&w.e("ecudeep"))));
        op!(v, "get_reference_target", "ok", "", |w| r(w.e("ref1").get_reference_target()));
        op!(v, "get_reference_target", "notref", "", |w| r(w.e("p1el").get_reference_target()));
        op!(v, "get_reference_target", "deep", "S3", |w| r(w.e("ref3").get_reference_target()));
        op!(v, "get_references_to", "some", "", |w| format!("ok:{}", w.model.get_references_to("/P1/Ecu1").len()));
        op!(v, "get_references_to", "none", "", |w| format!("ok:{}", w.model.get_references_to("/nothing").len()));
        op!(v, "check_references", "model", "", |w| format!("ok:{}", w.model.check_references().len()));
        // ---------------------------------------------------------------- attributes
        op!(v, "set_attribute", "ok", "", |w| r(w.e("p1").set_attribute(AttributeName::Uuid, CharacterData::String("abc".to_string()))));
        op!(v, "set_attribute", "invalid", "", |w| r(w.e("p1").set_attribute(AttributeName::Dest, CharacterData::String("abc".to_string()))));
        op!(v, "set_attribute", "string", "", |w| r(w.e("p1").set_attribute_string(AttributeName::Uuid, "abc")));
        op!(v, "set_attribute", "stale", "", |w| r(w.e("stale").set_attribute_string(AttributeName::Uuid, "abc")));
        op!(v, "remove_attribute", "present", "", |w| format!("ok:{}", w.e("p2").remove_attribute(AttributeName::Uuid)));
        op!(v, "remove_attribute", "absent", "", |w| format!("ok:{}", w.e("p1").remove_attribute(AttributeName::Uuid)));
        op!(v, "attributes", "value", "", |w| format!("ok:{:?}", w.e("p2").attribute_value(AttributeName::Uuid).map(|c| c.to_string())));
        op!(v, "attributes", "iter", "", |w| format!("ok:{}", w.e("root").attributes().count()));
        // ---------------------------------------------------------------- navigation
        op!(v, "path", "named", "", |w| rs(w.e("ecu1").path()));
        op!(v, "path", "unnamed", "", |w| rs(w.e("p1el").path()));
        op!(v, "path", "stale", "", |w| rs(w.e("stale").path()));
        op!(v, "path", "deep", "S3", |w| rs(w.e("ecudeep").path()));
        op!(v, "xml_path", "named", "", |w| format!("ok:{}", w.e("ref1").xml_path()));
        op!(v, "xml_path", "stale", "", |w| format!("ok:{}", w.e("stale_sn").xml_path()));
        op!(v, "model", "live", "", |w| r(w.e("ecu1").model()));
        op!(v, "model", "stale", "", |w| r(w.e("stale").model()));
        op!(v, "model", "deep", "S3", |w| r(w.e("ecudeep").model()));
        op!(v, "parent", "live", "", |w| r(w.e("ecu1").parent()));
        op!(v, "parent", "root", "", |w| r(w.e("root").parent()));
        op!(v, "parent", "stale", "", |w| r(w.e("stale").parent()));
        op!(v, "named_parent", "live", "", |w| r(w.e("ref1").named_parent()));
        op!(v, "named_parent", "stale", "", |w| r(w.e("stale_sn").named_parent()));
        op!(v, "position", "live", "", |w| format!("ok:{:?}", w.e("ecu2").position()));
        op!(v, "position", "stale", "", |w| format!("ok:{:?}", w.e("stale").position()));
        op!(v, "item_name", "named", "", |w| format!("ok:{:?}", w.e("ecu1").item_name()));
        op!(v, "item_name", "is_identifiable", "", |w| format!("ok:{}", w.e("ecu1").is_identifiable()));
        op!(v, "item_name", "is_identifiable_unnamed", "", |w| format!("ok:{}", w.e("p1el").is_identifiable()));
        op!(v, "item_name", "is_identifiable_wrapper", "S3", |w| format!("ok:{}", w.e("wrapper").is_identifiable()));
        op!(v, "item_name", "min_version", "", |w| format!("ok:{:?}", w.e("ecu1").min_version().ok()));
        op!(v, "item_name", "min_version_stale", "", |w| format!("ok:{:?}", w.e("stale").min_version().ok()));
        op!(v, "item_name", "props", "", |w| format!(
            "ok:{:?}/{:?}/{}/{}/{:?}",
            w.e("ecu1").element_name(),
            w.e("ecu1").content_type(),
            w.e("ecu1").is_identifiable(),
            w.e("ref1").is_reference(),
            w.e("ecu1").min_version().ok()
        ));
        op!(v, "get_sub_element", "byname", "", |w| format!("ok:{}", w.e("p1").get_sub_element(EN::Elements).is_some()));
        // readers of AR-PACKAGES (the parent of the packages that file operations delete) that hold its lock across a scheduling point
        op!(v, "get_sub_element", "pkgs_byname", "", |w| format!("ok:{}", w.e("pkgs").get_sub_element(EN::ArPackage).is_some()));
        // a kind that is NOT the first child (SYSTEM after two ECU-INSTANCEs): the lookup has to pass the other children first
        op!(v, "get_sub_element", "last_kind", "", |w| format!("ok:{}", w.e("p1el").get_sub_element(EN::System).is_some()));
        op!(v, "get_sub_element", "at", "", |w| format!("ok:{}", w.e("p1el").get_sub_element_at(1).is_some()));
        op!(v, "get_sub_element", "sub_elements_iter", "", |w| format!("ok:{}", w.e("p1el").sub_elements().count()));
        op!(v, "get_sub_element", "list_valid", "", |w| format!("ok:{}", w.e("p1").list_valid_sub_elements().len()));
        op!(v, "elements_dfs", "element", "", |w| format!("ok:{}", w.e("p1").elements_dfs().count()));
        op!(v, "elements_dfs", "src_parent", "", |w| format!("ok:{}", w.e("p1el").elements_dfs().count()));
        op!(v, "elements_dfs", "model", "", |w| format!("ok:{}", w.model.elements_dfs().count()));
        op!(v, "elements_dfs", "maxdepth", "", |w| format!("ok:{}", w.model.elements_dfs_with_max_depth(2).count()));
        op!(v, "elements_dfs", "file", "", |w| format!("ok:{}", w.files[0].elements_dfs().count()));
        op!(v, "elements_dfs", "stale", "", |w| format!("ok:{}", w.e("stale").elements_dfs().count()));
        op!(v, "get_element_by_path", "hit", "", |w| format!("ok:{}", w.model.get_element_by_path("/P1/Ecu1").is_some()));
        op!(v, "get_element_by_path", "miss", "", |w| format!("ok:{}", w.model.get_element_by_path("/P1/Nope").is_some()));
        op!(v, "identifiable_elements", "iter", "", |w| format!("ok:{}", w.model.identifiable_elements().count()));
        op!(v, "comment", "set", "", |w| {
            w.e("p1").set_comment(Some("hello".to_string()));
            "ok".to_string()
        });
        op!(v, "comment", "get", "", |w| format!("ok:{:?}", w.e("p1").comment()));
        // ---------------------------------------------------------------- files
        op!(v, "file_membership", "inherited", "", |w| format!("{}", r(w.e("ecu1").file_membership())));
        op!(v, "file_membership", "local", "", |w| format!("{}", r(w.e("p2").file_membership())));
        op!(v, "file_membership", "stale", "", |w| format!("{}", r(w.e("stale").file_membership())));
        op!(v, "add_to_file", "same", "", |w| r(w.e("p1").add_to_file(&w.files[0])));
        op!(v, "add_to_file", "second", "S2", |w| r(w.e("p1").add_to_file(&w.files[1])));
        // the element is not in the second file and neither are its ancestors up to P1: their file sets have to be extended too
        op!(v, "add_to_file", "ancestor_needs_extension", "S2,S4", |w| r(w.e("sys").add_to_file(&w.files[1])));
        op!(v, "add_to_file", "ancestor_needs_extension_ecu", "S2", |w| r(w.e("ecu1").add_to_file(&w.files[1])));
        op!(v, "add_to_file", "notsplittable", "", |w| r(w.e("ecu1").add_to_file(&w.files[0])));
        op!(v, "add_to_file", "foreign_file", "", |w| r(w.e("p1").add_to_file(&w.files2[0])));
        op!(v, "add_to_file", "stale", "", |w| r(w.e("stale").add_to_file(&w.files[0])));
        op!(v, "remove_from_file", "only_file", "", |w| r(w.e("p1").remove_from_file(&w.files[0])));
        op!(v, "remove_from_file", "second", "S2", |w| r(w.e("p2").remove_from_file(&w.files[1])));
        op!(v, "remove_from_file", "notmember", "S2", |w| r(w.e("p2").remove_from_file(&w.files[0])));
        op!(v, "remove_from_file", "notsplittable", "", |w| r(w.e("ecu1").remove_from_file(&w.files[0])));
        op!(v, "remove_from_file", "foreign_file", "", |w| r(w.e("p1").remove_from_file(&w.files2[0])));
        op!(v, "create_file", "new", "", |w| r(w.model.create_file("new.arxml", V)));
        op!(v, "create_file", "dup", "", |w| r(w.model.create_file("f1.arxml", V)));
        op!(v, "remove_file", "last_or_first", "", |w| {
            w.model.remove_file(&w.files[0]);
            "ok".to_string()
        });
        op!(v, "remove_file", "second", "S2", |w| {
            w.model.remove_file(&w.files[1]);
            "ok".to_string()
        });
        op!(v, "remove_file", "foreign", "", |w| {
            w.model.remove_file(&w.files2[0]);
            "ok".to_string()
        });
        op!(v, "load_buffer", "merge", "", |w| r(w.model.load_buffer(EXTRA_FILE.as_bytes(), "extra.arxml", true)));
        op!(v, "load_buffer", "merge2", "", |w| r(w.model.load_buffer(EXTRA_FILE2.as_bytes(), "extra2.arxml", true)));
        op!(v, "load_buffer", "dupname", "", |w| r(w.model.load_buffer(EXTRA_FILE.as_bytes(), "f1.arxml", true)));
        op!(v, "load_buffer", "broken", "", |w| r(w.model.load_buffer(b"<AUTOSAR>", "broken.arxml", true)));
        op!(v, "load_buffer", "into_empty", "", |w| r(AutosarModel::new().load_buffer(EXTRA_FILE.as_bytes(), "extra.arxml", true)));
        op!(v, "serialize", "file", "S1,S2,S3,S4", |w| match w.files[0].serialize() {
            Ok(s) => format!("ok:{:016x}", fnv(&s)),
            Err(e) => format!("err:{}", variant(&e)),
        });
        op!(v, "serialize", "file2", "S2,S4", |w| match w.files[1].serialize() {
            Ok(s) => format!("ok:{:016x}", fnv(&s)),
            Err(e) => format!("err:{}", variant(&e)),
        });
        op!(v, "serialize", "element", "", |w| format!("ok:{:016x}", fnv(&w.e("p1").serialize())));
        op!(v, "serialize", "pkgs", "", |w| format!("ok:{:016x}", fnv(&w.e("pkgs").serialize())));
        op!(v, "serialize", "src_parent", "", |w| format!("ok:{:016x}", fnv(&w.e("p1el").serialize())));
        op!(v, "serialize", "stale", "", |w| format!("ok:{:016x}", fnv(&w.e("stale").serialize())));
        op!(v, "serialize_files", "model", "S1,S2,S3,S4", |w| {
            let mut f: Vec<(std::path::PathBuf, String)> = w.model.serialize_files().into_iter().collect();
            f.sort();
            format!("ok:{}:{:016x}", f.len(), fnv(&f.iter().map(|x| x.1.clone()).collect::<Vec<_>>().join("\n")))
        });
        op!(v, "file_props", "get", "", |w| format!("ok:{:?}/{:?}/{:?}", w.files[0].filename(), w.files[0].version(), w.files[0].xml_standalone()));
        op!(v, "file_props", "model", "", |w| r(w.files[0].model()));
        op!(v, "file_props", "set_filename", "", |w| r(w.files[0].set_filename("renamed.arxml")));
        op!(v, "file_props", "files_iter", "", |w| format!("ok:{}", w.model.files().count()));
        op!(v, "set_version", "same", "", |w| r(w.files[0].set_version(V)));
        op!(v, "set_version", "older", "", |w| r(w.files[0].set_version(AutosarVersion::Autosar_4_0_1)));
        op!(v, "check_version_compatibility", "older", "", |w| format!("ok:{}", w.files[0].check_version_compatibility(AutosarVersion::Autosar_4_0_1).0.len()));
        op!(v, "duplicate", "model", "", |w| r(w.model.duplicate()));
        op!(v, "sort", "element", "", |w| {
            w.e("p1el").sort();
            "ok".to_string()
        });
        op!(v, "sort", "model", "", |w| {
            w.model.sort();
            "ok".to_string()
        });
        op!(v, "root_element", "get", "", |w| format!("ok:{:?}", w.model.root_element().element_name()));
        op!(v, "debug_fmt", "element", "", |w| format!("ok:{}", format!("{:?}", w.e("ecu1")).len() > 0));
        op!(v, "debug_fmt", "model", "", |w| format!("ok:{}", format!("{:?}", w.model).len() > 0));
        op!(v, "ord_cmp", "siblings", "", |w| format!("ok:{:?}", w.e("ecu1").cmp(&w.e("ecu2"))));
        op!(v, "ord_cmp", "self", "", |w| format!("ok:{:?}", w.e("ecu1").cmp(&w.e("ecu1"))));
        op!(v, "ord_cmp", "parent_child", "", |w| format!("ok:{:?}", w.e("p1").cmp(&w.e("ecu1"))));
        op!(v, "ord_cmp", "foreign", "", |w| format!("ok:{:?}", w.e("ecu1").cmp(&w.e("ecuq"))));
        v
    }

    pub fn find_op(all: &[Op], name: &str) -> Option<Op> {
        // name = class/inst
        all.iter().find(|o| format!("{}/{}", o.class, o.inst) == name).cloned()
    }

    pub fn applies(o: &Op, shape: &str) -> bool {
        if o.only.is_empty() {
            shape != "S4"
        } else {
            o.only.split(',').any(|s| s == shape)
        }
    }

    fn cls(c: shim::LockClass) -> &'static str {
        match c {
            shim::LockClass::Model => "model",
            shim::LockClass::File => "file",
            shim::LockClass::Element => "element",
            shim::LockClass::Other => "other",
        }
    }
    fn md(m: shim::LockMode) -> &'static str {
        match m {
            shim::LockMode::Read => "R",
            shim::LockMode::Write => "W",
        }
    }
    fn kd(k: shim::AcqKind) -> &'static str {
        match k {
            shim::AcqKind::Block => "B",
            shim::AcqKind::Try => "T",
            shim::AcqKind::TryFor => "F",
        }
    }
    fn short(file: &str) -> &str {
        file.rsplit('/').next().unwrap_or(file)
    }

    /// depth of every element reachable from the two roots and of every kept handle (detached subtrees: depth from
    /// the detached root + 500), keyed by lock id relative to the world's first lock
    pub fn depths(w: &World) -> BTreeMap<u64, (u64, String)> {
        let mut m: BTreeMap<u64, (u64, String)> = BTreeMap::new();
        fn walk(e: &Element, d: u64, m: &mut BTreeMap<u64, (u64, String)>) {
            if m.contains_key(&e.verif_lock_id()) {
                return;
            }
            m.insert(e.verif_lock_id(), (d, format!("{:?}", e.element_name())));
            let subs: Vec<Element> = e.sub_elements().collect();
            for s in subs {
                walk(&s, d + 1, m);
            }
        }
        walk(&w.model.root_element(), 0, &mut m);
        walk(&w.model2.root_element(), 0, &mut m);
        // detached handles: climb to the detached root first
        for e in w.h.values() {
            if !m.contains_key(&e.verif_lock_id()) {
                let mut top = e.clone();
                while let Ok(Some(p)) = top.parent() {
                    top = p;
                }
                walk(&top, 500, &mut m);
                walk(e, 600, &mut m);
            }
        }
        m
    }

    pub struct TraceOut {
        pub result: String,
        pub events: Vec<shim::Event>,
    }

    /// run one instance single-threaded with the thread-local log on
    pub fn run_logged(w: &World, o: &Op) -> TraceOut {
        shim::log_start();
        let res = guard(|| (o.f)(w));
        let events = shim::log_take();
        let result = match res {
            Ok(s) => s,
            Err(msg) => {
                if msg.starts_with("verif_shim: self-deadlock") {
                    "SELFDEADLOCK".to_string()
                } else {
                    format!("panic:{}", msg.replace(' ', "_").chars().take(80).collect::<String>())
                }
            }
        };
        TraceOut { result, events }
    }

    pub fn print_events(events: &[shim::Event], base: u64, with_thread: bool) {
        for e in events {
            let k = match e.kind {
                shim::EventKind::Request => continue,
                shim::EventKind::Acquired => {
                    if e.acq == shim::AcqKind::Block {
                        "Acq"
                    } else {
                        "TryAcq"
                    }
                }
                shim::EventKind::TryFailed => "TryFail",
                shim::EventKind::Released => "Rel",
                shim::EventKind::SelfDeadlock => "SelfDeadlock",
                shim::EventKind::SelfTryFail => "SelfTryFail",
                shim::EventKind::RecursiveRead => "RecursiveRead",
            };
            let t = if with_thread { format!(" t{}", e.thread) } else { String::new() };
            println!(
                "EV {} {} {} {} {}:{}:{}{}",
                k,
                md(e.mode),
                e.lock.wrapping_sub(base),
                cls(e.class),
                short(e.file),
                e.line,
                kd(e.acq),
                t
            );
        }
    }

    /// `locks trace <seed> <tier> [class-filter]`
    fn trace_main(args: &[String]) {
        let filter = args.get(2).cloned().unwrap_or_default();
        let all = ops();
        let mut n = 0;
        for shape in SHAPES {
            for o in &all {
                if !applies(o, shape) || (!filter.is_empty() && !format!("{}/{}", o.class, o.inst).contains(&filter)) {
                    continue;
                }
                let w = build(shape);
                let before = depths(&w);
                let first_new = shim::next_lock_id();
                let out = run_logged(&w, o);
                let after = depths(&w);
                println!("OP {} {}/{} {}", o.class, shape, o.inst, out.result);
                // rank information of every lock that occurs
                let mut seen = std::collections::BTreeSet::new();
                for e in &out.events {
                    if !seen.insert(e.lock) {
                        continue;
                    }
                    let rel = e.lock.wrapping_sub(w.base_lock);
                    let (rank, what) = match e.class {
                        shim::LockClass::Element => match before.get(&e.lock) {
                            Some((d, n)) => (10 + d, format!("{}@before", n)),
                            None => match after.get(&e.lock) {
                                Some((_, n)) => (2000 + rel, format!("{}@new", n)),
                                None => (2000 + rel, "temp".to_string()),
                            },
                        },
                        shim::LockClass::Model => (1_000_000 + rel, format!("model@{}", if e.lock < first_new { "before" } else { "new" })),
                        shim::LockClass::File => (2_000_000 + rel, format!("file@{}", if e.lock < first_new { "before" } else { "new" })),
                        shim::LockClass::Other => (3_000_000 + rel, "other@new".to_string()),
                    };
                    println!("LK {} {} {} {}", rel, cls(e.class), rank, what);
                }
                print_events(&out.events, w.base_lock, false);
                println!("END");
                n += 1;
            }
        }
        println!("STAT instances={} classes={}", n, all.iter().map(|o| o.class).collect::<std::collections::BTreeSet<_>>().len());
        let _ = SplitMix64(0);
    }

    /// `locks world`: the worlds of the shapes as data (for the footprint tie, coq/Conc/Footprint.v): every element reachable from the
    /// two roots or from a kept handle with parent link, name, is_named of its type, LOCAL file set and content items
    fn world_main() {
        for shape in SHAPES {
            let w = build(shape);
            let base = w.base_lock;
            let rel = |e: &Element| e.verif_lock_id().wrapping_sub(base);
            let all_files: Vec<ArxmlFile> = w.files.iter().chain(w.files2.iter()).cloned().collect();
            println!("WORLD {}", shape);
            println!("CONST shortname={} latest={}", ElementName::ShortName as u16, AutosarVersion::LATEST as u32);
            for (k, m) in [&w.model, &w.model2].iter().enumerate() {
                println!("M {} {}", k, m.verif_lock_id().wrapping_sub(base));
            }
            for (k, f) in all_files.iter().enumerate() {
                println!("F {} {} {}", k, f.verif_lock_id().wrapping_sub(base), f.version() as u32);
            }
            let mut seen = std::collections::BTreeSet::new();
            let mut stack: Vec<Element> = vec![w.model.root_element(), w.model2.root_element()];
            stack.extend(w.h.values().cloned());
            while let Some(e) = stack.pop() {
                if !seen.insert(rel(&e)) {
                    continue;
                }
                let parent = match e.parent() {
                    Ok(Some(p)) => {
                        stack.push(p.clone());
                        format!("E{}", rel(&p))
                    }
                    Ok(None) => match e.model() {
                        Ok(m) if m == w.model => "M0".to_string(),
                        Ok(_) => "M1".to_string(),
                        Err(_) => "-".to_string(),
                    },
                    Err(_) => "-".to_string(),
                };
                let files: Vec<String> = match e.file_membership() {
                    Ok((true, set)) => {
                        let mut v: Vec<usize> = set.iter().filter_map(|wf| wf.upgrade()).filter_map(|f| all_files.iter().position(|x| *x == f)).collect();
                        v.sort();
                        v.iter().map(|x| x.to_string()).collect()
                    }
                    _ => vec![],
                };
                let mut content = Vec::new();
                for item in e.content() {
                    match item {
                        ElementContent::Element(c) => {
                            content.push(format!("e{}", rel(&c)));
                            stack.push(c);
                        }
                        ElementContent::CharacterData(_) => content.push("d".to_string()),
                    }
                }
                println!(
                    "N {} {} {} {} files={} content={}",
                    rel(&e),
                    parent,
                    e.element_name() as u16,
                    e.element_type().is_named() as u8,
                    if files.is_empty() { "-".to_string() } else { files.join(",") },
                    if content.is_empty() { "-".to_string() } else { content.join(",") }
                );
            }
            for (k, e) in &w.h {
                println!("H {} {}", k, rel(e));
            }
            for (n, v) in [("Elements", ElementName::Elements), ("Category", ElementName::Category), ("ShortName", ElementName::ShortName)] {
                println!("EN {} {}", n, v as u16);
            }
            println!("ENDWORLD");
        }
    }

    pub fn main(args: &[String]) {
        match args.first().map(|s| s.as_str()) {
            Some("world") => world_main(),
            Some("trace") => trace_main(&args[1..]),
            Some("list") => {
                for o in ops() {
                    println!("{}/{} {}", o.class, o.inst, if o.only.is_empty() { "all" } else { o.only });
                }
            }
            Some("sched") => super::sched::main(&args[1..]),
            _ => {
                eprintln!("usage: avh locks trace <seed> <tier> [filter] | list | sched ...");
                std::process::exit(2);
            }
        }
    }
}
