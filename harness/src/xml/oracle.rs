//! Direct property oracles on the implementation alone (never the model): used for the failing-input search and as
//! an independent detector.  Output: `FAIL <oracle> case=<i> mode=<s|l|-> tag=<tag> <detail>` and `STAT ...` lines.
//!
//! Readings that the oracles fix (DESIGN.md section 7, C01):
//!  * the value of a text / attribute is decode(trim(raw)) — literal XML whitespace (SP, TAB, CR, LF) at the ends of the raw
//!    text is insignificant unless the type says preserve_whitespace; an ENCODED blank (&#x20;) is significant;
//!  * text runs inside mixed content are trimmed (all mixed types say preserve_whitespace: false) and whitespace-only
//!    runs vanish;
//!  * a comment is attached to the next element start at the same level (the last one wins); comments not followed by
//!    an element are not part of the model;
//!  * the root's xsi:schemaLocation attribute is owned by the file's version: ArxmlFile::serialize rewrites it to the
//!    canonical spelling for that version (set_version), so the round-trip comparison reads it as the version (the `V`
//!    line of the dump) and normalises the attribute line; the faithfulness comparison still checks its text as loaded;
//!  * a lenient load with warnings may omit attributes / text it warned about: then only element structure and the
//!    attribute-name subsequence are compared.
use super::reader::{self, Doc, Item, Node};
use super::*;
use autosar_data_specification::{CharacterDataSpec, ContentMode};
use std::str::FromStr;

struct Out {
    fails: u64,
    stats: std::collections::BTreeMap<String, u64>,
}

impl Out {
    fn fail(&mut self, oracle: &str, case: usize, mode: &str, tag: &str, detail: &str) {
        self.fails += 1;
        *self.stats.entry(format!("fail.{}", oracle)).or_insert(0) += 1;
        println!("FAIL {} case={} mode={} tag={} {}", oracle, case, mode, if tag.is_empty() { "-" } else { tag }, detail);
    }
    fn count(&mut self, k: &str) {
        *self.stats.entry(k.to_string()).or_insert(0) += 1;
    }
}

fn nlines(b: &[u8]) -> usize {
    1 + b.iter().filter(|c| **c == b'\n').count()
}

fn res_key(r: &LoadResult) -> String {
    match r {
        LoadResult::Ok(l) => format!("Ok(nw={})", l.warnings.len()),
        LoadResult::Err(e) => format!("Err({})", err_str(e).replace(' ', "_")),
        LoadResult::Panic(s) => format!("Panic({})", s),
    }
}

// ------------------------------------------------------------------------------------------------ C02
fn c02(out: &mut Out, i: usize, bytes: &[u8], tag: &str, s: &LoadResult, l: &LoadResult) {
    let n = nlines(bytes);
    let chk = check(bytes);
    if chk == "P" {
        out.fail("c02.panic", i, "-", tag, &format!("where=check_buffer site={}", last_panic_site()));
    }
    for (m, r) in [("s", s), ("l", l)] {
        match r {
            LoadResult::Panic(site) => out.fail("c02.panic", i, m, tag, &format!("where=load_buffer site={}", site)),
            LoadResult::Err(e) => {
                if let Some(line) = err_line(e) {
                    if line < 1 || line > n {
                        out.fail("c02.line-range", i, m, tag, &format!("error={} lines-in-input={}", err_str(e).replace(' ', "_"), n));
                    }
                }
            }
            LoadResult::Ok(ld) => {
                for w in ld.warnings.iter() {
                    if let Some(line) = err_line(w) {
                        if line < 1 || line > n {
                            out.fail("c02.line-range", i, m, tag, &format!("warning={} lines-in-input={}", err_str(w).replace(' ', "_"), n));
                        }
                    }
                }
                if chk != "1" {
                    out.fail("c02.check-rejects-loadable", i, m, tag, &format!("check_buffer={} load={}", chk, res_key(r)));
                }
            }
        }
    }
}

// ------------------------------------------------------------------------------------------------ C08
fn c08(out: &mut Out, i: usize, tag: &str, s: &LoadResult, l: &LoadResult) {
    match (s, l) {
        (LoadResult::Panic(_), _) | (_, LoadResult::Panic(_)) => {} // C02's business
        (LoadResult::Ok(ls), LoadResult::Ok(ll)) => {
            if !ll.warnings.is_empty() {
                out.fail("c08.strict-ok-lenient-warns", i, "-", tag, &format!("first-warning={}", err_str(&ll.warnings[0]).replace(' ', "_")));
            } else {
                let (d1, _) = dump_loaded(ls);
                let (d2, _) = dump_loaded(ll);
                if d1 != d2 {
                    out.fail("c08.trees-differ", i, "-", tag, &first_diff(&d1, &d2));
                }
            }
            if !ls.warnings.is_empty() {
                out.fail("c08.strict-returned-warnings", i, "s", tag, &format!("n={}", ls.warnings.len()));
            }
        }
        (LoadResult::Ok(_), LoadResult::Err(e)) => out.fail("c08.strict-ok-lenient-err", i, "-", tag, &format!("lenient={}", err_str(e).replace(' ', "_"))),
        (LoadResult::Err(es), LoadResult::Ok(ll)) => {
            if ll.warnings.is_empty() {
                out.fail("c08.lenient-clean-strict-err", i, "-", tag, &format!("strict={}", err_str(es).replace(' ', "_")));
            } else {
                let w = &ll.warnings[0];
                if err_str(es) != err_str(w) || es.to_string() != w.to_string() {
                    out.fail(
                        "c08.first-warning-mismatch",
                        i,
                        "-",
                        tag,
                        &format!("strict={} first-warning={}", err_str(es).replace(' ', "_"), err_str(w).replace(' ', "_")),
                    );
                }
            }
        }
        (LoadResult::Err(_), LoadResult::Err(_)) => {}
    }
    // no holes: a document the generator built to violate a documented constraint must not load strictly
    if let Some(class) = tag.strip_prefix("x=") {
        out.count(&format!("defect.{}.{}", class, match s { LoadResult::Ok(_) => "accepted", LoadResult::Err(_) => "rejected", LoadResult::Panic(_) => "panic" }));
        if let LoadResult::Ok(_) = s {
            out.fail("c08.hole", i, "s", tag, &format!("class={} strict load accepted a document that violates the constraint", class));
        }
    }
}

/// the root's xsi:schemaLocation line (depth 0: before the first `E 1`) replaced by a fixed marker; the version is the `V` line
fn norm_schema_location(d: &str) -> String {
    let mut out = String::with_capacity(d.len());
    let mut in_root = true;
    for (k, l) in d.lines().enumerate() {
        if k > 0 && l.starts_with("E ") {
            in_root = false;
        }
        if in_root && l.starts_with("A xsi:schemaLocation=") {
            out.push_str("A xsi:schemaLocation=<by-version>\n");
        } else {
            out.push_str(l);
            out.push('\n');
        }
    }
    out
}

pub fn first_diff(a: &str, b: &str) -> String {
    let la: Vec<&str> = a.lines().collect();
    let lb: Vec<&str> = b.lines().collect();
    let n = la.len().max(lb.len());
    for k in 0..n {
        let x = la.get(k).copied().unwrap_or("<end>");
        let y = lb.get(k).copied().unwrap_or("<end>");
        if x != y {
            let prev = if k > 0 { la[k - 1] } else { "<start>" };
            let next = la.get(k + 1).copied().unwrap_or("<end>");
            return format!("at={} prev1=[{}] diff1=[{}] diff2=[{}] next1=[{}]", k, prev, x, y, next);
        }
    }
    "no-difference".to_string()
}

// ------------------------------------------------------------------------------------------------ C01
fn parse_u64_indep(t: &[u8]) -> Option<u64> {
    let d = if t.first() == Some(&b'+') { &t[1..] } else { t };
    if d.is_empty() {
        return None;
    }
    let mut v: u128 = 0;
    for c in d {
        if !c.is_ascii_digit() {
            return None;
        }
        v = v * 10 + (*c - b'0') as u128;
        if v > u64::MAX as u128 {
            return None;
        }
    }
    Some(v as u64)
}

fn spec_kind(spec: Option<&CharacterDataSpec>) -> &'static str {
    match spec {
        Some(CharacterDataSpec::Enum { .. }) => "E",
        Some(CharacterDataSpec::Pattern { .. }) => "P",
        Some(CharacterDataSpec::String { preserve_whitespace: true, .. }) => "Sp",
        Some(CharacterDataSpec::String { .. }) => "S",
        Some(CharacterDataSpec::UnsignedInteger) => "U",
        Some(CharacterDataSpec::Float) => "F",
        None => "-",
    }
}

/// does the typed model value equal the document's value (raw text, not yet decoded)?
fn value_matches(cd: &CharacterData, raw: &[u8], spec: Option<&CharacterDataSpec>) -> Result<(), String> {
    let preserve = matches!(spec, Some(CharacterDataSpec::String { preserve_whitespace: true, .. }));
    let t = if preserve { raw } else { reader::trim_xml_ws(raw) };
    let expected = reader::decode(t).map_err(|e| format!("document value is not well-formed ({}) raw={}", e.replace(' ', "-"), hex(raw)))?;
    let ok = match cd {
        CharacterData::String(s) => s.as_bytes() == &expected[..],
        CharacterData::Enum(item) => item.to_str().as_bytes() == &expected[..],
        CharacterData::UnsignedInteger(v) => parse_u64_indep(&expected) == Some(*v),
        CharacterData::Float(f) => match std::str::from_utf8(&expected).ok().and_then(|s| s.parse::<f64>().ok()) {
            Some(x) => x.to_bits() == f.to_bits() || (x.is_nan() && f.is_nan()),
            None => false,
        },
    };
    if ok {
        Ok(())
    } else {
        Err(format!("spec={} expected={} model={} raw={}", spec_kind(spec), hex(&expected), cdata_str(cd), hex(raw)))
    }
}

struct Cmp {
    full: bool, // false: lenient load with warnings — structure and attribute-name subsequence only
    errs: Vec<String>,
}

fn compare_node(c: &mut Cmp, dn: &Node, e: &Element, comment: Option<&Vec<u8>>, path: &str) {
    if c.errs.len() > 3 {
        return;
    }
    let here = format!("{}/{}", path, String::from_utf8_lossy(&dn.name));
    if e.element_name().to_str().as_bytes() != &dn.name[..] {
        c.errs.push(format!("what=element-name at={} model={}", here, e.element_name().to_str()));
        return;
    }
    let mc = e.comment();
    let dc = comment.map(|b| String::from_utf8_lossy(b).to_string());
    if mc != dc {
        c.errs.push(format!(
            "what=comment at={} expected={} model={}",
            here,
            dc.map(|s| hex(s.as_bytes())).unwrap_or("-".into()),
            mc.map(|s| hex(s.as_bytes())).unwrap_or("-".into())
        ));
    }
    // attributes
    let et = e.element_type();
    let mattrs: Vec<Attribute> = e.attributes().collect();
    if c.full {
        if mattrs.len() != dn.attrs.len() {
            c.errs.push(format!("what=attribute-count at={} expected={} model={}", here, dn.attrs.len(), mattrs.len()));
        } else {
            for (ma, (dnm, dval)) in mattrs.iter().zip(dn.attrs.iter()) {
                if ma.attrname.to_str().as_bytes() != &dnm[..] {
                    c.errs.push(format!("what=attribute-name at={} expected={} model={}", here, String::from_utf8_lossy(dnm), ma.attrname.to_str()));
                } else if let Err(m) = value_matches(&ma.content, dval, et.find_attribute_spec(ma.attrname).map(|s| s.spec)) {
                    c.errs.push(format!("what=attribute-value at={}@{} {}", here, ma.attrname.to_str(), m));
                }
            }
        }
    } else {
        let mut k = 0;
        for ma in mattrs.iter() {
            while k < dn.attrs.len() && dn.attrs[k].0 != ma.attrname.to_str().as_bytes() {
                k += 1;
            }
            if k == dn.attrs.len() {
                c.errs.push(format!("what=attribute-not-in-document at={} model={}", here, ma.attrname.to_str()));
                break;
            }
            k += 1;
        }
    }
    // content
    let mode = et.content_mode();
    let mitems: Vec<ElementContent> = e.content().collect();
    let spec = et.chardata_spec();
    match mode {
        ContentMode::Characters => {
            let mut raw: Vec<u8> = Vec::new();
            for it in dn.items.iter() {
                match it {
                    Item::Text(t) => raw.extend_from_slice(t),
                    Item::Elem(n) => c.errs.push(format!("what=element-in-character-element at={} child={}", here, String::from_utf8_lossy(&n.name))),
                    Item::Comment(_) => {}
                }
            }
            if !c.full {
                return;
            }
            let cds: Vec<&CharacterData> = mitems.iter().filter_map(|m| if let ElementContent::CharacterData(cd) = m { Some(cd) } else { None }).collect();
            match cds.len() {
                0 => {
                    let preserve = matches!(spec, Some(CharacterDataSpec::String { preserve_whitespace: true, .. }));
                    let t = if preserve { &raw[..] } else { reader::trim_xml_ws(&raw) };
                    if !t.is_empty() && !(preserve && t.iter().all(|c| reader::is_xml_ws(*c))) {
                        c.errs.push(format!("what=text-missing at={} expected-raw={}", here, hex(&raw)));
                    }
                }
                1 => {
                    if let Err(m) = value_matches(cds[0], &raw, spec) {
                        c.errs.push(format!("what=text at={} {}", here, m));
                    }
                }
                _ => {
                    // several runs (split by a comment / PI): the concatenation must be the document's text
                    let mut cat = String::new();
                    for cd in cds.iter() {
                        if let CharacterData::String(s) = cd {
                            cat.push_str(s);
                        }
                    }
                    if let Err(m) = value_matches(&CharacterData::String(cat), &raw, spec) {
                        c.errs.push(format!("what=text-runs at={} runs={} {}", here, cds.len(), m));
                    }
                }
            }
        }
        _ => {
            let mixed = mode == ContentMode::Mixed;
            let mut mi = 0usize;
            let mut pending: Option<&Vec<u8>> = None;
            for it in dn.items.iter() {
                match it {
                    Item::Comment(cm) => pending = Some(cm),
                    Item::Text(t) => {
                        let tt = reader::trim_xml_ws(t);
                        if tt.is_empty() {
                            continue;
                        }
                        if !mixed {
                            if c.full {
                                c.errs.push(format!("what=text-in-element-only-content at={} raw={}", here, hex(t)));
                            }
                            continue;
                        }
                        if !c.full {
                            // a lenient load may have replaced / kept the item; just step over a character item if present
                            if let Some(ElementContent::CharacterData(_)) = mitems.get(mi) {
                                mi += 1;
                            }
                            continue;
                        }
                        match mitems.get(mi) {
                            Some(ElementContent::CharacterData(cd)) => {
                                if let Err(m) = value_matches(cd, t, spec) {
                                    c.errs.push(format!("what=mixed-text at={}#{} {}", here, mi, m));
                                }
                                mi += 1;
                            }
                            _ => {
                                c.errs.push(format!("what=mixed-text-missing at={}#{} raw={}", here, mi, hex(t)));
                            }
                        }
                    }
                    Item::Elem(n) => {
                        match mitems.get(mi) {
                            Some(ElementContent::Element(sub)) => {
                                compare_node(c, n, sub, pending, &here);
                                mi += 1;
                            }
                            Some(ElementContent::CharacterData(cd)) => {
                                c.errs.push(format!("what=unexpected-character-item at={}#{} model={}", here, mi, cdata_str(cd)));
                                return;
                            }
                            None => {
                                c.errs.push(format!("what=element-missing at={}#{} expected={}", here, mi, String::from_utf8_lossy(&n.name)));
                                return;
                            }
                        }
                        pending = None;
                    }
                }
            }
            if mi != mitems.len() {
                c.errs.push(format!("what=extra-model-content at={} document-items={} model-items={}", here, mi, mitems.len()));
            }
        }
    }
}

fn faithful(doc: &Doc, l: &Loaded) -> Vec<String> {
    let mut c = Cmp { full: l.warnings.is_empty(), errs: Vec::new() };
    compare_node(&mut c, &doc.root, &l.model.root_element(), doc.prolog_comments.last(), "");
    let sa = doc.standalone.as_ref().map(|v| &v[..] == b"yes");
    if sa != l.file.xml_standalone() {
        c.errs.push(format!("what=standalone expected={:?} model={:?}", sa, l.file.xml_standalone()));
    }
    if c.full {
        // the schema version named by the document
        let loc = doc.root.attrs.iter().find(|(n, _)| &n[..] == b"xsi:schemaLocation").and_then(|(_, v)| reader::decode(v).ok());
        if let Some(loc) = loc {
            let s = String::from_utf8_lossy(&loc).to_string();
            let xsd = s.split(' ').nth(1).unwrap_or("");
            if let Ok(v) = AutosarVersion::from_str(xsd) {
                if v != l.file.version() {
                    c.errs.push(format!("what=version expected={} model={}", v, l.file.version()));
                }
            }
        }
    }
    c.errs
}

fn c01(out: &mut Out, i: usize, bytes: &[u8], tag: &str, mode: &str, r: &LoadResult) {
    let strict = mode == "s";
    let l = match r {
        LoadResult::Ok(l) => l,
        LoadResult::Err(e) => {
            // C01 quantifies over the inputs load_buffer ACCEPTS.  A rejected document of the plain `valid` stream is still
            // reported (the loader's dialect shrank: every such document loaded before); for the `valid:*` classes that use
            // XML the loader does not decode / keep, a rejection is only counted.
            if strict && tag == "valid" {
                out.fail("c01.valid-rejected", i, mode, tag, &format!("strict={}", err_str(e).replace(' ', "_")));
            } else if strict && tag.starts_with("valid:") {
                out.count(&format!("rejected.{}", tag));
            }
            return;
        }
        LoadResult::Panic(_) => return,
    };
    if strict && tag.starts_with("valid") {
        out.count("valid-accepted");
    }
    // ---- faithfulness against the independent reader
    match reader::read(bytes) {
        Ok(doc) => {
            out.count("faithfulness-compared");
            let errs = faithful(&doc, l);
            if let Some(first) = errs.first() {
                out.fail("c01.unfaithful", i, mode, tag, &format!("nwarn={} {}", l.warnings.len(), first));
            }
        }
        Err(why) => {
            out.count("reference-reader-rejects");
            // the loader accepted something the reference reader does not read as XML: only reportable for clean strict loads
            if strict {
                out.fail("c01.loaded-not-wellformed", i, mode, tag, &format!("reader={}", why.replace(' ', "_")));
            }
        }
    }
    // ---- load -> serialize -> load is the identity, serialize again is byte-identical
    let (d1, _) = dump_loaded(l);
    match serialize(l) {
        Err(w) => out.fail("c01.serialize-failed", i, mode, tag, &w),
        Ok(text) => match load(text.as_bytes(), strict) {
            LoadResult::Panic(s) => out.fail("c01.reload-panic", i, mode, tag, &format!("site={}", s)),
            LoadResult::Err(e) => out.fail("c01.reload-failed", i, mode, tag, &format!("error={} first-load-warnings={}", err_str(&e).replace(' ', "_"), l.warnings.len())),
            LoadResult::Ok(l2) => {
                out.count("roundtrips");
                let (d2, _) = dump_loaded(&l2);
                let (d1, d2) = (norm_schema_location(&d1), norm_schema_location(&d2));
                if d1 != d2 {
                    out.fail("c01.roundtrip-tree-differs", i, mode, tag, &first_diff(&d1, &d2));
                }
                match serialize(&l2) {
                    Ok(t2) => {
                        if t2 != text {
                            let k = text.bytes().zip(t2.bytes()).position(|(a, b)| a != b).unwrap_or(text.len().min(t2.len()));
                            let lo = k.saturating_sub(24);
                            out.fail(
                                "c01.roundtrip-bytes-differ",
                                i,
                                mode,
                                tag,
                                &format!("offset={} text1={} text2={}", k, hex(&text.as_bytes()[lo..(k + 24).min(text.len())]), hex(&t2.as_bytes()[lo..(k + 24).min(t2.len())])),
                            );
                        }
                    }
                    Err(w) => out.fail("c01.serialize-failed", i, mode, tag, &format!("second {}", w)),
                }
            }
        },
    }
}

/// xml oracle <cases> <c01,c02,c08>  [--only i]
pub fn main(args: &[String]) {
    let cases = read_cases(&args[0]);
    let sets: Vec<&str> = args[1].split(',').collect();
    let only: i64 = args.iter().position(|a| a == "--only").map(|p| args[p + 1].parse().unwrap()).unwrap_or(-1);
    let mut out = Out { fails: 0, stats: Default::default() };
    let mut seen: std::collections::HashSet<u64> = Default::default();
    for (i, (_, bytes, tag)) in cases.iter().enumerate() {
        if only >= 0 && only as usize != i {
            continue;
        }
        // a case file lists each input for both modes; the oracles evaluate per distinct input
        let key = fnv(bytes) ^ fnv(tag.as_bytes()).rotate_left(17);
        if !seen.insert(key) {
            continue;
        }
        out.count("inputs");
        wd_enter(i as u64);
        let s = load(bytes, true);
        let l = load(bytes, false);
        out.count(&format!("strict.{}", match &s { LoadResult::Ok(_) => "ok", LoadResult::Err(_) => "err", LoadResult::Panic(_) => "panic" }));
        out.count(&format!(
            "lenient.{}",
            match &l {
                LoadResult::Ok(x) =>
                    if x.warnings.is_empty() {
                        "ok"
                    } else {
                        "ok+warnings"
                    },
                LoadResult::Err(_) => "err",
                LoadResult::Panic(_) => "panic",
            }
        ));
        if sets.contains(&"c02") {
            c02(&mut out, i, bytes, tag, &s, &l);
        }
        if sets.contains(&"c08") {
            c08(&mut out, i, tag, &s, &l);
        }
        if sets.contains(&"c01") {
            c01(&mut out, i, bytes, tag, "s", &s);
            c01(&mut out, i, bytes, tag, "l", &l);
        }
        wd_leave();
    }
    for (k, v) in out.stats.iter() {
        println!("STAT {} {}", k, v);
    }
    println!("STAT fails {}", out.fails);
}

/// xml exhoracle <maxlen> <prefixhex|-> <shard> <nshards> <sets> : the oracles on every string over the token alphabet
pub fn exh_main(args: &[String]) {
    let maxlen: u32 = args[0].parse().unwrap();
    let prefix = if args[1] == "-" { Vec::new() } else { unhex(&args[1]) };
    let (sk, sn): (u64, u64) = (args[2].parse().unwrap(), args[3].parse().unwrap());
    let sets: Vec<&str> = args[4].split(',').collect();
    let mut out = Out { fails: 0, stats: Default::default() };
    let total = exh_count(maxlen);
    let mut c = sk;
    while c < total {
        let mut b = prefix.clone();
        b.extend_from_slice(&exh_string(c));
        out.count("inputs");
        wd_enter(c);
        let s = load(&b, true);
        let l = load(&b, false);
        if sets.contains(&"c02") {
            c02(&mut out, c as usize, &b, "exh", &s, &l);
        }
        if sets.contains(&"c08") {
            c08(&mut out, c as usize, "exh", &s, &l);
        }
        wd_leave();
        c += sn;
    }
    for (k, v) in out.stats.iter() {
        println!("STAT {} {}", k, v);
    }
    println!("STAT fails {}", out.fails);
}

// ------------------------------------------------------------------------------------------------ multi-file sequences (C01)
/// tree part of a dump (elements, attributes, character data) with the root's schemaLocation normalised; the version is compared separately
fn tree_part(d: &str) -> String {
    let n = norm_schema_location(d);
    let mut out = String::new();
    for l in n.lines() {
        if l.starts_with("V ") {
            break;
        }
        out.push_str(l);
        out.push('\n');
    }
    out
}

/// serialize `file` of `model`, load the text strictly into a fresh model: the version must be the file's version; returns the reloaded dump
fn reload_of(file: &ArxmlFile, what: &str) -> Result<String, String> {
    let want = file.version();
    let text = match guard(|| file.serialize()) {
        Ok(Ok(t)) => t,
        Ok(Err(e)) => return Err(format!("what={} serialize-failed={}", what, err_str(&e).replace(' ', "_"))),
        Err(_) => return Err(format!("what={} serialize-panic site={}", what, last_panic_site())),
    };
    match load(text.as_bytes(), true) {
        LoadResult::Ok(l2) => {
            if l2.file.version() != want {
                let head: String = text.chars().skip_while(|c| *c != '\n').skip(1).take(140).collect();
                return Err(format!(
                    "what={} version-after-reload={} file.version()={} written-root=[{}]",
                    what,
                    l2.file.version().filename(),
                    want.filename(),
                    head.replace(' ', "_")
                ));
            }
            Ok(dump_loaded(&l2).0)
        }
        LoadResult::Err(e) => Err(format!("what={} strict-reload-failed={} file.version()={}", what, err_str(&e).replace(' ', "_"), want.filename())),
        LoadResult::Panic(s) => Err(format!("what={} reload-panic site={}", what, s)),
    }
}

/// xml multifile <cases> <npairs> [--pair i j]
/// Sequences over two strictly loadable documents a (version v1) and b (version v2 != v1) in ONE model:
///   S1  load a, load b, serialize both              -> each text re-loads strictly with its file's version
///   S2  load a, load b, remove_file(a), serialize b -> re-loads strictly as version v2 with the tree the model holds
///   S3  load a, load b, a.set_version(v2) (if compatible), serialize both -> each re-loads with its file's version
/// (implementation only; the Coq model is single-file)
pub fn multifile_main(args: &[String]) {
    let cases = read_cases(&args[0]);
    let npairs: usize = args[1].parse().unwrap();
    let only: Option<(usize, usize)> = args.iter().position(|a| a == "--pair").map(|p| (args[p + 1].parse().unwrap(), args[p + 2].parse().unwrap()));
    let mut out = Out { fails: 0, stats: Default::default() };
    // distinct strictly loadable plain documents with their version
    let mut docs: Vec<(usize, AutosarVersion)> = Vec::new();
    let mut seen: std::collections::HashSet<u64> = Default::default();
    for (i, (_, bytes, tag)) in cases.iter().enumerate() {
        if only.is_none() && tag != "valid" {
            continue;
        }
        if !seen.insert(fnv(bytes)) {
            continue;
        }
        if let LoadResult::Ok(l) = load(bytes, true) {
            // C01's multi-file clause is about files that split the model where AUTOSAR files are meant to be split: both documents
            // carry only AR-PACKAGES under the root (package names are unique per generator run).  Two files that both define
            // non-splittable root content (ADMIN-DATA, INTRODUCTION, ...) with different values are a merge conflict, which is C09's subject.
            let only_packages = only.is_some() || l.model.root_element().sub_elements().all(|e| e.element_name() == ElementName::ArPackages);
            if only_packages {
                docs.push((i, l.file.version()));
            } else {
                out.count("documents-with-other-root-content-not-paired");
            }
        }
    }
    let mut pairs: Vec<(usize, usize)> = Vec::new();
    if let Some((i, j)) = only {
        pairs.push((i, j));
    } else {
        let n = docs.len();
        let mut k = 0usize;
        while pairs.len() < npairs && k < n * 4 && n > 1 {
            let a = (k * 7) % n;
            let b = (k * 7 + 1 + (k * 13) % (n - 1)) % n;
            k += 1;
            if docs[a].1 != docs[b].1 {
                pairs.push((docs[a].0, docs[b].0));
            }
        }
    }
    for (ia, ib) in pairs {
        let (a, b) = (&cases[ia].1, &cases[ib].1);
        out.count("pairs");
        wd_enter(ia as u64);
        for seq in ["S1", "S2", "S3"] {
            let r = guard(|| -> Result<&'static str, String> {
                let model = AutosarModel::new();
                let (fa, _) = model.load_buffer(a, "a.arxml", true).map_err(|e| format!("skip:load-a:{}", err_str(&e)))?;
                let (fb, _) = match model.load_buffer(b, "b.arxml", true) {
                    Ok(x) => x,
                    Err(_) => return Ok("merge-rejected"),
                };
                match seq {
                    "S1" => {
                        reload_of(&fa, "S1:serialize-a-of-two")?;
                        reload_of(&fb, "S1:serialize-b-of-two")?;
                    }
                    "S2" => {
                        model.remove_file(&fa);
                        let cur = Loaded { model: model.clone(), file: fb.clone(), warnings: Vec::new() };
                        let d_model = dump_loaded(&cur).0;
                        let d_re = reload_of(&fb, "S2:remove-a-serialize-b")?;
                        if tree_part(&d_model) != tree_part(&d_re) {
                            return Err(format!("what=S2:tree-after-reload-differs {}", first_diff(&tree_part(&d_model), &tree_part(&d_re))));
                        }
                    }
                    _ => {
                        if fa.set_version(fb.version()).is_err() {
                            return Ok("set_version-incompatible");
                        }
                        reload_of(&fa, "S3:set_version-a-serialize-a")?;
                        reload_of(&fb, "S3:set_version-a-serialize-b")?;
                    }
                }
                Ok("ok")
            });
            match r {
                Ok(Ok(k)) => out.count(&format!("{}.{}", seq, k)),
                Ok(Err(m)) => {
                    if m.starts_with("skip:") {
                        out.count(&format!("{}.skipped", seq));
                    } else {
                        out.fail("c01.multifile", ia, "s", &format!("pair={},{}", ia, ib), &m);
                    }
                }
                Err(_) => out.fail("c01.multifile", ia, "s", &format!("pair={},{}", ia, ib), &format!("what={}:panic site={}", seq, last_panic_site())),
            }
        }
        wd_leave();
    }
    for (k, v) in out.stats.iter() {
        println!("STAT {} {}", k, v);
    }
    println!("STAT fails {}", out.fails);
}
