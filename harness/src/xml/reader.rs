//! An INDEPENDENT minimal XML reader, written from the XML 1.0 grammar (not from lexer.rs):
//! document ::= BOM? Misc* element Misc*;  Misc ::= Comment | PI | S;  element ::= EmptyElemTag | STag content ETag;
//! attributes in either quote style, whitespace allowed around '=' and before '>' / '/>';
//! text with the five predefined entities and decimal / hexadecimal character references.
//! (No DOCTYPE, no CDATA sections: the generators do not produce them.)

#[derive(Debug, Clone)]
pub enum Item {
    Elem(Node),
    Text(Vec<u8>),    // raw text between markup, NOT yet decoded
    Comment(Vec<u8>), // text between <!-- and -->
}

#[derive(Debug, Clone)]
pub struct Node {
    pub name: Vec<u8>,
    pub attrs: Vec<(Vec<u8>, Vec<u8>)>, // raw values, NOT yet decoded
    pub items: Vec<Item>,
}

#[derive(Debug)]
pub struct Doc {
    pub standalone: Option<Vec<u8>>,
    pub prolog_comments: Vec<Vec<u8>>,
    pub root: Node,
    pub trailing: usize, // number of comments / PIs after the root
}

pub fn is_xml_ws(c: u8) -> bool {
    c == b' ' || c == b'\t' || c == b'\r' || c == b'\n'
}

pub fn trim_xml_ws(s: &[u8]) -> &[u8] {
    let mut a = 0;
    let mut b = s.len();
    while a < b && is_xml_ws(s[a]) {
        a += 1;
    }
    while b > a && is_xml_ws(s[b - 1]) {
        b -= 1;
    }
    &s[a..b]
}

/// decode entity and character references; Err on anything that is not a well-formed reference
pub fn decode(raw: &[u8]) -> Result<Vec<u8>, String> {
    let mut out = Vec::with_capacity(raw.len());
    let mut i = 0;
    while i < raw.len() {
        if raw[i] != b'&' {
            out.push(raw[i]);
            i += 1;
            continue;
        }
        let end = match raw[i..].iter().position(|c| *c == b';') {
            Some(e) => i + e,
            None => return Err("reference without ';'".into()),
        };
        let body = &raw[i + 1..end];
        match body {
            b"lt" => out.push(b'<'),
            b"gt" => out.push(b'>'),
            b"amp" => out.push(b'&'),
            b"apos" => out.push(b'\''),
            b"quot" => out.push(b'"'),
            _ => {
                if body.len() >= 2 && body[0] == b'#' {
                    let (digits, radix) = if body[1] == b'x' { (&body[2..], 16u32) } else { (&body[1..], 10u32) };
                    if digits.is_empty() {
                        return Err("empty character reference".into());
                    }
                    let mut v: u32 = 0;
                    for d in digits {
                        let dv = match (*d as char).to_digit(radix) {
                            Some(x) => x,
                            None => return Err("bad digit in character reference".into()),
                        };
                        v = match v.checked_mul(radix).and_then(|x| x.checked_add(dv)) {
                            Some(x) if x <= 0x10FFFF => x,
                            _ => return Err("character reference out of range".into()),
                        };
                    }
                    match char::from_u32(v) {
                        Some(ch) => {
                            let mut buf = [0u8; 4];
                            out.extend_from_slice(ch.encode_utf8(&mut buf).as_bytes());
                        }
                        None => return Err("character reference is a surrogate".into()),
                    }
                } else {
                    return Err(format!("unknown entity &{};", String::from_utf8_lossy(body)));
                }
            }
        }
        i = end + 1;
    }
    Ok(out)
}

struct P<'a> {
    b: &'a [u8],
    i: usize,
}

impl<'a> P<'a> {
    fn starts(&self, s: &[u8]) -> bool {
        self.b[self.i..].starts_with(s)
    }
    fn skip_ws(&mut self) {
        while self.i < self.b.len() && is_xml_ws(self.b[self.i]) {
            self.i += 1;
        }
    }
    fn find(&self, s: &[u8]) -> Option<usize> {
        let hay = &self.b[self.i..];
        if s.len() > hay.len() {
            return None;
        }
        (0..=hay.len() - s.len()).find(|k| &hay[*k..*k + s.len()] == s).map(|k| self.i + k)
    }
    fn name(&mut self) -> Vec<u8> {
        let st = self.i;
        while self.i < self.b.len() && !is_xml_ws(self.b[self.i]) && !matches!(self.b[self.i], b'>' | b'/' | b'=' | b'<') {
            self.i += 1;
        }
        self.b[st..self.i].to_vec()
    }
    fn comment(&mut self) -> Result<Vec<u8>, String> {
        // at "<!--"
        self.i += 4;
        let e = self.find(b"-->").ok_or("unterminated comment")?;
        let c = self.b[self.i..e].to_vec();
        self.i = e + 3;
        Ok(c)
    }
    fn pi(&mut self) -> Result<Vec<u8>, String> {
        // at "<?"
        self.i += 2;
        let e = self.find(b"?>").ok_or("unterminated processing instruction")?;
        let c = self.b[self.i..e].to_vec();
        self.i = e + 2;
        Ok(c)
    }
    /// at '<' of a start tag
    fn element(&mut self, depth: usize) -> Result<Node, String> {
        if depth > 5000 {
            return Err("too deep for the reference reader".into());
        }
        self.i += 1;
        let name = self.name();
        if name.is_empty() {
            return Err("empty element name".into());
        }
        let mut attrs = Vec::new();
        loop {
            let before = self.i;
            self.skip_ws();
            if self.i >= self.b.len() {
                return Err("unterminated start tag".into());
            }
            if self.starts(b"/>") {
                self.i += 2;
                return Ok(Node { name, attrs, items: Vec::new() });
            }
            if self.b[self.i] == b'>' {
                self.i += 1;
                break;
            }
            if self.i == before {
                return Err("attributes must be separated by whitespace".into());
            }
            let an = self.name();
            if an.is_empty() {
                return Err("empty attribute name".into());
            }
            self.skip_ws();
            if self.i >= self.b.len() || self.b[self.i] != b'=' {
                return Err("attribute without '='".into());
            }
            self.i += 1;
            self.skip_ws();
            if self.i >= self.b.len() || (self.b[self.i] != b'"' && self.b[self.i] != b'\'') {
                return Err("attribute value not quoted".into());
            }
            let q = self.b[self.i];
            self.i += 1;
            let st = self.i;
            while self.i < self.b.len() && self.b[self.i] != q {
                if self.b[self.i] == b'<' {
                    return Err("'<' in attribute value".into());
                }
                self.i += 1;
            }
            if self.i >= self.b.len() {
                return Err("unterminated attribute value".into());
            }
            attrs.push((an, self.b[st..self.i].to_vec()));
            self.i += 1;
        }
        // content
        let mut items = Vec::new();
        loop {
            if self.i >= self.b.len() {
                return Err("unterminated element".into());
            }
            if self.starts(b"<!--") {
                items.push(Item::Comment(self.comment()?));
            } else if self.starts(b"<?") {
                self.pi()?;
            } else if self.starts(b"</") {
                self.i += 2;
                let en = self.name();
                self.skip_ws();
                if self.i >= self.b.len() || self.b[self.i] != b'>' {
                    return Err("malformed end tag".into());
                }
                self.i += 1;
                if en != name {
                    return Err("mismatched end tag".into());
                }
                return Ok(Node { name, attrs, items });
            } else if self.b[self.i] == b'<' {
                items.push(Item::Elem(self.element(depth + 1)?));
            } else {
                let st = self.i;
                while self.i < self.b.len() && self.b[self.i] != b'<' {
                    self.i += 1;
                }
                items.push(Item::Text(self.b[st..self.i].to_vec()));
            }
        }
    }
}

pub fn read(bytes: &[u8]) -> Result<Doc, String> {
    let mut p = P { b: bytes, i: 0 };
    if p.starts(&[0xEF, 0xBB, 0xBF]) {
        p.i = 3;
    }
    let mut standalone = None;
    let mut prolog_comments = Vec::new();
    // prolog
    loop {
        p.skip_ws();
        if p.i >= p.b.len() {
            return Err("no root element".into());
        }
        if p.starts(b"<!--") {
            prolog_comments.push(p.comment()?);
        } else if p.starts(b"<?") {
            let body = p.pi()?;
            if body.starts_with(b"xml") && body.len() > 3 && is_xml_ws(body[3]) {
                // XMLDecl pseudo-attributes: S Name S? '=' S? quoted
                let mut k = 3;
                loop {
                    while k < body.len() && is_xml_ws(body[k]) {
                        k += 1;
                    }
                    let ns = k;
                    while k < body.len() && !is_xml_ws(body[k]) && body[k] != b'=' {
                        k += 1;
                    }
                    if k == ns {
                        break;
                    }
                    let name = &body[ns..k];
                    while k < body.len() && is_xml_ws(body[k]) {
                        k += 1;
                    }
                    if k >= body.len() || body[k] != b'=' {
                        break;
                    }
                    k += 1;
                    while k < body.len() && is_xml_ws(body[k]) {
                        k += 1;
                    }
                    if k >= body.len() || (body[k] != b'"' && body[k] != b'\'') {
                        break;
                    }
                    let q = body[k];
                    let vs = k + 1;
                    match body[vs..].iter().position(|c| *c == q) {
                        Some(e) => {
                            if name == b"standalone" {
                                standalone = Some(body[vs..vs + e].to_vec());
                            }
                            k = vs + e + 1;
                        }
                        None => break,
                    }
                }
            }
        } else if p.b[p.i] == b'<' {
            break;
        } else {
            return Err("text before the root element".into());
        }
    }
    let root = p.element(0)?;
    let mut trailing = 0;
    loop {
        p.skip_ws();
        if p.i >= p.b.len() {
            break;
        }
        if p.starts(b"<!--") {
            p.comment()?;
            trailing += 1;
        } else if p.starts(b"<?") {
            p.pi()?;
            trailing += 1;
        } else {
            return Err("data after the root element".into());
        }
    }
    Ok(Doc { standalone, prolog_comments, root, trailing })
}
