//! Generators for the loader / writer checks, all driven by the REAL specification API
//! (ElementType::ROOT, sub_element_spec_iter, find_sub_element, attribute_spec_iter, chardata_spec):
//!  * specification-walking documents for all 21 AutosarVersion values: BFS chains from the root to a target type,
//!    random valid subtrees, values per character-data kind, mixed content, comments, both quote styles,
//!    <E/> vs <E></E>, CRLF, BOM, standalone, extra whitespace  (tag `valid`, plus the `valid:*` classes that are
//!    valid XML / valid AUTOSAR but known to be handled unfaithfully);
//!  * a defect injector (tag `x=<class>`: the document violates a documented constraint);
//!  * a byte / token mutator (tag `mut:<op>`).
//! Everything is deterministic from the seed.
use crate::spec::et_ids;
use crate::util::*;
use autosar_data_specification::*;
use std::collections::{BTreeMap, HashMap, VecDeque};
use std::io::Write;

#[derive(Clone, Debug, PartialEq)]
pub enum TKind {
    Plain, // enum / pattern / number: only the mandatory escapes
    Str,   // string: any mix of literal characters, predefined entities and character references
}

#[derive(Clone, Debug)]
pub struct GText {
    pub logical: Vec<u8>,
    pub kind: TKind,
    pub lead: Vec<u8>,
    pub trail: Vec<u8>,
    pub raw: Option<Vec<u8>>, // verbatim replacement (defects)
}

impl GText {
    fn plain(s: &[u8]) -> GText {
        GText { logical: s.to_vec(), kind: TKind::Plain, lead: vec![], trail: vec![], raw: None }
    }
    fn raw(s: &[u8]) -> GText {
        GText { logical: vec![], kind: TKind::Plain, lead: vec![], trail: vec![], raw: Some(s.to_vec()) }
    }
}

#[derive(Clone, Debug)]
pub enum GItem {
    Node(GNode),
    Text(GText),
    Comment(Vec<u8>),
    Raw(Vec<u8>),
}

#[derive(Clone, Debug)]
pub struct GNode {
    pub name: String,
    pub attrs: Vec<(String, GText)>,
    pub items: Vec<GItem>,
    pub et: Option<ElementType>,
}

#[derive(Clone)]
pub struct Style {
    sep: u8,          // 0 none, 1 LF+indent, 2 CRLF+indent, 3 single space
    bom: bool,
    standalone: u8,   // 0 absent, 1 yes, 2 no
    header: u8,       // header variant
    tagspace: bool,   // extra whitespace inside tags
    empty_long: u8,   // 0 <E/>, 1 <E></E>, 2 random per element
    refs: bool,       // character references / entity variety in strings
    prolog_comment: bool,
    final_newline: bool,
}

pub struct Chains {
    parent: HashMap<(u32, u32), ((u32, u32), ElementName)>,
    order: Vec<ElementType>,
}

pub fn chains_for(v: AutosarVersion) -> Chains {
    let vm = v as u32;
    let mut parent = HashMap::new();
    let mut order = Vec::new();
    let mut seen: HashMap<(u32, u32), ()> = HashMap::new();
    let mut q = VecDeque::new();
    q.push_back(ElementType::ROOT);
    seen.insert(et_ids(&ElementType::ROOT), ());
    while let Some(t) = q.pop_front() {
        order.push(t);
        let tid = et_ids(&t);
        let mut names_done: Vec<ElementName> = Vec::new();
        for (name, _ct, mask, _) in t.sub_element_spec_iter() {
            if mask & vm == 0 || names_done.contains(&name) {
                continue;
            }
            names_done.push(name);
            if let Some((ct, idx)) = t.find_sub_element(name, vm) {
                // a chain step t -> child is only usable if the document stays valid: an identifiable t needs its SHORT-NAME in
                // front of the child, and in a few types (e.g. DIAG-EVENT-DEBOUNCE-ALGORITHM in 4.0.1) SHORT-NAME and the child are
                // alternatives of one Choice group, so the parser reports ElementChoiceConflict for the pair
                if name != ElementName::ShortName && t.is_named_in_version(v) {
                    if let Some((_, sn_idx)) = t.find_sub_element(ElementName::ShortName, vm) {
                        let conflict = sn_idx != idx && guard(|| t.find_common_group(&sn_idx, &idx).content_mode() == ContentMode::Choice).unwrap_or(true);
                        if conflict {
                            continue;
                        }
                    }
                }
                let id = et_ids(&ct);
                if !seen.contains_key(&id) {
                    seen.insert(id, ());
                    parent.insert(id, (tid, name));
                    q.push_back(ct);
                }
            }
        }
    }
    Chains { parent, order }
}

pub struct Members {
    by_text: HashMap<String, Vec<Vec<u8>>>,
}

pub fn load_members(dump: &str, corpus: &str) -> Members {
    let mut texts: HashMap<u32, String> = HashMap::new();
    for l in read_lines(&format!("{}/regex_texts.txt", dump)) {
        if let Some(i) = l.find(' ') {
            texts.insert(l[..i].parse().unwrap(), l[i + 1..].to_string());
        }
    }
    let mut by_text: HashMap<String, Vec<Vec<u8>>> = HashMap::new();
    for l in read_lines(corpus) {
        if let Some(i) = l.find(' ') {
            if let Ok(n) = l[..i].parse::<u32>() {
                if let Some(t) = texts.get(&n) {
                    by_text.entry(t.clone()).or_default().push(l[i + 1..].as_bytes().to_vec());
                }
            }
        }
    }
    Members { by_text }
}

const GENERIC: &[&str] = &[
    "a", "A", "Ab_1", "abc", "a-b", "x1", "1", "0", "12", "+5", "-7", "0x1F", "1.0.0", "/a/b", "true", "2020-01-01", "%d", "00:11:22:33:44:55", "ANY",
];

pub struct G<'a> {
    pub rng: SplitMix64,
    members: &'a Members,
    counter: u64,
    fcur: usize,
    ucur: usize,
    tcur: usize,
    pub stats: BTreeMap<String, u64>,
    pub types_seen: HashMap<(u32, u32), ()>,
    v: AutosarVersion,
    budget: i64,
}

impl<'a> G<'a> {
    pub fn new(seed: u64, members: &'a Members) -> Self {
        G { rng: SplitMix64(seed), members, counter: 0, fcur: 0, ucur: 0, tcur: 0, stats: BTreeMap::new(), types_seen: HashMap::new(), v: AutosarVersion::LATEST, budget: 0 }
    }
    fn chance(&mut self, pct: u64) -> bool {
        self.rng.below(100) < pct
    }
    fn stat(&mut self, k: &str) {
        *self.stats.entry(k.to_string()).or_insert(0) += 1;
    }
    fn vm(&self) -> u32 {
        self.v as u32
    }

    fn ws(&mut self) -> Vec<u8> {
        match self.rng.below(5) {
            0 => b" ".to_vec(),
            1 => b"\n".to_vec(),
            2 => b"\t ".to_vec(),
            3 => b"\n    ".to_vec(),
            _ => b"  ".to_vec(),
        }
    }

    fn unique_name(&mut self) -> Vec<u8> {
        self.counter += 1;
        let mut s = format!("n{}", self.counter).into_bytes();
        match self.rng.below(10) {
            0 => s.extend_from_slice(b"_Long_Name_With_Parts_0123456789"),
            1 => {
                while s.len() < 128 {
                    s.push(b"abcXYZ_019"[self.rng.below(10) as usize]);
                }
            }
            2 => s.push(b'_'),
            _ => {}
        }
        s
    }

    fn pattern_value(&mut self, check_fn: fn(&[u8]) -> bool, regex: &str, max_length: Option<usize>) -> Option<Vec<u8>> {
        let fits = |s: &[u8]| check_fn(s) && max_length.map(|m| s.len() <= m).unwrap_or(true) && !s.iter().any(|c| matches!(c, b'&' | b'<' | b'>' | b'"' | b'\''));
        let mut cands: Vec<Vec<u8>> = self.members.by_text.get(regex).cloned().unwrap_or_default();
        for g in GENERIC {
            cands.push(g.as_bytes().to_vec());
        }
        let cands: Vec<Vec<u8>> = cands.into_iter().filter(|c| fits(c)).collect();
        if cands.is_empty() {
            return None;
        }
        let base = cands[self.rng.below(cands.len() as u64) as usize].clone();
        // grow: duplicate / append characters of the member while it stays a member
        let mut cur = base;
        for _ in 0..self.rng.below(4) {
            if cur.is_empty() {
                break;
            }
            let k = self.rng.below(cur.len() as u64) as usize;
            let mut n = cur.clone();
            n.insert(k, cur[k]);
            if fits(&n) {
                cur = n;
            }
        }
        Some(cur)
    }

    fn string_value(&mut self, preserve: bool) -> Vec<u8> {
        const WORDS: &[&str] = &[
            "alpha", "Beta", "x", "value 1", "a & b", "1 < 2", "2 > 1", "it's", "say \"hi\"", "<tag>", "&amp;", "&#65;", "caf\u{e9}", "\u{65e5}\u{672c}\u{8a9e}",
            "\u{1F600}", "a;b", "#", "=", "-->", "<!--", "]]>", "?>", "100%", "tab\there", "", "A", "&", "<", ">", "'", "\"", "& lt;", "mixed &<>'\" all",
        ];
        let n = 1 + self.rng.below(3);
        let mut s: Vec<u8> = Vec::new();
        for i in 0..n {
            if i > 0 {
                s.push(b' ');
            }
            s.extend_from_slice(WORDS[self.rng.below(WORDS.len() as u64) as usize].as_bytes());
        }
        if preserve {
            if self.chance(50) {
                let mut p = match self.rng.below(3) {
                    0 => b" ".to_vec(),
                    1 => b"\n  ".to_vec(),
                    _ => b"\t".to_vec(),
                };
                p.extend_from_slice(&s);
                s = p;
            }
            if self.chance(50) {
                s.extend_from_slice(if self.chance(50) { b"  " } else { b"\n" });
            }
            if self.chance(20) {
                s.extend_from_slice(b"line1\nline2");
            }
            if s.iter().all(|c| c.is_ascii_whitespace()) {
                s.extend_from_slice(b"p");
            }
        } else {
            while s.first().map(|c| c.is_ascii_whitespace()).unwrap_or(false) {
                s.remove(0);
            }
            while s.last().map(|c| c.is_ascii_whitespace()).unwrap_or(false) {
                s.pop();
            }
        }
        s
    }

    /// a string value with a non-ASCII white-space character (or, as controls, U+FEFF / U+200B, which are not White_Space)
    /// at its first / last / both / an inner position, written literally (UTF-8) or as a decimal / hexadecimal character
    /// reference.  Only ASCII blanks are insignificant at the edges of a value; all of these are part of the value.
    /// Round-robin over (character, position, form) so that every combination occurs.
    fn unicode_edge_value(&mut self) -> GText {
        const CH: &[u32] = &[
            0xA0, 0x1680, 0x2000, 0x2001, 0x2002, 0x2003, 0x2004, 0x2005, 0x2006, 0x2007, 0x2008, 0x2009, 0x200A, 0x2028, 0x2029, 0x202F, 0x205F, 0x3000, 0x85, 0xFEFF, 0x200B,
        ];
        const W: &[&str] = &["km/h", "in", "x y", "(x)", "value", "a", "1.5 m"];
        let k = self.ucur;
        self.ucur += 1;
        let c = CH[k % CH.len()];
        let pos = (k / CH.len()) % 4; // 0 first, 1 last, 2 both, 3 inner
        let form = (k / (CH.len() * 4)) % 3; // 0 literal, 1 decimal, 2 hex
        let enc = |c: u32| -> Vec<u8> {
            match form {
                0 => char::from_u32(c).unwrap().to_string().into_bytes(),
                1 => format!("&#{};", c).into_bytes(),
                _ => format!("&#x{:X};", c).into_bytes(),
            }
        };
        let w = W[self.rng.below(W.len() as u64) as usize].as_bytes();
        let mut raw = Vec::new();
        match pos {
            0 => {
                raw.extend_from_slice(&enc(c));
                raw.extend_from_slice(w);
            }
            1 => {
                raw.extend_from_slice(w);
                raw.extend_from_slice(&enc(c));
            }
            2 => {
                raw.extend_from_slice(&enc(c));
                raw.extend_from_slice(w);
                raw.extend_from_slice(&enc(CH[(k + 7) % CH.len()]));
            }
            _ => {
                raw.extend_from_slice(w);
                raw.extend_from_slice(&enc(c));
                raw.extend_from_slice(w);
            }
        }
        self.stat(&format!("unicode-edge.{}.{}", ["first", "last", "both", "inner"][pos], ["literal", "decimal-ref", "hex-ref"][form]));
        self.stat(&format!("unicode-edge.U+{:04X}", c));
        GText::raw(&raw)
    }

    /// a valid value for the spec in the current version (None: the spec has no value valid in this version)
    pub fn gen_value(&mut self, spec: &CharacterDataSpec) -> Option<GText> {
        let mut t = match spec {
            CharacterDataSpec::Enum { items } => {
                let vm = self.vm();
                let ok: Vec<&(EnumItem, u32)> = items.iter().filter(|(_, m)| m & vm != 0).collect();
                if ok.is_empty() {
                    return None;
                }
                self.stat("value.enum");
                GText::plain(ok[self.rng.below(ok.len() as u64) as usize].0.to_str().as_bytes())
            }
            CharacterDataSpec::Pattern { check_fn, regex, max_length } => {
                let v = self.pattern_value(*check_fn, regex, *max_length)?;
                self.stat("value.pattern");
                GText::plain(&v)
            }
            CharacterDataSpec::String { preserve_whitespace, .. } => {
                self.stat(if *preserve_whitespace { "value.string-preserve" } else { "value.string" });
                if self.chance(if *preserve_whitespace { 30 } else { 10 }) {
                    return Some(self.unicode_edge_value());
                }
                let s = self.string_value(*preserve_whitespace);
                return Some(GText { logical: s, kind: TKind::Str, lead: vec![], trail: vec![], raw: None });
            }
            CharacterDataSpec::UnsignedInteger => {
                self.stat("value.uint");
                const U: &[&str] = &["0", "1", "42", "18446744073709551615", "+7", "007", "4294967296", "9223372036854775808"];
                if self.chance(40) {
                    GText::plain(self.rng.next().to_string().as_bytes())
                } else {
                    GText::plain(U[self.rng.below(U.len() as u64) as usize].as_bytes())
                }
            }
            CharacterDataSpec::Float => {
                self.stat("value.float");
                // the special values of f64 in every spelling str::parse::<f64> takes, handed out ROUND-ROBIN so that each of them
                // occurs in every run (sign of infinity and of zero, overflow to infinity, smallest subnormal, min normal, ...);
                // "-nan" is left out: NaN has no sign in xsd:double and f64::to_string prints NaN for both
                const F: &[&str] = &[
                    "INF", "-INF", "+INF", "inf", "-inf", "+inf", "infinity", "-Infinity", "NaN", "nan", "-0", "-0.0", "0.0", "0", "+0", "-0e0", "1e400", "-1e400", "4.9e-324",
                    "-4.9e-324", "5e-324", "2.2250738585072014e-308", "2.225073858507201e-308", "1e-320", "-1e-310", "1e-400", "-1e-400", "1.7976931348623157e308",
                    "-1.7976931348623157e308", "1.5", "1e10", "-1.25E-3", ".5", "5.", "0.1", "+3.0", "123456789012345678901234567890", "0.30000000000000004",
                    "9007199254740993", "1e23", "8.41e21", "-1", "1E+2", "1e-7", "1e21", "1e-5", "100000000000000000000",
                ];
                let r = self.rng.below(100);
                if r < 25 {
                    let bits = self.rng.next();
                    let f = f64::from_bits(bits);
                    if f.is_nan() {
                        GText::plain(b"NaN")
                    } else {
                        GText::plain(format!("{:e}", f).as_bytes())
                    }
                } else if r < 85 {
                    let k = self.fcur % F.len();
                    self.fcur += 1;
                    self.stat(&format!("float-special.{}", F[k]));
                    GText::plain(F[k].as_bytes())
                } else {
                    GText::plain(F[self.rng.below(F.len() as u64) as usize].as_bytes())
                }
            }
        };
        // insignificant whitespace around a non-preserved value
        if self.chance(15) {
            t.lead = self.ws();
        }
        if self.chance(15) {
            t.trail = self.ws();
        }
        Some(t)
    }

    fn gen_attrs(&mut self, t: ElementType) -> Vec<(String, GText)> {
        let mut out = Vec::new();
        let specs: Vec<(AttributeName, &CharacterDataSpec, bool)> = t.attribute_spec_iter().collect();
        for (name, spec, required) in specs {
            let inver = t.find_attribute_spec(name).map(|s| s.version & self.vm() != 0).unwrap_or(false);
            if !inver {
                continue;
            }
            if required || self.chance(30) {
                if let Some(mut v) = self.gen_value(spec) {
                    // the raw text of an attribute value must not contain a line feed if preserved exactly? it may: keep
                    if v.logical.contains(&b'\t') && v.kind == TKind::Str {
                        // literal tabs / newlines in attribute values are normalised by conforming XML readers: avoid
                        v.logical.retain(|c| *c != b'\t' && *c != b'\n');
                        if v.logical.is_empty() {
                            v.logical = b"v".to_vec();
                        }
                    }
                    v.lead.retain(|c| *c == b' ');
                    v.trail.retain(|c| *c == b' ');
                    self.stat("attribute");
                    out.push((name.to_str().to_string(), v));
                }
            }
        }
        out
    }

    fn short_name_node(&mut self, t: ElementType) -> Option<GNode> {
        let (ct, _) = t.find_sub_element(ElementName::ShortName, self.vm())?;
        let name = self.unique_name();
        let ok = match ct.chardata_spec() {
            Some(CharacterDataSpec::Pattern { check_fn, max_length, .. }) => check_fn(&name) && max_length.map(|m| name.len() <= m).unwrap_or(true),
            _ => true,
        };
        let name = if ok { name } else { format!("n{}", self.counter).into_bytes() };
        Some(GNode { name: "SHORT-NAME".into(), attrs: vec![], items: vec![GItem::Text(GText::plain(&name))], et: Some(ct) })
    }

    /// a random valid element of type t (children chosen with the same lookups the parser uses)
    pub fn gen_elem(&mut self, name: ElementName, t: ElementType, depth: u32) -> GNode {
        self.budget -= 1;
        self.types_seen.insert(et_ids(&t), ());
        let mut node = GNode { name: name.to_str().to_string(), attrs: self.gen_attrs(t), items: Vec::new(), et: Some(t) };
        let mode = t.content_mode();
        self.stat(&format!("mode.{:?}", mode));
        match mode {
            ContentMode::Characters => {
                if let Some(spec) = t.chardata_spec() {
                    if let Some(v) = self.gen_value(spec) {
                        if !(v.logical.is_empty() && v.raw.is_none()) || self.chance(50) {
                            node.items.push(GItem::Text(v));
                        }
                    }
                }
            }
            _ => {
                let mixed = mode == ContentMode::Mixed;
                let listing: Vec<(ElementName, ElementType, u32, u32)> = t.sub_element_spec_iter().collect();
                let mut prev_idx: Option<Vec<usize>> = None;
                let mut included: Vec<ElementName> = Vec::new();
                let named = t.is_named_in_version(self.v);
                let p_incl: u64 = if depth < 2 { 60 } else if depth < 5 { 35 } else { 15 };
                if mixed && self.chance(60) {
                    self.push_mixed_text(&mut node, t);
                }
                for (cname, _ct, mask, _) in listing {
                    if mask & self.vm() == 0 {
                        continue;
                    }
                    let must = named && cname == ElementName::ShortName;
                    if !must && (self.budget <= 0 || depth > 14 || !self.chance(p_incl)) {
                        continue;
                    }
                    let Some((ct, idx)) = t.find_sub_element(cname, self.vm()) else { continue };
                    if let Some(p) = &prev_idx {
                        if *p != idx {
                            let conflict = guard(|| t.find_common_group(p, &idx).content_mode() == ContentMode::Choice).unwrap_or(true);
                            if conflict {
                                continue;
                            }
                        }
                    }
                    let cm = t.get_sub_element_container_mode(&idx);
                    let mult = t.get_sub_element_multiplicity(&idx);
                    let single = (cm == ContentMode::Sequence || cm == ContentMode::Choice) && mult != Some(ElementMultiplicity::Any);
                    if single && included.contains(&cname) {
                        continue;
                    }
                    let reps = if !single && self.chance(30) { 1 + self.rng.below(3) } else { 1 };
                    for _ in 0..reps {
                        if self.chance(8) {
                            let c = self.comment_text();
                            node.items.push(GItem::Comment(c));
                            self.stat("comment.before-element");
                        }
                        let child = if cname == ElementName::ShortName {
                            self.budget -= 1;
                            self.short_name_node(t).unwrap_or_else(|| self.gen_elem(cname, ct, depth + 1))
                        } else {
                            self.gen_elem(cname, ct, depth + 1)
                        };
                        node.items.push(GItem::Node(child));
                        if mixed && self.chance(50) {
                            self.push_mixed_text(&mut node, t);
                        }
                    }
                    prev_idx = Some(idx);
                    included.push(cname);
                }
                if !mixed && !node.items.is_empty() && self.chance(4) {
                    let c = self.comment_text();
                    node.items.push(GItem::Comment(c));
                    self.stat("comment.before-end-tag");
                }
            }
        }
        node
    }

    fn push_mixed_text(&mut self, node: &mut GNode, t: ElementType) {
        // never two text items in a row (they would be one run in the document)
        if let Some(GItem::Text(_)) = node.items.last() {
            return;
        }
        if let Some(spec) = t.chardata_spec() {
            if let Some(mut v) = self.gen_value(spec) {
                if v.logical.is_empty() {
                    v.logical = b"t".to_vec();
                }
                if self.chance(40) {
                    v.lead = b" ".to_vec();
                }
                if self.chance(40) {
                    v.trail = b" ".to_vec();
                }
                self.stat("mixed-text-run");
                node.items.push(GItem::Text(v));
            }
        }
    }

    fn comment_text(&mut self) -> Vec<u8> {
        const C: &[&str] = &[
            " c ", "note", " a > b ", " <x> ", " line1\n line2 ", "", " \u{e9} ", " & ", " a - b ", " > ", "x>y", " ->", " <a>\n <b/>\n </a>\n", " >\n\n", " <!- \n> ",
        ];
        C[self.rng.below(C.len() as u64) as usize].as_bytes().to_vec()
    }

    /// the chain of (name, type) from the root to `target`
    fn chain_to(&self, ch: &Chains, target: ElementType) -> Vec<(ElementName, (u32, u32))> {
        let mut out = Vec::new();
        let mut cur = et_ids(&target);
        while let Some((p, name)) = ch.parent.get(&cur) {
            out.push((*name, cur));
            cur = *p;
        }
        out.reverse();
        out
    }

    /// document tree: AUTOSAR root, the chain down to `target` (minimal: SHORT-NAME + required attributes), a random subtree there
    pub fn gen_doc(&mut self, v: AutosarVersion, ch: &Chains, target: Option<ElementType>, budget: i64) -> GNode {
        self.v = v;
        self.budget = budget;
        let schema = format!("http://autosar.org/schema/r4.0 {}", v.filename());
        let mut root_attrs = vec![
            ("xsi:schemaLocation".to_string(), GText::plain(schema.as_bytes())),
            ("xmlns".to_string(), GText::plain(b"http://autosar.org/schema/r4.0")),
            ("xmlns:xsi".to_string(), GText::plain(b"http://www.w3.org/2001/XMLSchema-instance")),
        ];
        if self.chance(30) {
            let k = self.rng.below(3) as usize;
            let a = root_attrs.remove(k);
            root_attrs.push(a);
        }
        match target {
            None => {
                let mut r = self.gen_elem(ElementName::Autosar, ElementType::ROOT, 0);
                r.attrs = root_attrs;
                r
            }
            Some(tgt) => {
                let chain = self.chain_to(ch, tgt);
                let mut types: Vec<ElementType> = vec![ElementType::ROOT];
                let mut cur = ElementType::ROOT;
                for (name, _) in chain.iter() {
                    let (ct, _) = cur.find_sub_element(*name, self.vm()).expect("chain step");
                    types.push(ct);
                    cur = ct;
                }
                // build bottom-up
                let last = chain.len();
                let leaf_name = if last == 0 { ElementName::Autosar } else { chain[last - 1].0 };
                let mut node = self.gen_elem(leaf_name, types[last], 3);
                for k in (0..last).rev() {
                    let t = types[k];
                    let name = if k == 0 { ElementName::Autosar } else { chain[k - 1].0 };
                    self.types_seen.insert(et_ids(&t), ());
                    let mut parent = GNode { name: name.to_str().to_string(), attrs: if k == 0 { vec![] } else { self.gen_required_attrs(t) }, items: Vec::new(), et: Some(t) };
                    // (when the chain child IS the SHORT-NAME, it is the element's name: no second one)
                    if t.is_named_in_version(self.v) && node.name != "SHORT-NAME" {
                        if let Some(sn) = self.short_name_node(t) {
                            parent.items.push(GItem::Node(sn));
                        }
                    }
                    if t.content_mode() == ContentMode::Mixed && self.chance(50) && node.name != "SHORT-NAME" {
                        self.push_mixed_text(&mut parent, t);
                    }
                    parent.items.push(GItem::Node(node));
                    node = parent;
                }
                node.attrs = root_attrs;
                node
            }
        }
    }

    fn gen_required_attrs(&mut self, t: ElementType) -> Vec<(String, GText)> {
        let mut out = Vec::new();
        let specs: Vec<(AttributeName, &CharacterDataSpec, bool)> = t.attribute_spec_iter().collect();
        for (name, spec, required) in specs {
            let inver = t.find_attribute_spec(name).map(|s| s.version & self.vm() != 0).unwrap_or(false);
            if required && inver {
                if let Some(mut v) = self.gen_value(spec) {
                    v.lead.clear();
                    v.trail.clear();
                    out.push((name.to_str().to_string(), v));
                }
            }
        }
        out
    }

    pub fn style(&mut self) -> Style {
        Style {
            sep: self.rng.below(4) as u8,
            bom: self.chance(15),
            standalone: self.rng.below(3) as u8,
            header: self.rng.below(5) as u8,
            tagspace: self.chance(30),
            empty_long: self.rng.below(3) as u8,
            refs: self.chance(70),
            prolog_comment: self.chance(15),
            final_newline: self.chance(60),
        }
    }

    // ---------------------------------------------------------------------------------------- rendering
    fn encode(&mut self, t: &GText, quote: Option<u8>, st: &Style) -> Vec<u8> {
        if let Some(r) = &t.raw {
            return r.clone();
        }
        let mut out = t.lead.clone();
        let n = t.logical.len();
        for (i, c) in t.logical.iter().enumerate() {
            let c = *c;
            let variety = t.kind == TKind::Str && st.refs;
            match c {
                b'&' => out.extend_from_slice(if variety && self.chance(20) { b"&#38;" } else if variety && self.chance(10) { b"&#x26;" } else { b"&amp;" }),
                b'<' => out.extend_from_slice(if variety && self.chance(20) { b"&#60;" } else if variety && self.chance(10) { b"&#x3C;" } else { b"&lt;" }),
                b'>' => {
                    // a literal '>' is legal XML in text, but the loader's tokenizer ends a tag at the first '>' : inside
                    // attribute values it must be encoded for this dialect; in text it may be literal
                    if quote.is_some() || self.chance(60) {
                        out.extend_from_slice(b"&gt;")
                    } else {
                        out.push(b'>')
                    }
                }
                b'"' => {
                    if quote == Some(b'"') || (variety && self.chance(50)) {
                        out.extend_from_slice(b"&quot;")
                    } else {
                        out.push(c)
                    }
                }
                b'\'' => {
                    if quote == Some(b'\'') || (variety && self.chance(50)) {
                        out.extend_from_slice(b"&apos;")
                    } else {
                        out.push(c)
                    }
                }
                _ => {
                    // character references for ordinary characters: never for a blank at the edge of the value
                    let edge = i == 0 || i + 1 == n;
                    if variety && c < 128 && c >= 32 && !(edge && c == b' ') && self.chance(4) {
                        if self.chance(50) {
                            out.extend_from_slice(format!("&#{};", c).as_bytes());
                        } else {
                            out.extend_from_slice(format!("&#x{:X};", c).as_bytes());
                        }
                        self.stat("charref");
                    } else {
                        out.push(c);
                    }
                }
            }
        }
        out.extend_from_slice(&t.trail);
        out
    }

    fn sep(&self, st: &Style, depth: usize, out: &mut Vec<u8>) {
        match st.sep {
            1 => {
                out.push(b'\n');
                for _ in 0..depth {
                    out.extend_from_slice(b"  ");
                }
            }
            2 => {
                out.extend_from_slice(b"\r\n");
                for _ in 0..depth {
                    out.push(b'\t');
                }
            }
            3 => out.push(b' '),
            _ => {}
        }
    }

    fn render_node(&mut self, n: &GNode, st: &Style, depth: usize, out: &mut Vec<u8>) {
        out.push(b'<');
        out.extend_from_slice(n.name.as_bytes());
        for (an, av) in n.attrs.iter() {
            if st.tagspace && self.chance(30) {
                out.extend_from_slice(if self.chance(50) { b"\n   " } else { b"  " });
            } else {
                out.push(b' ');
            }
            out.extend_from_slice(an.as_bytes());
            let q = if self.chance(70) { b'"' } else { b'\'' };
            out.push(b'=');
            out.push(q);
            let enc = self.encode(av, Some(q), st);
            out.extend_from_slice(&enc);
            out.push(q);
        }
        if st.tagspace && self.chance(25) {
            out.push(b' ');
        }
        if n.items.is_empty() {
            let long = match st.empty_long {
                0 => false,
                1 => true,
                _ => self.chance(50),
            };
            if long {
                out.push(b'>');
                out.extend_from_slice(b"</");
                out.extend_from_slice(n.name.as_bytes());
                out.push(b'>');
            } else {
                out.extend_from_slice(b"/>");
            }
            return;
        }
        out.push(b'>');
        let mode = n.et.map(|t| t.content_mode());
        let layout = !matches!(mode, Some(ContentMode::Characters) | Some(ContentMode::Mixed)) && !n.items.iter().any(|i| matches!(i, GItem::Text(_)));
        for it in n.items.iter() {
            if layout {
                self.sep(st, depth + 1, out);
            }
            match it {
                GItem::Node(c) => self.render_node(c, st, depth + 1, out),
                GItem::Text(t) => {
                    let enc = self.encode(t, None, st);
                    out.extend_from_slice(&enc);
                }
                GItem::Comment(c) => {
                    out.extend_from_slice(b"<!--");
                    out.extend_from_slice(c);
                    out.extend_from_slice(b"-->");
                }
                GItem::Raw(r) => out.extend_from_slice(r),
            }
        }
        if layout {
            self.sep(st, depth, out);
        }
        out.extend_from_slice(b"</");
        out.extend_from_slice(n.name.as_bytes());
        out.push(b'>');
    }

    pub fn render(&mut self, root: &GNode, st: &Style) -> Vec<u8> {
        let mut out = Vec::new();
        if st.bom {
            out.extend_from_slice(&[0xEF, 0xBB, 0xBF]);
        }
        let sa = match st.standalone {
            1 => " standalone=\"yes\"",
            2 => " standalone=\"no\"",
            _ => "",
        };
        let hdr = match st.header {
            0 => format!("<?xml version=\"1.0\" encoding=\"utf-8\"{}?>", sa),
            1 => format!("<?xml version=\"1.0\" encoding=\"UTF-8\"{}?>", sa),
            2 => format!("<?xml version='1.0' encoding='utf-8'{}?>", sa.replace('"', "'")),
            3 => format!("<?xml version=\"1.0\"\n encoding=\"UTF-8\"{} ?>", sa),
            _ => format!("<?xml version=\"1.0\" encoding=\"utf8\"{}?>", sa),
        };
        out.extend_from_slice(hdr.as_bytes());
        match st.sep {
            2 => out.extend_from_slice(b"\r\n"),
            0 => {}
            _ => out.push(b'\n'),
        }
        if st.prolog_comment {
            out.extend_from_slice(b"<!-- generated -->\n<?pi some data?>\n<!--second-->");
            self.stat("comment.before-root");
        }
        self.render_node(root, st, 0, &mut out);
        if st.final_newline {
            out.extend_from_slice(if st.sep == 2 { b"\r\n" } else { b"\n" });
        }
        out
    }
}

// ------------------------------------------------------------------------------------------------ tree access for the injector
fn collect_paths(n: &GNode, cur: &mut Vec<usize>, out: &mut Vec<Vec<usize>>) {
    out.push(cur.clone());
    for (i, it) in n.items.iter().enumerate() {
        if let GItem::Node(c) = it {
            cur.push(i);
            collect_paths(c, cur, out);
            cur.pop();
        }
    }
}

fn node_at<'b>(n: &'b mut GNode, path: &[usize]) -> &'b mut GNode {
    let mut cur = n;
    for i in path {
        cur = match &mut cur.items[*i] {
            GItem::Node(c) => c,
            _ => panic!("path"),
        };
    }
    cur
}

fn node_ref<'b>(n: &'b GNode, path: &[usize]) -> &'b GNode {
    let mut cur = n;
    for i in path {
        cur = match &cur.items[*i] {
            GItem::Node(c) => c,
            _ => panic!("path"),
        };
    }
    cur
}

pub const DEFECTS: &[&str] = &[
    "unknown-element", "misplaced-element", "unknown-attribute", "unknown-enum-item", "foreign-enum-item", "version-element", "version-element-nested", "version-attribute",
    "version-enum-item", "choice-conflict", "multiplicity", "multiplicity-nonadjacent", "missing-short-name", "missing-short-name-empty", "missing-required-attr", "too-long", "pattern-mismatch",
    "not-a-number", "bad-entity", "bad-entity-combined", "bad-entity-sign", "trailing-data", "tail-misc-only", "bad-version", "bad-namespace", "header-inside", "text-forbidden",
    "invalid-utf8", "element-in-chars", "empty-value",
];

impl<'a> G<'a> {
    /// apply one defect of the class; returns false when the tree offers no site for it
    pub fn inject(&mut self, root: &mut GNode, class: &str, trailer: &mut Vec<u8>) -> bool {
        let mut paths = Vec::new();
        collect_paths(root, &mut Vec::new(), &mut paths);
        // random order of candidate sites
        for i in (1..paths.len()).rev() {
            let j = self.rng.below(i as u64 + 1) as usize;
            paths.swap(i, j);
        }
        let vm = self.vm();
        match class {
            "trailing-data" => {
                // data behind the root element: directly, after white space, after a processing instruction, after one or several
                // comments (round-robin over separator x data, so every combination occurs)
                const SEP: &[&str] = &["", "\n", "  \n\t", "<?pi x?>", "<!--c-->", "\n<!-- end -->\n", "<!--a--><!--b-->", "<!--a-->\n<?pi?>\n<!--b-->\n", "\n<!-- x > y -->"];
                const DATA: &[&str] = &[
                    "<X/>", "junk", "<AUTOSAR/>", "<AR-PACKAGES></AR-PACKAGES>", "</AUTOSAR>", "&amp;", "<NO-SUCH-ELEMENT>", "<?xml version=\"1.0\" encoding=\"utf-8\"?>",
                    "<AR-PACKAGES><AR-PACKAGE><SHORT-NAME>late</SHORT-NAME></AR-PACKAGE></AR-PACKAGES>", "x<!--c-->", "<!--c-->x",
                ];
                let k = self.tcur;
                self.tcur += 1;
                let sep = SEP[k % SEP.len()];
                let data = DATA[(k / SEP.len()) % DATA.len()];
                trailer.extend_from_slice(sep.as_bytes());
                trailer.extend_from_slice(data.as_bytes());
                self.stat(&format!("trailing.after-{}", match k % SEP.len() { 0 => "nothing", 1 | 2 => "whitespace", 3 => "pi", 4 | 5 | 8 => "one-comment", _ => "several-comments" }));
                return true;
            }
            "tail-misc-only" => {
                // only comments / processing instructions / white space behind the root: well-formed XML (document ::= prolog element Misc*);
                // NOT tagged as a defect (no expectation of rejection) - correspondence and the agreement clauses still apply
                const T: &[&str] = &["<!--c-->", "\n<!-- end -->\n", "<?pi x?>", "<!--a--><!--b-->", "\n<?pi?>\n<!--c-->", "  \n ", "<!--a-->\n<!--b-->\n<!--c-->"];
                let k = self.tcur;
                self.tcur += 1;
                trailer.extend_from_slice(T[k % T.len()].as_bytes());
                return true;
            }
            "bad-version" => {
                const V: &[&str] = &["AUTOSAR_4-3-1.xsd", "AUTOSAR_4-4-0.xsd", "AUTOSAR_4-5-0.xsd", "AUTOSAR_9-9-9.xsd", "", "AUTOSAR_00050", "autosar.xsd", "AUTOSAR_4-2-2.XSD", "AUTOSAR_00099.xsd"];
                let v = V[self.rng.below(V.len() as u64) as usize];
                for a in root.attrs.iter_mut() {
                    if a.0 == "xsi:schemaLocation" {
                        a.1 = GText::plain(format!("http://autosar.org/schema/r4.0 {}", v).as_bytes());
                    }
                }
                return true;
            }
            "bad-namespace" => {
                let k = self.rng.below(4);
                match k {
                    0 => root.attrs.retain(|a| a.0 != "xmlns"),
                    1 => root.attrs.retain(|a| a.0 != "xmlns:xsi"),
                    2 => {
                        for a in root.attrs.iter_mut() {
                            if a.0 == "xmlns" {
                                a.1 = GText::plain(b"http://autosar.org/schema/r5.0");
                            }
                        }
                    }
                    _ => {
                        for a in root.attrs.iter_mut() {
                            if a.0 == "xsi:schemaLocation" {
                                a.1 = GText::plain(b"http://autosar.org/3.0 AUTOSAR_00050.xsd");
                            }
                        }
                    }
                }
                return true;
            }
            _ => {}
        }
        for p in paths.iter() {
            let (et, mode, is_root) = {
                let n = node_ref(root, p);
                match n.et {
                    Some(t) => (t, t.content_mode(), p.is_empty()),
                    None => continue,
                }
            };
            let elem_only = matches!(mode, ContentMode::Sequence | ContentMode::Choice | ContentMode::Bag);
            match class {
                "unknown-element" => {
                    if mode == ContentMode::Characters {
                        continue;
                    }
                    let n = node_at(root, p);
                    let k = self.rng.below(n.items.len() as u64 + 1) as usize;
                    if mode == ContentMode::Mixed && k > 0 && matches!(n.items[k - 1], GItem::Text(_)) && k < n.items.len() && matches!(n.items[k], GItem::Text(_)) {
                        continue;
                    }
                    let nm = ["NO-SUCH-ELEMENT", "ar-package", "SHORT-NAME2", "X"][self.rng.below(4) as usize];
                    n.items.insert(k, GItem::Node(GNode { name: nm.into(), attrs: vec![], items: vec![], et: None }));
                    return true;
                }
                "misplaced-element" => {
                    if mode == ContentMode::Characters {
                        continue;
                    }
                    let cands = [ElementName::System, ElementName::ArPackage, ElementName::Elements, ElementName::Value, ElementName::L2, ElementName::CompuMethod];
                    let c = cands[self.rng.below(cands.len() as u64) as usize];
                    if et.find_sub_element(c, u32::MAX).is_some() {
                        continue;
                    }
                    let n = node_at(root, p);
                    n.items.push(GItem::Node(GNode { name: c.to_str().into(), attrs: vec![], items: vec![], et: None }));
                    return true;
                }
                "unknown-attribute" => {
                    if is_root {
                        continue;
                    }
                    let cands = ["FOO", "DEST", "UUID", "T", "xml:space", "S", "BLUEPRINT-VALUE"];
                    let c = cands[self.rng.below(cands.len() as u64) as usize];
                    if let Ok(an) = AttributeName::from_bytes(c.as_bytes()) {
                        if et.find_attribute_spec(an).is_some() {
                            continue;
                        }
                    }
                    let n = node_at(root, p);
                    let k = self.rng.below(n.attrs.len() as u64 + 1) as usize;
                    n.attrs.insert(k, (c.to_string(), GText::plain(b"v")));
                    return true;
                }
                "unknown-enum-item" | "foreign-enum-item" | "version-enum-item" => {
                    // element text or attribute with an Enum spec
                    let mut sites: Vec<(Option<String>, &CharacterDataSpec)> = Vec::new();
                    if mode == ContentMode::Characters {
                        if let Some(s) = et.chardata_spec() {
                            sites.push((None, s));
                        }
                    }
                    for (an, _) in node_ref(root, p).attrs.iter() {
                        if let Ok(a) = AttributeName::from_bytes(an.as_bytes()) {
                            if let Some(s) = et.find_attribute_spec(a) {
                                sites.push((Some(an.clone()), s.spec));
                            }
                        }
                    }
                    for (site, spec) in sites {
                        if let CharacterDataSpec::Enum { items } = spec {
                            let newv: Option<Vec<u8>> = match class {
                                "unknown-enum-item" => Some(["NOT-AN-ITEM", "abstract", "TRUE-ISH"][self.rng.below(3) as usize].as_bytes().to_vec()),
                                "foreign-enum-item" => {
                                    let all = [EnumItem::Abstract, EnumItem::default, EnumItem::preserve, EnumItem::True, EnumItem::Unit, EnumItem::Aa];
                                    all.iter().find(|c| !items.iter().any(|(i, _)| i == *c)).map(|c| c.to_str().as_bytes().to_vec())
                                }
                                _ => items.iter().find(|(_, m)| m & vm == 0).map(|(i, _)| i.to_str().as_bytes().to_vec()),
                            };
                            if let Some(nv) = newv {
                                let n = node_at(root, p);
                                match site {
                                    None => n.items = vec![GItem::Text(GText::plain(&nv))],
                                    Some(an) => {
                                        for a in n.attrs.iter_mut() {
                                            if a.0 == an {
                                                a.1 = GText::plain(&nv);
                                            }
                                        }
                                    }
                                }
                                return true;
                            }
                        }
                    }
                }
                "version-element" | "version-element-nested" => {
                    if !elem_only && mode != ContentMode::Mixed {
                        continue;
                    }
                    let listing: Vec<(ElementName, ElementType, u32, u32)> = et.sub_element_spec_iter().collect();
                    for (cname, _, mask, _) in listing {
                        // nested: the spec entry sits inside a group of the parent's type (index path of length >= 2)
                        let depth_ok = |idx: &Vec<usize>| class == "version-element" || idx.len() >= 2;
                        if mask & vm == 0 && et.find_sub_element(cname, vm).is_none() && et.find_sub_element(cname, u32::MAX).map(|(_, i)| depth_ok(&i)).unwrap_or(false) {
                            let n = node_at(root, p);
                            if mode == ContentMode::Mixed && matches!(n.items.last(), Some(GItem::Text(_))) {
                                continue;
                            }
                            n.items.push(GItem::Node(GNode { name: cname.to_str().into(), attrs: vec![], items: vec![], et: None }));
                            return true;
                        }
                    }
                }
                "version-attribute" => {
                    if is_root {
                        continue;
                    }
                    let specs: Vec<(AttributeName, &CharacterDataSpec, bool)> = et.attribute_spec_iter().collect();
                    for (an, spec, _) in specs {
                        if let Some(s) = et.find_attribute_spec(an) {
                            if s.version & vm == 0 && !node_ref(root, p).attrs.iter().any(|a| a.0 == an.to_str()) {
                                // a value valid in SOME version
                                let save = self.v;
                                let val = self.gen_value_any_version(spec);
                                self.v = save;
                                if let Some(v) = val {
                                    node_at(root, p).attrs.push((an.to_str().into(), v));
                                    return true;
                                }
                            }
                        }
                    }
                }
                "choice-conflict" => {
                    if !elem_only {
                        continue;
                    }
                    let listing: Vec<(ElementName, ElementType, u32, u32)> = et.sub_element_spec_iter().filter(|x| x.2 & vm != 0).take(24).collect();
                    let mut found = None;
                    'outer: for a in 0..listing.len() {
                        for b in 0..listing.len() {
                            if listing[a].0 == listing[b].0 {
                                continue;
                            }
                            if let (Some((_, ia)), Some((_, ib))) = (et.find_sub_element(listing[a].0, vm), et.find_sub_element(listing[b].0, vm)) {
                                if ia != ib && guard(|| et.find_common_group(&ia, &ib).content_mode() == ContentMode::Choice).unwrap_or(false) {
                                    found = Some((listing[a].0, listing[b].0));
                                    break 'outer;
                                }
                            }
                        }
                    }
                    if let Some((a, b)) = found {
                        let n = node_at(root, p);
                        n.items.retain(|it| !matches!(it, GItem::Comment(_)));
                        n.items.push(GItem::Node(GNode { name: a.to_str().into(), attrs: vec![], items: vec![], et: None }));
                        n.items.push(GItem::Node(GNode { name: b.to_str().into(), attrs: vec![], items: vec![], et: None }));
                        return true;
                    }
                }
                "multiplicity" => {
                    if !elem_only {
                        continue;
                    }
                    let n = node_ref(root, p);
                    for (k, it) in n.items.iter().enumerate() {
                        if let GItem::Node(c) = it {
                            if let Ok(cn) = ElementName::from_bytes(c.name.as_bytes()) {
                                if let Some((_, idx)) = et.find_sub_element(cn, vm) {
                                    let cm = et.get_sub_element_container_mode(&idx);
                                    let single = (cm == ContentMode::Sequence || cm == ContentMode::Choice) && et.get_sub_element_multiplicity(&idx) != Some(ElementMultiplicity::Any);
                                    if single {
                                        let dup = it.clone();
                                        node_at(root, p).items.insert(k + 1, dup);
                                        return true;
                                    }
                                }
                            }
                        }
                    }
                }
                "multiplicity-nonadjacent" => {
                    // X, Y, X : a single-occurrence child repeated with a different allowed sibling in between
                    if !elem_only {
                        continue;
                    }
                    let n = node_ref(root, p);
                    let nodes: Vec<(usize, ElementName)> = n
                        .items
                        .iter()
                        .enumerate()
                        .filter_map(|(k, it)| if let GItem::Node(c) = it { ElementName::from_bytes(c.name.as_bytes()).ok().map(|nm| (k, nm)) } else { None })
                        .collect();
                    let single = |nm: ElementName| -> bool {
                        match et.find_sub_element(nm, vm) {
                            Some((_, idx)) => {
                                let cm = et.get_sub_element_container_mode(&idx);
                                (cm == ContentMode::Sequence || cm == ContentMode::Choice) && et.get_sub_element_multiplicity(&idx) != Some(ElementMultiplicity::Any)
                            }
                            None => false,
                        }
                    };
                    for w in nodes.windows(2) {
                        let ((ka, a), (kb, b)) = (w[0], w[1]);
                        if a == b {
                            continue;
                        }
                        if single(a) {
                            // A, B  ->  A, B, A
                            let dup = n.items[ka].clone();
                            node_at(root, p).items.insert(kb + 1, dup);
                            return true;
                        }
                        if single(b) {
                            // A, B  ->  B, A, B
                            let dup = n.items[kb].clone();
                            node_at(root, p).items.insert(ka, dup);
                            return true;
                        }
                    }
                }
                "missing-short-name" => {
                    if !et.is_named_in_version(self.v) {
                        continue;
                    }
                    let n = node_at(root, p);
                    let before = n.items.len();
                    n.items.retain(|it| !matches!(it, GItem::Node(c) if c.name == "SHORT-NAME"));
                    if n.items.len() != before {
                        return true;
                    }
                }
                "missing-short-name-empty" => {
                    // an identifiable element without any content, in the empty-element spelling <X/> (also <X />, <X UUID=".."/>) and,
                    // as control, <X></X>: the required SHORT-NAME is missing in all of them
                    if is_root || !et.is_named_in_version(self.v) {
                        continue;
                    }
                    let name = node_ref(root, p).name.clone();
                    let uuid_ok = et.find_attribute_spec(AttributeName::Uuid).map(|sp| sp.version & vm != 0).unwrap_or(false);
                    let k = self.tcur;
                    self.tcur += 1;
                    let raw = match k % 5 {
                        0 => format!("<{}/>", name),
                        1 => format!("<{} />", name),
                        2 if uuid_ok => format!("<{} UUID=\"u{}\"/>", name, k),
                        3 => format!("<{}></{}>", name, name),
                        _ => format!("<{}\n/>", name),
                    };
                    let (pp, last) = (&p[..p.len() - 1], p[p.len() - 1]);
                    let parent = node_at(root, pp);
                    parent.items[last] = GItem::Raw(raw.into_bytes());
                    self.stat(&format!("missing-short-name-empty.spelling{}", k % 5));
                    return true;
                }
                "missing-required-attr" => {
                    if is_root {
                        continue;
                    }
                    let req: Vec<String> = et.attribute_spec_iter().filter(|x| x.2).map(|x| x.0.to_str().to_string()).collect();
                    let n = node_at(root, p);
                    let before = n.attrs.len();
                    if let Some(r) = req.first() {
                        n.attrs.retain(|a| &a.0 != r);
                    }
                    if n.attrs.len() != before {
                        return true;
                    }
                }
                "too-long" | "pattern-mismatch" | "not-a-number" | "bad-entity" | "bad-entity-combined" | "bad-entity-sign" | "invalid-utf8" | "empty-value" => {
                    let mut sites: Vec<(Option<String>, &CharacterDataSpec)> = Vec::new();
                    if mode == ContentMode::Characters {
                        if let Some(s) = et.chardata_spec() {
                            sites.push((None, s));
                        }
                    }
                    if class != "empty-value" && !is_root {
                        for (an, _) in node_ref(root, p).attrs.iter() {
                            if let Ok(a) = AttributeName::from_bytes(an.as_bytes()) {
                                if let Some(s) = et.find_attribute_spec(a) {
                                    sites.push((Some(an.clone()), s.spec));
                                }
                            }
                        }
                    }
                    for (site, spec) in sites {
                        let newv: Option<GText> = match (class, spec) {
                            ("too-long", CharacterDataSpec::Pattern { check_fn, max_length: Some(m), .. }) => {
                                let s = vec![b'a'; m + 1];
                                if check_fn(&s) {
                                    Some(GText::plain(&s))
                                } else {
                                    None
                                }
                            }
                            ("pattern-mismatch", CharacterDataSpec::Pattern { check_fn, .. }) => {
                                let cur: Vec<u8> = match &site {
                                    None => node_ref(root, p).items.iter().find_map(|i| if let GItem::Text(t) = i { Some(t.logical.clone()) } else { None }).unwrap_or_default(),
                                    Some(an) => node_ref(root, p).attrs.iter().find(|a| &a.0 == an).map(|a| a.1.logical.clone()).unwrap_or_default(),
                                };
                                let mut c1 = cur.clone();
                                c1.push(b'!');
                                let mut c2 = cur.clone();
                                c2.insert(cur.len() / 2, b' ');
                                let mut c3 = b"#".to_vec();
                                c3.extend_from_slice(&cur);
                                let cands = [c1, c2, c3, b"!".to_vec()];
                                let st = self.rng.below(4) as usize;
                                // (the loader trims the text first: the corrupted value must still be wrong, and non-empty, after trimming)
                                let trim = |c: &Vec<u8>| -> Vec<u8> {
                                    let mut a = 0;
                                    let mut b = c.len();
                                    while a < b && c[a].is_ascii_whitespace() {
                                        a += 1;
                                    }
                                    while b > a && c[b - 1].is_ascii_whitespace() {
                                        b -= 1;
                                    }
                                    c[a..b].to_vec()
                                };
                                (0..4).map(|k| &cands[(st + k) % 4]).find(|c| !trim(c).is_empty() && !check_fn(&trim(c))).map(|c| GText::plain(c))
                            }
                            ("not-a-number", CharacterDataSpec::UnsignedInteger) => {
                                const B: &[&str] = &["12x", "-1", "1.5", "0x10", "18446744073709551616", "1 2", "+", "1e3", "٣"];
                                Some(GText::plain(B[self.rng.below(B.len() as u64) as usize].as_bytes()))
                            }
                            ("not-a-number", CharacterDataSpec::Float) => {
                                const B: &[&str] = &["1.5.5", "abc", "1e", "0x10", "1_0", "1,5", "--1", "e5", ".", "1e+", "in", "nanx", "+-1"];
                                Some(GText::plain(B[self.rng.below(B.len() as u64) as usize].as_bytes()))
                            }
                            ("bad-entity", CharacterDataSpec::String { .. }) => {
                                const B: &[&str] = &["a&foo;b", "&#xZZ;", "&#1114112;", "x&#xD800;", "a & b", "&#;", "&#x;", "&amp", "&;", "&#x110000;", "&#65", "&lt", "&AMP;", "&#-65;", "&#x 41;", "&#4294967296;"];
                                Some(GText::raw(B[self.rng.below(B.len() as u64) as usize].as_bytes()))
                            }
                            ("bad-entity-combined", CharacterDataSpec::String { .. }) => {
                                // ONE value with a malformed entity AND well-formed references, in every order (round-robin): the finding
                                // must be reported no matter what follows or precedes it ("R&D &#169; 2024")
                                const BAD: &[&str] = &["&", "& ", "&quot", "&#xZZ;", "&#1114112;", "&foo;", "&#;", "&#xD800;"];
                                const OK: &[&str] = &["&#169;", "&#xA9;", "&amp;", "&#65;", "&#x41;", "&lt;"];
                                let k = self.tcur;
                                self.tcur += 1;
                                let b = BAD[k % BAD.len()];
                                let o = OK[(k / BAD.len()) % OK.len()];
                                let o2 = OK[(k / 3) % OK.len()];
                                let v = match (k / (BAD.len() * OK.len())) % 5 {
                                    0 => format!("R{}D {} 2024", b, o),
                                    1 => format!("{} x {}", o, b),
                                    2 => format!("{} {} {}", b, o, b),
                                    3 => format!("{} {} {}", o, b, o2),
                                    _ => format!("a{} {} {}", b, o, o2),
                                };
                                self.stat(&format!("bad-entity-combined.order{}", (k / (BAD.len() * OK.len())) % 5));
                                Some(GText::raw(v.as_bytes()))
                            }
                            ("bad-entity-sign", CharacterDataSpec::String { .. }) => {
                                const B: &[&str] = &["&#x+41;", "&#+65;", "a&#x+0041;b"];
                                Some(GText::raw(B[self.rng.below(B.len() as u64) as usize].as_bytes()))
                            }
                            ("invalid-utf8", CharacterDataSpec::String { .. }) | ("invalid-utf8", CharacterDataSpec::Pattern { .. }) => {
                                const B: &[&[u8]] = &[b"a\xffb", b"\xc3", b"x\xed\xa0\x80", b"\xf8\x88\x80\x80\x80", b"ok\xc0\xaf", b"\xe2\x82"];
                                Some(GText::raw(B[self.rng.below(B.len() as u64) as usize]))
                            }
                            ("empty-value", CharacterDataSpec::Pattern { check_fn, .. }) => {
                                if !check_fn(b"") {
                                    Some(GText::raw(b""))
                                } else {
                                    None
                                }
                            }
                            ("empty-value", CharacterDataSpec::UnsignedInteger) | ("empty-value", CharacterDataSpec::Float) | ("empty-value", CharacterDataSpec::Enum { .. }) => Some(GText::raw(b"")),
                            _ => None,
                        };
                        if let Some(nv) = newv {
                            let n = node_at(root, p);
                            match site {
                                None => {
                                    if class == "empty-value" {
                                        n.items = match self.rng.below(3) {
                                            0 => vec![],
                                            1 => vec![GItem::Text(GText::raw(b" "))],
                                            _ => vec![GItem::Text(GText::raw(b"\n  "))],
                                        };
                                    } else {
                                        n.items = vec![GItem::Text(nv)];
                                    }
                                }
                                Some(an) => {
                                    for a in n.attrs.iter_mut() {
                                        if a.0 == an {
                                            a.1 = nv.clone();
                                        }
                                    }
                                }
                            }
                            return true;
                        }
                    }
                }
                "header-inside" => {
                    if mode == ContentMode::Characters {
                        continue;
                    }
                    let n = node_at(root, p);
                    let k = self.rng.below(n.items.len() as u64 + 1) as usize;
                    n.items.insert(k, GItem::Raw(b"<?xml version=\"1.0\" encoding=\"utf-8\"?>".to_vec()));
                    return true;
                }
                "text-forbidden" => {
                    if !elem_only {
                        continue;
                    }
                    let n = node_at(root, p);
                    let k = self.rng.below(n.items.len() as u64 + 1) as usize;
                    n.items.insert(k, GItem::Text(GText::plain(if self.chance(50) { b"stray" } else { b"&amp;" })));
                    return true;
                }
                "element-in-chars" => {
                    if mode != ContentMode::Characters {
                        continue;
                    }
                    let n = node_at(root, p);
                    n.items.push(GItem::Node(GNode { name: "SHORT-NAME".into(), attrs: vec![], items: vec![GItem::Text(GText::plain(b"q"))], et: None }));
                    return true;
                }
                _ => return false,
            }
        }
        false
    }

    fn gen_value_any_version(&mut self, spec: &CharacterDataSpec) -> Option<GText> {
        if let CharacterDataSpec::Enum { items } = spec {
            return items.first().map(|(i, _)| GText::plain(i.to_str().as_bytes()));
        }
        let mut v = self.gen_value(spec)?;
        v.lead.clear();
        v.trail.clear();
        Some(v)
    }

    // ---------------------------------------------------------------------------------------- valid-but-mishandled classes
    /// `valid:*` variants: valid XML / AUTOSAR documents in classes that the loader / writer is known to mishandle
    pub fn special(&mut self, root: &mut GNode, class: &str) -> bool {
        let mut paths = Vec::new();
        collect_paths(root, &mut Vec::new(), &mut paths);
        for i in (1..paths.len()).rev() {
            let j = self.rng.below(i as u64 + 1) as usize;
            paths.swap(i, j);
        }
        for p in paths.iter() {
            let et = match node_ref(root, p).et {
                Some(t) => t,
                None => continue,
            };
            if class == "mixed-split" {
                // text of a mixed element interrupted by a comment / PI: two adjacent text items after loading
                if et.content_mode() == ContentMode::Mixed && matches!(et.chardata_spec(), Some(CharacterDataSpec::String { .. })) {
                    let n = node_at(root, p);
                    let mid = if self.chance(50) { GItem::Comment(b"c".to_vec()) } else { GItem::Raw(b"<?pi?>".to_vec()) };
                    let mut items = vec![GItem::Text(GText::plain(b"a")), mid, GItem::Text(GText::plain(b"b"))];
                    // keep the element children (after the text, so the runs stay adjacent)
                    for it in n.items.drain(..) {
                        if let GItem::Node(_) = it {
                            items.push(it);
                        }
                    }
                    n.items = items;
                    return true;
                }
                continue;
            }
            if et.content_mode() != ContentMode::Characters {
                continue;
            }
            let spec = match et.chardata_spec() {
                Some(s) => s,
                None => continue,
            };
            let n = node_at(root, p);
            let cur: Option<GText> = n.items.iter().find_map(|i| if let GItem::Text(t) = i { Some(t.clone()) } else { None });
            match (class, spec) {
                ("pattern-ref", CharacterDataSpec::Pattern { check_fn, .. }) => {
                    // a member of the pattern written with a reference: `&amp;` where the pattern allows '&', else a character reference
                    let cur = match cur {
                        Some(c) if !c.logical.is_empty() => c,
                        _ => continue,
                    };
                    let mut with_amp = cur.logical.clone();
                    with_amp.extend_from_slice(b"&x");
                    let raw = if check_fn(&with_amp) {
                        let mut r = cur.logical.clone();
                        r.extend_from_slice(b"&amp;x");
                        r
                    } else {
                        let c0 = cur.logical[0];
                        let mut r = format!("&#{};", c0).into_bytes();
                        r.extend_from_slice(&cur.logical[1..]);
                        r
                    };
                    n.items = vec![GItem::Text(GText::raw(&raw))];
                    return true;
                }
                ("enc-blank", CharacterDataSpec::String { preserve_whitespace: false, .. }) => {
                    let raw: &[u8] = match self.rng.below(4) {
                        0 => b"&#x20;lead",
                        1 => b"trail&#32;",
                        2 => b"&#9;tab",
                        _ => b"&#x20;both&#x20;",
                    };
                    n.items = vec![GItem::Text(GText::raw(raw))];
                    return true;
                }
                ("split-text", CharacterDataSpec::String { .. }) => {
                    n.items = vec![GItem::Text(GText::plain(b"a")), GItem::Comment(b"c".to_vec()), GItem::Text(GText::plain(b"b"))];
                    return true;
                }
                ("split-text-pi", CharacterDataSpec::String { .. }) => {
                    n.items = vec![GItem::Text(GText::plain(b"a")), GItem::Raw(b"<?pi x?>".to_vec()), GItem::Text(GText::plain(b"b"))];
                    return true;
                }
                _ => {}
            }
        }
        false
    }
}

/// put `val` into the first element text (is_attr = false) or attribute (is_attr = true) whose spec is the pattern `regex`
fn set_pattern_value(n: &mut GNode, regex: &str, val: &[u8], is_attr: bool) -> bool {
    if let Some(et) = n.et {
        if !is_attr {
            if let Some(CharacterDataSpec::Pattern { regex: r, .. }) = et.chardata_spec() {
                if *r == regex && et.content_mode() == ContentMode::Characters {
                    n.items = vec![GItem::Text(GText::plain(val))];
                    return true;
                }
            }
        } else {
            let specs: Vec<(AttributeName, &CharacterDataSpec, bool)> = et.attribute_spec_iter().collect();
            for (an, c, _) in specs {
                if let CharacterDataSpec::Pattern { regex: r, .. } = c {
                    if *r == regex && n.name != "AUTOSAR" {
                        n.attrs.retain(|a| a.0 != an.to_str());
                        n.attrs.push((an.to_str().to_string(), GText::plain(val)));
                        return true;
                    }
                }
            }
        }
    }
    for it in n.items.iter_mut() {
        if let GItem::Node(c) = it {
            if set_pattern_value(c, regex, val, is_attr) {
                return true;
            }
        }
    }
    false
}

// ------------------------------------------------------------------------------------------------ mutator
pub fn tokens(doc: &[u8]) -> Vec<(usize, usize)> {
    let mut out = Vec::new();
    let mut i = 0;
    while i < doc.len() {
        let st = i;
        if doc[i] == b'<' {
            while i < doc.len() && doc[i] != b'>' {
                i += 1;
            }
            if i < doc.len() {
                i += 1;
            }
        } else {
            while i < doc.len() && doc[i] != b'<' {
                i += 1;
            }
        }
        out.push((st, i));
    }
    out
}

/// byte ranges of the values of a document: non-blank text runs (attrs = false) or quoted attribute values (attrs = true)
pub fn value_spans(doc: &[u8], attrs: bool) -> Vec<(usize, usize)> {
    let mut out = Vec::new();
    let mut i = 0;
    while i < doc.len() {
        if doc[i] == b'<' {
            let st = i;
            while i < doc.len() && doc[i] != b'>' {
                i += 1;
            }
            if attrs && !doc[st..].starts_with(b"<?") && !doc[st..].starts_with(b"<!") {
                let mut j = st;
                while j < i {
                    if doc[j] == b'=' && j + 1 < i && (doc[j + 1] == b'"' || doc[j + 1] == b'\'') {
                        let q = doc[j + 1];
                        let vs = j + 2;
                        let mut e = vs;
                        while e < i && doc[e] != q {
                            e += 1;
                        }
                        if e < i {
                            out.push((vs, e));
                        }
                        j = e;
                    }
                    j += 1;
                }
            }
            i += 1;
        } else {
            let st = i;
            while i < doc.len() && doc[i] != b'<' {
                i += 1;
            }
            if !attrs && doc[st..i].iter().any(|c| !c.is_ascii_whitespace()) {
                out.push((st, i));
            }
        }
    }
    out
}

pub fn mutate(rng: &mut SplitMix64, doc: &[u8]) -> (Vec<u8>, &'static str) {
    let toks = tokens(doc);
    if toks.is_empty() {
        return (vec![super::ALPHABET[rng.below(15) as usize]], "insert-symbols");
    }
    let nt = toks.len().max(1) as u64;
    let pick = |rng: &mut SplitMix64| toks[rng.below(nt) as usize % toks.len().max(1)];
    match rng.below(12) {
        0 => {
            let (s, _) = pick(rng);
            (doc[..s].to_vec(), "truncate-token")
        }
        1 => {
            let k = rng.below(doc.len() as u64 + 1) as usize;
            (doc[..k].to_vec(), "truncate-byte")
        }
        2 => {
            let (s, e) = pick(rng);
            let mut d = doc[..s].to_vec();
            d.extend_from_slice(&doc[e..]);
            (d, "delete-token")
        }
        3 => {
            let (s, e) = pick(rng);
            let mut d = doc[..e].to_vec();
            d.extend_from_slice(&doc[s..e]);
            d.extend_from_slice(&doc[e..]);
            (d, "duplicate-token")
        }
        4 => {
            let mut d = doc.to_vec();
            if !d.is_empty() {
                let k = rng.below(d.len() as u64) as usize;
                d[k] ^= 1 << rng.below(8);
            }
            (d, "flip-bit")
        }
        5 => {
            let mut d = doc.to_vec();
            if !d.is_empty() {
                let k = rng.below(d.len() as u64) as usize;
                d[k] = super::ALPHABET[rng.below(15) as usize];
            }
            (d, "replace-symbol")
        }
        6 => {
            let mut d = doc.to_vec();
            let k = rng.below(d.len() as u64 + 1) as usize;
            const BAD: &[&[u8]] = &[b"\xff", b"\xc3", b"\xed\xa0\x80", b"\xf4\x90\x80\x80", b"\x80", b"\xe2\x82"];
            let b = BAD[rng.below(BAD.len() as u64) as usize];
            for (j, x) in b.iter().enumerate() {
                d.insert(k + j, *x);
            }
            (d, "insert-invalid-utf8")
        }
        7 => {
            let mut d = doc.to_vec();
            let k = rng.below(d.len() as u64 + 1) as usize;
            let n = 1 + rng.below(4);
            for j in 0..n {
                d.insert(k + j as usize, super::ALPHABET[rng.below(15) as usize]);
            }
            (d, "insert-symbols")
        }
        8 => {
            if toks.len() < 2 {
                return (doc.to_vec(), "swap-tokens");
            }
            let k = rng.below(toks.len() as u64 - 1) as usize;
            let (a, b) = (toks[k], toks[k + 1]);
            let mut d = doc[..a.0].to_vec();
            d.extend_from_slice(&doc[b.0..b.1]);
            d.extend_from_slice(&doc[a.0..a.1]);
            d.extend_from_slice(&doc[b.1..]);
            (d, "swap-tokens")
        }
        9 => {
            let mut d = doc.to_vec();
            if !d.is_empty() {
                let k = rng.below(d.len() as u64) as usize;
                d.remove(k);
            }
            (d, "delete-byte")
        }
        10 => {
            let (s, e) = pick(rng);
            // cut inside a token
            let k = s + rng.below((e - s) as u64 + 1) as usize;
            (doc[..k].to_vec(), "truncate-inside-token")
        }
        _ => {
            let mut d = doc.to_vec();
            let k = rng.below(d.len() as u64 + 1) as usize;
            let n = 1 + rng.below(3);
            for j in 0..n {
                d.insert(k + j as usize, rng.below(256) as u8);
            }
            (d, "insert-random-bytes")
        }
    }
}

// ------------------------------------------------------------------------------------------------ main
fn versions() -> Vec<AutosarVersion> {
    (0..32).filter_map(|i| AutosarVersion::from_val(1u32 << i)).collect()
}

fn write_case(f: &mut std::fs::File, doc: &[u8], tag: &str) {
    writeln!(f, "0 {} {}", hex(doc), tag).unwrap();
    writeln!(f, "1 {} {}", hex(doc), tag).unwrap();
}

/// xml gen <dump> <seed> <tier> <outprefix> <corpus>
pub fn main(args: &[String]) {
    let dump = &args[0];
    let seed: u64 = args[1].parse().unwrap();
    let thorough = args[2] == "thorough";
    let out = &args[3];
    let members = load_members(dump, &args[4]);
    let mut g = G::new(seed ^ 0x5851F42D4C957F2D, &members);
    let vers = versions();
    let mut fdocs = std::fs::File::create(format!("{}.docs", out)).unwrap();
    let mut fdef = std::fs::File::create(format!("{}.defects", out)).unwrap();
    let mut fmut = std::fs::File::create(format!("{}.mutants", out)).unwrap();
    let per_version_chain = if thorough { 400 } else { 45 };
    let per_version_random = if thorough { 60 } else { 12 };
    let mut valid_docs: Vec<Vec<u8>> = Vec::new();
    let mut trees: Vec<(GNode, AutosarVersion, usize)> = Vec::new();
    let mut chains_all: Vec<Chains> = Vec::new();
    for v in vers.iter() {
        chains_all.push(chains_for(*v));
    }
    for (vi, v) in vers.iter().enumerate() {
        let ch = &chains_all[vi];
        g.stat(&format!("version.{}", v.filename()));
        *g.stats.entry("reachable-types-in-version-sum".into()).or_insert(0) += ch.order.len() as u64;
        for k in 0..(per_version_chain + per_version_random) {
            let target = if k < per_version_chain {
                // deep targets: spread over the BFS order (late = deep)
                let n = ch.order.len() as u64;
                let idx = if g.chance(50) { g.rng.below(n) } else { n - 1 - g.rng.below(n / 3 + 1) };
                Some(ch.order[idx as usize])
            } else {
                None
            };
            let budget = 10 + g.rng.below(if target.is_some() { 40 } else { 120 }) as i64;
            let tree = g.gen_doc(*v, ch, target, budget);
            let st = g.style();
            let doc = g.render(&tree, &st);
            g.stat("docs.valid");
            g.stat(&format!("layout.sep{}", st.sep));
            if st.bom {
                g.stat("layout.bom");
            }
            g.stat(&format!("layout.standalone{}", st.standalone));
            write_case(&mut fdocs, &doc, "valid");
            if valid_docs.len() < 4000 {
                valid_docs.push(doc);
            }
            if k % 3 == 0 {
                trees.push((tree, *v, vi));
            }
        }
    }
    // kind-targeted documents: every character-data kind (float, unsigned, preserved string, each of the 28 patterns, enum)
    // as element text or attribute value, in every version (float / unsigned / preserve) resp. in a few versions (patterns)
    fn kind_key(c: &CharacterDataSpec) -> String {
        match c {
            CharacterDataSpec::Enum { .. } => "enum".into(),
            CharacterDataSpec::Pattern { regex, .. } => format!("pattern:{}", regex),
            CharacterDataSpec::String { preserve_whitespace: true, .. } => "string-preserve".into(),
            CharacterDataSpec::String { .. } => "string".into(),
            CharacterDataSpec::UnsignedInteger => "uint".into(),
            CharacterDataSpec::Float => "float".into(),
        }
    }
    let mut kinds_hit: std::collections::BTreeSet<String> = Default::default();
    for (vi, v) in vers.iter().enumerate() {
        let ch = &chains_all[vi];
        let mut by_kind: BTreeMap<String, Vec<ElementType>> = BTreeMap::new();
        for t in ch.order.iter() {
            if let Some(c) = t.chardata_spec() {
                by_kind.entry(kind_key(c)).or_default().push(*t);
            }
            for (an, c, _) in t.attribute_spec_iter() {
                if t.find_attribute_spec(an).map(|s| s.version & (*v as u32) != 0).unwrap_or(false) {
                    by_kind.entry(format!("attr-{}", kind_key(c))).or_default().push(*t);
                }
            }
        }
        for (k, types) in by_kind.iter() {
            let always = k == "float" || k == "uint" || k == "string-preserve" || k == "attr-float" || k == "attr-uint" || k == "attr-string-preserve";
            let isfloat = k == "float" || k == "attr-float";
            let reps = if isfloat { if thorough { 10 } else { 5 } } else if always { if thorough { 6 } else { 2 } } else if thorough { 2 } else if (vi + k.len()) % 7 == 0 { 1 } else { 0 };
            for _ in 0..reps {
                let t = types[g.rng.below(types.len() as u64) as usize];
                let tree = g.gen_doc(*v, ch, Some(t), 12);
                let st = g.style();
                let doc = g.render(&tree, &st);
                g.stat("docs.valid");
                g.stat("docs.kind-targeted");
                kinds_hit.insert(k.clone());
                write_case(&mut fdocs, &doc, "valid");
                if valid_docs.len() < 4000 {
                    valid_docs.push(doc);
                }
                trees.push((tree, *v, vi));
            }
        }
    }
    g.stats.insert("kinds-targeted".into(), kinds_hit.len() as u64);
    // NEAR-MEMBER values for every pattern-validated type (C02: the validators run on arbitrary bytes): for each published regex the
    // members (corpus + generic) and single-byte edits of them that keep the length (move one byte to another position, swap,
    // replace) or change it by one (delete, duplicate, insert), placed as element text / attribute value in a minimal valid hierarchy
    {
        let mut sites: BTreeMap<String, Vec<(usize, ElementType, bool, fn(&[u8]) -> bool)>> = BTreeMap::new();
        for (vi, v) in vers.iter().enumerate() {
            for t in chains_all[vi].order.iter() {
                if let Some(CharacterDataSpec::Pattern { regex, check_fn, .. }) = t.chardata_spec() {
                    let e = sites.entry(regex.to_string()).or_default();
                    if e.iter().filter(|x| !x.2).count() < 3 && t.content_mode() == ContentMode::Characters {
                        e.push((vi, *t, false, *check_fn));
                    }
                }
                for (an, c, _) in t.attribute_spec_iter() {
                    if let CharacterDataSpec::Pattern { regex, check_fn, .. } = c {
                        if t.find_attribute_spec(an).map(|sp| sp.version & (*v as u32) != 0).unwrap_or(false) {
                            let e = sites.entry(regex.to_string()).or_default();
                            if e.iter().filter(|x| x.2).count() < 2 {
                                e.push((vi, *t, true, *check_fn));
                            }
                        }
                    }
                }
            }
        }
        let cap = if thorough { 1200 } else { 130 };
        for (regex, ss) in sites.iter() {
            let check_fn = ss[0].3;
            let mut base: Vec<Vec<u8>> = members.by_text.get(regex).cloned().unwrap_or_default();
            for gname in GENERIC {
                if check_fn(gname.as_bytes()) {
                    base.push(gname.as_bytes().to_vec());
                }
            }
            base.dedup();
            let mut vals: Vec<Vec<u8>> = Vec::new();
            for m in base.iter().filter(|m| !m.is_empty() && m.len() <= 64) {
                vals.push(m.clone());
                let n = m.len();
                for i in 0..n {
                    // delete, duplicate
                    let mut d = m.clone();
                    d.remove(i);
                    vals.push(d);
                    let mut d = m.clone();
                    d.insert(i, m[i]);
                    vals.push(d);
                    // move byte i to every other position (length kept)
                    for j in 0..n {
                        if j != i {
                            let mut d = m.clone();
                            let c = d.remove(i);
                            d.insert(j, c);
                            vals.push(d);
                        }
                    }
                    // replace by / insert a byte that occurs in the member or a separator
                    for c in [m[(i * 7 + 3) % n], b':', b'.', b'-', b'0', b'x', b' ', b'/'] {
                        let mut d = m.clone();
                        d[i] = c;
                        vals.push(d);
                        let mut d = m.clone();
                        d.insert(i, c);
                        vals.push(d);
                    }
                }
            }
            vals.sort();
            vals.dedup();
            // deterministic sample, spread over the whole list
            let step = (vals.len() / cap).max(1);
            let off = (seed as usize) % step;
            let mut count = 0;
            for (k, val) in vals.iter().enumerate() {
                if k % step != off || val.is_empty() {
                    continue;
                }
                let (vi, t, is_attr, _) = ss[count % ss.len()];
                count += 1;
                let mut tree = g.gen_doc(vers[vi], &chains_all[vi], Some(t), 3);
                if set_pattern_value(&mut tree, regex, val, is_attr) {
                    let st = g.style();
                    let doc = g.render(&tree, &st);
                    write_case(&mut fmut, &doc, if is_attr { "mut:near-member-attribute" } else { "mut:near-member-text" });
                    g.stat("mutant.near-member");
                }
            }
            g.stat("near-member.regexes");
            // length-limited pattern types: over-long values (and values of exactly the limit) with a multi-byte character or an
            // invalid byte at every offset around the limit
            let mut maxlens: Vec<usize> = Vec::new();
            for (_, t, is_attr, _) in ss.iter() {
                let ml = if *is_attr {
                    t.attribute_spec_iter().find_map(|(_, c, _)| if let CharacterDataSpec::Pattern { regex: r, max_length, .. } = c { if *r == regex.as_str() { *max_length } else { None } } else { None })
                } else if let Some(CharacterDataSpec::Pattern { max_length, .. }) = t.chardata_spec() {
                    *max_length
                } else {
                    None
                };
                if let Some(m) = ml {
                    if !maxlens.contains(&m) {
                        maxlens.push(m);
                    }
                }
            }
            for m in maxlens {
                const INS: &[&[u8]] = &["\u{fc}".as_bytes(), "\u{20ac}".as_bytes(), "\u{1F600}".as_bytes(), b"\xff", b"\xc3", b"\xe2\x82", b"\xf0\x9f\x98"];
                let mut count = 0;
                for off in (m.saturating_sub(4))..=(m + 1) {
                    for ins in INS {
                        for total in [m, m + 1, m + 4] {
                            let mut val = vec![b'a'; off];
                            val.extend_from_slice(ins);
                            while val.len() < total {
                                val.push(b'b');
                            }
                            let (vi, t, is_attr, _) = ss[count % ss.len()];
                            count += 1;
                            let mut tree = g.gen_doc(vers[vi], &chains_all[vi], Some(t), 3);
                            if set_pattern_value(&mut tree, regex, &val, is_attr) {
                                let st = g.style();
                                let doc = g.render(&tree, &st);
                                write_case(&mut fmut, &doc, "mut:overlong-multibyte-at-limit");
                                g.stat("mutant.overlong-multibyte-at-limit");
                            }
                        }
                    }
                }
            }
        }
    }
    // valid documents of the classes that are known to be mishandled
    for class in ["pattern-ref", "enc-blank", "split-text", "split-text-pi", "mixed-split"] {
        let mut made = 0;
        let want = if thorough { 120 } else { 24 };
        let mut tries = 0;
        while made < want && tries < want * 20 {
            tries += 1;
            let k = g.rng.below(trees.len() as u64) as usize;
            let (mut tree, v, _) = trees[k].clone();
            g.v = v;
            if g.special(&mut tree, class) {
                let mut st = g.style();
                st.refs = false;
                let doc = g.render(&tree, &st);
                write_case(&mut fdocs, &doc, &format!("valid:{}", class));
                g.stat(&format!("docs.valid:{}", class));
                made += 1;
            }
        }
    }
    // defect injector
    let per_class = if thorough { 400 } else { 50 };
    // (version, type) pairs that have a version-foreign sub-element inside a nested group
    let mut nested_sites: Vec<(usize, ElementType)> = Vec::new();
    for (vi, v) in vers.iter().enumerate() {
        let vm = *v as u32;
        for t in chains_all[vi].order.iter() {
            if t.content_mode() == ContentMode::Characters {
                continue;
            }
            let hit = t.sub_element_spec_iter().any(|(cname, _, mask, _)| {
                mask & vm == 0 && t.find_sub_element(cname, vm).is_none() && t.find_sub_element(cname, u32::MAX).map(|(_, i)| i.len() >= 2).unwrap_or(false)
            });
            if hit {
                nested_sites.push((vi, *t));
            }
        }
    }
    g.stats.insert("nested-version-foreign-sites(version,type)".into(), nested_sites.len() as u64);
    for class in DEFECTS {
        let mut made = 0;
        let mut tries = 0;
        let per_class = if *class == "bad-entity-combined" {
            if thorough { 480 } else { 240 }
        } else if *class == "trailing-data" && !thorough {
            110
        } else if *class == "version-element-nested" { if thorough { nested_sites.len().max(per_class) } else { 160 } } else { per_class };
        while made < per_class && tries < per_class * 30 {
            tries += 1;
            let k = g.rng.below(trees.len() as u64) as usize;
            let (mut tree, mut v, _) = trees[k].clone();
            if *class == "version-element-nested" && !nested_sites.is_empty() {
                // a document that reaches one of the (few) types with such an entry, cycling through all of them
                let (vi, t) = nested_sites[(made * 2 + (seed as usize % 2) + tries - made - 1) % nested_sites.len()];
                v = vers[vi];
                tree = g.gen_doc(v, &chains_all[vi], Some(t), 6);
            }
            g.v = v;
            let mut trailer = Vec::new();
            // (the class that is a recorded hole is never combined: a second defect on the same site would hide which one was accepted)
            let ndef = if thorough && *class != "empty-value" && !class.starts_with("tail-") { 1 + g.rng.below(3) } else { 1 };
            let mut ok = g.inject(&mut tree, class, &mut trailer);
            let mut tag = if class.starts_with("tail-") { format!("tail:{}", &class[5..]) } else { format!("x={}", class) };
            for _ in 1..ndef {
                let c2 = DEFECTS[g.rng.below(DEFECTS.len() as u64) as usize];
                if ok && c2 != "empty-value" && !c2.starts_with("tail-") && g.inject(&mut tree, c2, &mut trailer) {
                    tag = format!("{}+{}", tag, c2);
                }
            }
            if ok {
                let st = g.style();
                let mut doc = g.render(&tree, &st);
                doc.extend_from_slice(&trailer);
                write_case(&mut fdef, &doc, &tag);
                g.stat(&format!("defect.{}", class));
                made += 1;
            }
            ok = false;
            let _ = ok;
        }
        if made == 0 {
            g.stat(&format!("defect-no-site.{}", class));
        }
    }
    // mutants
    let nmut = if thorough { 60000 } else { 3000 };
    let mut mrng = SplitMix64(seed ^ 0xA0761D6478BD642F);
    // all token-boundary truncations of a few small documents
    let mut small: Vec<&Vec<u8>> = valid_docs.iter().filter(|d| d.len() < 1200).collect();
    small.truncate(if thorough { 40 } else { 6 });
    let mut count = 0;
    for d in small.iter() {
        for (s, _) in tokens(d) {
            write_case(&mut fmut, &d[..s], "mut:truncate-every-token");
            count += 1;
        }
    }
    *g.stats.entry("mutant.truncate-every-token".into()).or_insert(0) += count;
    for _ in 0..nmut {
        let d = &valid_docs[mrng.below(valid_docs.len() as u64) as usize];
        let (mut m, mut op) = mutate(&mut mrng, d);
        if mrng.below(4) == 0 {
            let (m2, op2) = mutate(&mut mrng, &m);
            m = m2;
            op = op2;
        }
        write_case(&mut fmut, &m, &format!("mut:{}", op));
        g.stat(&format!("mutant.{}", op));
    }
    // control / non-ASCII bytes inside values together with ASCII blanks: every shape  ws* c ws*  and  c alone  for
    // c in {0x0B, 0x0C, 0x00, 0x1C, 0x1F, 0x7F, 0x80, 0x85, 0xA0, 0xFF}, ws in {SP, TAB, CR, LF}, as element text and as attribute
    // value (round-robin over byte x shape x blank; the trimming / classification code sees each byte next to each kind of blank)
    {
        const CB: &[u8] = &[0x0B, 0x0C, 0x00, 0x1C, 0x1F, 0x7F, 0x80, 0x85, 0xA0, 0xFF];
        const WS: &[u8] = &[b' ', b'\t', b'\r', b'\n'];
        let small: Vec<&Vec<u8>> = valid_docs.iter().filter(|d| d.len() < 2500).collect();
        let reps = if thorough { 6 } else { 1 };
        let mut k = 0usize;
        for _ in 0..reps {
            for c in CB {
                for shape in 0..7 {
                    for w in WS {
                        for target in 0..2 {
                            if small.is_empty() {
                                continue;
                            }
                            let d = small[(k * 11) % small.len()];
                            k += 1;
                            let spans = value_spans(d, target == 1);
                            if spans.is_empty() {
                                continue;
                            }
                            let (a, b) = spans[mrng.below(spans.len() as u64) as usize];
                            let v: Vec<u8> = match shape {
                                0 => vec![*c],
                                1 => vec![*w, *c],
                                2 => vec![*c, *w],
                                3 => vec![*w, *c, *w],
                                4 => vec![*w, *w, *c],
                                5 => vec![*c, *w, b' '],
                                _ => vec![b' ', *w, *c, *w, b' '],
                            };
                            let mut m = d[..a].to_vec();
                            m.extend_from_slice(&v);
                            m.extend_from_slice(&d[b..]);
                            write_case(&mut fmut, &m, if target == 1 { "mut:ctrl-byte-in-attribute-value" } else { "mut:ctrl-byte-in-text-value" });
                            g.stat(if target == 1 { "mutant.ctrl-byte-in-attribute-value" } else { "mutant.ctrl-byte-in-text-value" });
                        }
                    }
                }
            }
        }
    }
    g.stats.insert("distinct-element-types-generated".into(), g.types_seen.len() as u64);
    for (k, v) in g.stats.iter() {
        println!("STAT {} {}", k, v);
    }
}
