//! C13 — deep copy and model duplication: generator shapes for the element-tree scripts (`AVH_TREE_ENABLE=dup`),
//! the direct property oracle on the implementation, and a probe of the specification tables.
//!   avh copy probe                       element names whose type differs by parent (candidate defect "type kept")
//!   avh copy oracle <dump> <script> [-v] run the scripts on the real library and check the property at every operation
use crate::tree::*;
use crate::util::*;
use autosar_data::*;
use autosar_data_specification::{CharacterDataSpec, ContentMode, ElementType};
use std::collections::{BTreeMap, BTreeSet, HashMap, HashSet, VecDeque};
use std::sync::mpsc;

// ------------------------------------------------------------------------------------------------ spec probe
/// BFS over all element types reachable from the root (any version): chain of element names leading to each type
pub fn type_chains() -> (Vec<ElementType>, HashMap<ElementType, (ElementType, ElementName)>) {
    let mut parent: HashMap<ElementType, (ElementType, ElementName)> = HashMap::new();
    let mut order = vec![];
    let mut seen: HashSet<ElementType> = HashSet::new();
    let mut q = VecDeque::new();
    q.push_back(ElementType::ROOT);
    seen.insert(ElementType::ROOT);
    while let Some(t) = q.pop_front() {
        order.push(t);
        for (name, ct, _mask, _) in t.sub_element_spec_iter() {
            if seen.insert(ct) {
                parent.insert(ct, (t, name));
                q.push_back(ct);
            }
        }
    }
    (order, parent)
}

pub fn chain_of(t: ElementType, parent: &HashMap<ElementType, (ElementType, ElementName)>) -> Vec<ElementName> {
    let mut v = vec![];
    let mut cur = t;
    while let Some((p, n)) = parent.get(&cur) {
        v.push(*n);
        cur = *p;
    }
    v.reverse();
    v
}

fn sub_names(t: ElementType, vm: u32) -> BTreeSet<String> {
    t.sub_element_spec_iter().filter(|(_, _, m, _)| m & vm != 0).map(|(n, _, _, _)| n.to_string()).collect()
}

fn probe_main() {
    let (order, parent) = type_chains();
    let latest = AutosarVersion::LATEST as u32;
    // name -> list of (parent type, child type)
    let mut by_name: BTreeMap<String, Vec<(ElementType, ElementType)>> = BTreeMap::new();
    for t in &order {
        for (name, ct, mask, _) in t.sub_element_spec_iter() {
            if mask & latest != 0 {
                by_name.entry(name.to_string()).or_default().push((*t, ct));
            }
        }
    }
    let mut shown = 0;
    for (name, l) in &by_name {
        // distinct child types with different sub-element sets
        for i in 0..l.len() {
            for j in 0..l.len() {
                if i == j || l[i].1 == l[j].1 {
                    continue;
                }
                let a = sub_names(l[i].1, latest);
                let b = sub_names(l[j].1, latest);
                let only_a: Vec<&String> = a.difference(&b).collect();
                if only_a.is_empty() {
                    continue;
                }
                let ca = chain_of(l[i].0, &parent);
                let cb = chain_of(l[j].0, &parent);
                if ca.len() + cb.len() > 12 {
                    continue;
                }
                shown += 1;
                if shown < 400 {
                    println!(
                        "{} only-in-first={:?} under1={} under2={}",
                        name,
                        &only_a[..only_a.len().min(3)],
                        ca.iter().map(|x| x.to_string()).collect::<Vec<_>>().join("/"),
                        cb.iter().map(|x| x.to_string()).collect::<Vec<_>>().join("/")
                    );
                }
            }
        }
    }
    println!("STAT candidates={}", shown);
    let _ = ContentMode::Sequence;
}

/// required attributes that are not valid in every version (by mask or by the masks of their enum items)
fn probe_required() {
    let (order, parent) = type_chains();
    let all: u32 = 0x1fffff;
    let mut n = 0;
    for t in &order {
        for (an, spec, required) in t.attribute_spec_iter() {
            if !required {
                continue;
            }
            let Some(a) = t.find_attribute_spec(an) else { continue };
            let partial_items = match spec {
                CharacterDataSpec::Enum { items } => items.iter().filter(|(_, m)| m & all != all).count(),
                _ => 0,
            };
            if a.version & all != all || partial_items > 0 {
                n += 1;
                if n < 60 {
                    println!(
                        "REQ {} attr={} mask={:x} partial_enum_items={} chain={}",
                        n,
                        an,
                        a.version,
                        partial_items,
                        chain_of(*t, &parent).iter().map(|x| x.to_string()).collect::<Vec<_>>().join("/")
                    );
                }
            }
        }
    }
    println!("STAT required_partial={}", n);
}

/// a few fixed situations run directly on the library
fn probe_cases() {
    // (c) identifiable element whose SHORT-NAME has no text
    let text = r#"<?xml version="1.0" encoding="utf-8"?>
<AUTOSAR xsi:schemaLocation="http://autosar.org/schema/r4.0 AUTOSAR_00050.xsd" xmlns="http://autosar.org/schema/r4.0" xmlns:xsi="http://www.w3.org/2001/XMLSchema-instance"><AR-PACKAGES><AR-PACKAGE><SHORT-NAME>P</SHORT-NAME><ELEMENTS><SYSTEM><SHORT-NAME>S</SHORT-NAME><FIBEX-ELEMENTS/></SYSTEM></ELEMENTS><AR-PACKAGES><AR-PACKAGE><SHORT-NAME/></AR-PACKAGE></AR-PACKAGES></AR-PACKAGE></AR-PACKAGES></AUTOSAR>"#;
    let m = AutosarModel::new();
    match m.load_buffer(text.as_bytes(), "t.arxml", false) {
        Ok((_, ws)) => {
            println!("CASE-C loaded warnings={}", ws.len());
            let p = m.get_element_by_path("/P").unwrap();
            println!("CASE-C before: /P -> {}", m.get_element_by_path("/P").map(|e| e.xml_path()).unwrap_or_default());
            // copy the whole package P (it contains the nameless package) next to itself
            let pk = p.parent().unwrap().unwrap();
            let r = pk.create_copied_sub_element(&p);
            println!("CASE-C copy of /P: {:?}", r.as_ref().map(|e| e.path()).map_err(|e| err_name(e)));
            for (pth, w) in m.identifiable_elements() {
                println!("CASE-C index {} -> {}", pth, w.upgrade().map(|e| e.xml_path()).unwrap_or_default());
            }
        }
        Err(e) => println!("CASE-C load error {}", err_name(&e)),
    }
}


// ------------------------------------------------------------------------------------------------ generator shapes
fn ok_h(r: &str) -> Option<usize> {
    r.strip_prefix("R OK h").and_then(|x| x.parse::<usize>().ok())
}
fn ok_m(r: &str) -> Option<usize> {
    r.strip_prefix("R OK m").and_then(|x| x.parse::<usize>().ok())
}

fn subtree_handles(g: &Gen, root: usize) -> Vec<usize> {
    let e = g.ex.handles[root].clone();
    e.elements_dfs().filter_map(|(_, x)| g.ex.hidx.get(&x).copied()).collect()
}

fn pick_enum(g: &mut Gen, items: &[(EnumItem, u32)], srcver: u32, target: u32) -> Option<Val> {
    let valid: Vec<&(EnumItem, u32)> = items.iter().filter(|(_, m)| m & srcver != 0).collect();
    if valid.is_empty() {
        return None;
    }
    let partial: Vec<&&(EnumItem, u32)> = valid.iter().filter(|(_, m)| m & target == 0).collect();
    let it = if !partial.is_empty() && g.rng.below(10) < 7 { **partial[g.rng.below(partial.len() as u64) as usize] } else { *valid[g.rng.below(valid.len() as u64) as usize] };
    Some(Val::E(it.0 as u16))
}

/// grow the subtree below `root` with sub-elements, attributes and enum values; parts that are valid in the
/// element's own version but NOT in `target` (a version bit) are preferred
pub fn enrich(g: &mut Gen, root: usize, target: u32, steps: usize) {
    for _ in 0..steps {
        let hs = subtree_handles(g, root);
        if hs.is_empty() {
            return;
        }
        // bias towards recently created elements
        let hk = if g.rng.below(3) == 0 { hs[g.rng.below(hs.len() as u64) as usize] } else { hs[hs.len() - 1 - g.rng.below((hs.len() as u64).min(4)) as usize] };
        let e = g.ex.handles[hk].clone();
        let Ok(ver) = e.min_version() else { return };
        let srcver = ver as u32;
        let et = e.element_type();
        match g.rng.below(10) {
            0..=5 => {
                let specs: Vec<(ElementName, u32, u32)> = et.sub_element_spec_iter().filter(|(_, _, m, _)| m & srcver != 0).map(|(n, _, m, nm)| (n, m, nm)).collect();
                if specs.is_empty() {
                    continue;
                }
                let partial: Vec<&(ElementName, u32, u32)> = specs.iter().filter(|(_, m, _)| m & target == 0).collect();
                let (name, _, named_mask) = if !partial.is_empty() && g.rng.below(10) < 6 { *partial[g.rng.below(partial.len() as u64) as usize] } else { specs[g.rng.below(specs.len() as u64) as usize] };
                if named_mask & srcver != 0 {
                    let item = g.item_name();
                    g.push(Op::CreateNamed(hk, name as u16, item));
                } else {
                    g.push(Op::CreateSub(hk, name as u16));
                }
            }
            6 | 7 => {
                let specs: Vec<(AttributeName, &CharacterDataSpec, u32)> =
                    et.attribute_spec_iter().filter_map(|(n, sp, _)| et.find_attribute_spec(n).map(|a| (n, sp, a.version))).collect();
                if specs.is_empty() {
                    continue;
                }
                let partial: Vec<&(AttributeName, &CharacterDataSpec, u32)> = specs.iter().filter(|(_, _, m)| m & target == 0 && m & srcver != 0).collect();
                let (an, spec, _) = if !partial.is_empty() && g.rng.below(10) < 6 { *partial[g.rng.below(partial.len() as u64) as usize] } else { specs[g.rng.below(specs.len() as u64) as usize] };
                let v = match spec {
                    CharacterDataSpec::Enum { items } => pick_enum(g, items, srcver, target).unwrap_or(Val::U(0)),
                    other => g.value_for(Some(other)),
                };
                g.push(Op::SetAttr(hk, an as u16, v));
            }
            8 => {
                if matches!(e.content_type(), ContentType::CharacterData | ContentType::Mixed) && !e.is_reference() && e.element_name() != ElementName::ShortName {
                    let v = match et.chardata_spec() {
                        Some(CharacterDataSpec::Enum { items }) => pick_enum(g, items, srcver, target).unwrap_or(Val::U(0)),
                        other => g.value_for(other),
                    };
                    g.push(Op::SetCData(hk, v));
                }
            }
            _ => {
                let c = match g.rng.below(3) { 0 => Some(b"c1".to_vec()), 1 => Some(b"a--b".to_vec()), _ => Some(b" note <x> ".to_vec()) };
                g.push(Op::SetComment(hk, c));
            }
        }
    }
}

/// a chain of sub-element names below type `ty` (valid in both versions) that ends in a reference element whose
/// required DEST attribute has an enum item that exists in `srcver` but NOT in `target`
fn find_versioned_ref(ty: ElementType, srcver: u32, target: u32, depth: usize, rng: &mut SplitMix64) -> Option<(Vec<(ElementName, bool)>, EnumItem)> {
    let mut specs: Vec<(ElementName, ElementType, u32, u32)> = ty.sub_element_spec_iter().filter(|(_, _, m, _)| m & srcver != 0 && m & target != 0).collect();
    // random rotation so that different chains are found
    if !specs.is_empty() {
        let k = rng.below(specs.len() as u64) as usize;
        specs.rotate_left(k);
    }
    for (name, ct, _, named) in &specs {
        if ct.is_ref() {
            if let Some(a) = ct.find_attribute_spec(AttributeName::Dest) {
                if a.version & target != 0 && a.version & srcver != 0 {
                    if let CharacterDataSpec::Enum { items } = a.spec {
                        let cands: Vec<&(EnumItem, u32)> = items.iter().filter(|(_, m)| m & srcver != 0 && m & target == 0).collect();
                        if !cands.is_empty() {
                            let it = cands[rng.below(cands.len() as u64) as usize].0;
                            return Some((vec![(*name, named & srcver != 0)], it));
                        }
                    }
                }
            }
        }
    }
    if depth == 0 {
        return None;
    }
    for (name, ct, _, named) in &specs {
        if *name == ElementName::ShortName || ct.is_ref() {
            continue;
        }
        if let Some((mut chain, it)) = find_versioned_ref(*ct, srcver, target, depth - 1, rng) {
            chain.insert(0, (*name, named & srcver != 0));
            return Some((chain, it));
        }
    }
    None
}

/// build (below `root`) a reference whose DEST value is newer than the target version
pub fn add_versioned_ref(g: &mut Gen, root: usize, target: u32) -> bool {
    let e = g.ex.handles[root].clone();
    let Ok(ver) = e.min_version() else { return false };
    let srcver = ver as u32;
    let hs = subtree_handles(g, root);
    // start somewhere in the subtree (the root first)
    let mut starts = vec![root];
    for _ in 0..3 {
        if !hs.is_empty() {
            starts.push(hs[g.rng.below(hs.len() as u64) as usize]);
        }
    }
    for st in starts {
        let ty = g.ex.handles[st].element_type();
        let found = find_versioned_ref(ty, srcver, target, 3, &mut g.rng);
        let Some((chain, item)) = found else { continue };
        let mut cur = st;
        let mut ok = true;
        for (name, named) in &chain {
            let r = if *named {
                let it = g.item_name();
                g.push(Op::GetOrCreateNamed(cur, *name as u16, it))
            } else {
                g.push(Op::GetOrCreate(cur, *name as u16))
            };
            match ok_h(&r) {
                Some(h) => cur = h,
                None => {
                    ok = false;
                    break;
                }
            }
        }
        if ok {
            g.push(Op::SetAttr(cur, AttributeName::Dest as u16, Val::E(item as u16)));
            let p = *g.rng.pick(&["/r1/Sig", "/other/x", "/p1/a"]);
            g.paths.insert(p.to_string());
            g.push(Op::SetCData(cur, Val::S(p.as_bytes().to_vec())));
            return true;
        }
    }
    false
}

/// a chain of sub-element names below type `ty` (all valid in version `ver`) that ends in an element whose type is
/// splittable in SOME version but NOT in `ver`, followed by the name of one of its sub-elements (valid in `ver`):
/// a place where an element can get its own file membership although its parent is not a split point of the file's version
fn find_foreign_split(ty: ElementType, ver: u32, depth: usize, rng: &mut SplitMix64) -> Option<(Vec<(ElementName, bool)>, (ElementName, bool))> {
    let mut specs: Vec<(ElementName, ElementType, u32, u32)> = ty.sub_element_spec_iter().filter(|(_, _, m, _)| m & ver != 0).collect();
    if !specs.is_empty() {
        let k = rng.below(specs.len() as u64) as usize;
        specs.rotate_left(k);
    }
    for (name, ct, _, named) in &specs {
        if ct.splittable() != 0 && ct.splittable() & ver == 0 {
            let kids: Vec<(ElementName, bool)> = ct.sub_element_spec_iter().filter(|(n, _, m, _)| m & ver != 0 && *n != ElementName::ShortName).map(|(n, _, _, nm)| (n, nm & ver != 0)).collect();
            if !kids.is_empty() {
                let kid = kids[rng.below(kids.len() as u64) as usize];
                return Some((vec![(*name, named & ver != 0)], kid));
            }
        }
    }
    if depth == 0 {
        return None;
    }
    for (name, ct, _, named) in &specs {
        if *name == ElementName::ShortName || ct.is_ref() {
            continue;
        }
        if let Some((mut chain, kid)) = find_foreign_split(*ct, ver, depth - 1, rng) {
            chain.insert(0, (*name, named & ver != 0));
            return Some((chain, kid));
        }
    }
    None
}

/// below `root`: an element with its OWN file membership whose parent is a split point only in other versions
pub fn add_foreign_split_member(g: &mut Gen, root: usize) -> bool {
    let e = g.ex.handles[root].clone();
    let Ok(ver) = e.min_version() else { return false };
    let ver = ver as u32;
    let found = find_foreign_split(e.element_type(), ver, 3, &mut g.rng);
    let Some((chain, (kid, kid_named))) = found else { return false };
    let mut cur = root;
    for (name, named) in &chain {
        let r = if *named {
            let it = g.item_name();
            g.push(Op::GetOrCreateNamed(cur, *name as u16, it))
        } else {
            g.push(Op::GetOrCreate(cur, *name as u16))
        };
        match ok_h(&r) {
            Some(h) => cur = h,
            None => return false,
        }
    }
    // one or two sub-elements below the version-dependent split point, each restricted to one file
    let nfiles = g.ex.files.len();
    let mut done = false;
    for _ in 0..(1 + g.rng.below(2)) {
        let r = if kid_named {
            let it = g.item_name();
            g.push(Op::CreateNamed(cur, kid as u16, it))
        } else {
            g.push(Op::CreateSub(cur, kid as u16))
        };
        if let Some(k) = ok_h(&r) {
            let m = g.ex.handles[k].model().ok();
            let mine: Vec<usize> = (0..nfiles).filter(|f| g.ex.files[*f].model().ok() == m).collect();
            if mine.len() >= 2 {
                let f = mine[g.rng.below(mine.len() as u64) as usize];
                if g.rng.below(2) == 0 {
                    g.push(Op::RemoveFromFile(k, f));
                } else {
                    // restrict to one file: add to it, remove from the others
                    g.push(Op::AddToFile(k, f));
                    for o in &mine {
                        if *o != f {
                            g.push(Op::RemoveFromFile(k, *o));
                        }
                    }
                }
                done = true;
            }
        }
    }
    done
}

/// handle of the ELEMENTS container of some package of model `m` (created when missing)
fn elements_of(g: &mut Gen, m: usize, pkg: &str) -> Option<usize> {
    let n = g.ex.names;
    let root = g.ex.models[m].root_element();
    let rk = *g.ex.hidx.get(&root)?;
    let pk = ok_h(&g.push(Op::GetOrCreate(rk, n.elidx("AR-PACKAGES"))))?;
    let p = ok_h(&g.push(Op::GetOrCreateNamed(pk, n.elidx("AR-PACKAGE"), pkg.as_bytes().to_vec())))?;
    ok_h(&g.push(Op::GetOrCreate(p, n.elidx("ELEMENTS"))))
}

fn second_model(g: &mut Gen, version: u32) -> Option<usize> {
    let m = ok_m(&g.push(Op::NewModel))?;
    g.push(Op::CreateFile(m, b"g0.arxml".to_vec(), version));
    Some(m)
}

pub fn scenario(g: &mut Gen, k: u64) {
    let n = g.ex.names;
    if g.ex.models.is_empty() {
        g.push(Op::NewModel);
        g.push(Op::CreateFile(0, b"f0.arxml".to_vec(), VERSIONS[0]));
    }
    if g.ex.files.is_empty() {
        return;
    }
    if g.enable.iter().any(|e| e == "load") && g.rng.below(5) == 0 {
        // identifiable elements without item name can only come from a file: <SHORT-NAME/>
        let strict = g.rng.below(2) == 0;
        let r = g.push(Op::Load(0, NAMELESS_DOC.as_bytes().to_vec(), b"nameless.arxml".to_vec(), strict));
        if r.starts_with("R OK") {
            if let Some(p) = g.ex.models[0].get_element_by_path("/P").and_then(|e| g.ex.hidx.get(&e).copied()) {
                if let Some(pk) = g.ex.handles[p].parent().ok().flatten().and_then(|e| g.ex.hidx.get(&e).copied()) {
                    g.push(Op::Copy(pk, p));
                    // the nameless package itself
                    let inner = g.pick_where(|e| e.is_identifiable() && e.item_name().is_none());
                    if let Some(i) = inner {
                        g.push(Op::Copy(pk, i));
                    }
                }
            }
        }
    }
    let shape = (k / 2) % 8;
    match shape {
        0 | 1 => {
            // cross-version copy: new -> old (shape 0) and old -> new (shape 1) of an enriched element
            let old = *g.rng.pick(&[0x1u32, 0x8, 0x80, 0x800, 0x8000, 0x40000]);
            let Some(m2) = second_model(g, old) else { return };
            let (src_m, dst_m, target) = if shape == 0 { (0, m2, old) } else { (m2, 0, g.ex.files[0].version() as u32) };
            let Some(se) = elements_of(g, src_m, "s1") else { return };
            let Some(de) = elements_of(g, dst_m, "d1") else { return };
            for _ in 0..(1 + g.rng.below(3)) {
                let kind = *g.rng.pick(ELEMENT_KINDS);
                let item = g.item_name();
                let Some(x) = ok_h(&g.push(Op::CreateNamed(se, n.elidx(kind), item))) else { continue };
                let steps = 6 + g.rng.below(18) as usize;
                enrich(g, x, target, steps);
                // references whose DEST value does not exist in the target version
                for _ in 0..(1 + g.rng.below(3)) {
                    add_versioned_ref(g, x, target);
                }
                if g.rng.below(4) == 0 {
                    let p = g.rng.below(3) as usize;
                    g.push(Op::CopyAt(de, x, p));
                } else {
                    g.push(Op::Copy(de, x));
                }
            }
            // the whole package, and a duplicate of both sides
            if g.rng.below(2) == 0 {
                let sp = g.ex.handles[se].parent().ok().flatten().and_then(|p| g.ex.hidx.get(&p).copied());
                let dp = g.ex.handles[de].parent().ok().flatten().and_then(|p| p.parent().ok().flatten()).and_then(|p| g.ex.hidx.get(&p).copied());
                if let (Some(sp), Some(dp)) = (sp, dp) {
                    g.push(Op::Copy(dp, sp));
                }
            }
            if g.rng.below(2) == 0 {
                g.push(Op::Duplicate(src_m));
            }
        }
        2 => {
            // name clashes: copies into the own parent, with some of the suffixed names taken beforehand
            let Some(el) = elements_of(g, 0, "p1") else { return };
            let kind = *g.rng.pick(ELEMENT_KINDS);
            let base = *g.rng.pick(&["Sig", "a", "x_1", "a1"]);
            let Some(x) = ok_h(&g.push(Op::CreateNamed(el, n.elidx(kind), base.as_bytes().to_vec()))) else { return };
            enrich(g, x, 0xffff_ffff, 4);
            for j in [2u32, 4] {
                if g.rng.below(2) == 0 {
                    g.push(Op::CreateNamed(el, n.elidx(kind), format!("{}_{}", base, j).into_bytes()));
                }
            }
            for _ in 0..(2 + g.rng.below(4)) {
                let r = g.push(Op::Copy(el, x));
                if g.rng.below(3) == 0 {
                    // a copy of the copy
                    if let Some(c) = ok_h(&r) {
                        g.push(Op::Copy(el, c));
                    }
                }
            }
            // clashes ACROSS kinds: an element of another kind with the same name, made in another package, is copied
            // into this ELEMENTS container: the path /p1/<base> is taken whatever the kind of the element there
            if let Some(el2) = elements_of(g, 0, "p1x") {
                let other_kinds: Vec<&str> = ELEMENT_KINDS.iter().copied().filter(|k| *k != kind).collect();
                if !other_kinds.is_empty() {
                    let k2 = other_kinds[g.rng.below(other_kinds.len() as u64) as usize];
                    if let Some(y) = ok_h(&g.push(Op::CreateNamed(el2, n.elidx(k2), base.as_bytes().to_vec()))) {
                        enrich(g, y, 0xffff_ffff, 3);
                        g.push(Op::Copy(el, y));
                        if g.rng.below(2) == 0 {
                            g.push(Op::Copy(el, y));
                        }
                    }
                }
            }
            // ... and across containers: a sub-package /p1/<base> next to the element /p1/<base>
            let pkg = g.ex.handles[el].parent().ok().flatten().and_then(|p| g.ex.hidx.get(&p).copied());
            let rk = g.ex.hidx.get(&g.ex.models[0].root_element()).copied();
            if let (Some(pkg), Some(rk)) = (pkg, rk) {
                if let Some(pks) = ok_h(&g.push(Op::GetOrCreate(rk, n.elidx("AR-PACKAGES")))) {
                    if let Some(sp) = ok_h(&g.push(Op::CreateNamed(pks, n.elidx("AR-PACKAGE"), base.as_bytes().to_vec()))) {
                        if let Some(sub) = ok_h(&g.push(Op::GetOrCreate(pkg, n.elidx("AR-PACKAGES")))) {
                            g.push(Op::Copy(sub, sp));
                            if g.rng.below(2) == 0 {
                                // the other direction: the sub-package is there first, an element of that name is copied in
                                g.push(Op::Copy(sub, sp));
                                g.push(Op::Copy(el, x));
                            }
                        }
                    }
                }
            }
        }
        3 => {
            // references: a package that contains a reference and its target is copied next to itself and into another model
            let Some(el) = elements_of(g, 0, "r1") else { return };
            let sig = ok_h(&g.push(Op::CreateNamed(el, n.elidx("SYSTEM-SIGNAL"), b"Sig".to_vec())));
            let isig = ok_h(&g.push(Op::CreateNamed(el, n.elidx("I-SIGNAL"), b"is".to_vec())));
            if let (Some(sig), Some(isig)) = (sig, isig) {
                if let Some(rf) = ok_h(&g.push(Op::CreateSub(isig, n.elidx("SYSTEM-SIGNAL-REF")))) {
                    g.push(Op::SetRefTarget(rf, sig));
                }
                // an external (dangling or foreign) reference
                if let Some(rf) = ok_h(&g.push(Op::CreateSub(isig, n.elidx("NETWORK-REPRESENTATION-PROPS")))) {
                    let _ = rf;
                }
            }
            if let Some(sys) = ok_h(&g.push(Op::CreateNamed(el, n.elidx("SYSTEM"), b"sys".to_vec()))) {
                if let Some(fe) = ok_h(&g.push(Op::CreateSub(sys, n.elidx("FIBEX-ELEMENTS")))) {
                    for t in ["/r1/Sig", "/other/x", "/r1"] {
                        if let Some(c) = ok_h(&g.push(Op::CreateSub(fe, n.elidx("FIBEX-ELEMENT-REF-CONDITIONAL")))) {
                            if let Some(rf) = ok_h(&g.push(Op::CreateSub(c, n.elidx("FIBEX-ELEMENT-REF")))) {
                                g.paths.insert(t.to_string());
                                g.push(Op::SetCData(rf, Val::S(t.as_bytes().to_vec())));
                            }
                        }
                    }
                }
            }
            let pkg = g.ex.handles[el].parent().ok().flatten().and_then(|p| g.ex.hidx.get(&p).copied());
            let pkgs = pkg.and_then(|p| g.ex.handles[p].parent().ok().flatten()).and_then(|p| g.ex.hidx.get(&p).copied());
            if let (Some(pkg), Some(pkgs)) = (pkg, pkgs) {
                g.push(Op::Copy(pkgs, pkg));
                g.push(Op::Copy(pkgs, pkg));
                if let Some(m2) = second_model(g, VERSIONS[0]) {
                    let root2 = g.ex.models[m2].root_element();
                    if let Some(rk) = g.ex.hidx.get(&root2).copied() {
                        if let Some(pk2) = ok_h(&g.push(Op::CreateSub(rk, n.elidx("AR-PACKAGES")))) {
                            g.push(Op::Copy(pk2, pkg));
                            g.push(Op::Copy(pk2, pkg));
                        }
                    }
                }
            }
        }
        4 => {
            // forbidden shapes: ancestor into descendant, element into itself, copy into a text element
            let hs: Vec<usize> = (0..g.ex.handles.len()).collect();
            for _ in 0..4 {
                let d = hs[g.rng.below(hs.len() as u64) as usize];
                let e = g.ex.handles[d].clone();
                let mut anc = vec![];
                let mut cur = e.parent().ok().flatten();
                while let Some(p) = cur {
                    if let Some(k) = g.ex.hidx.get(&p) {
                        anc.push(*k);
                    }
                    cur = p.parent().ok().flatten();
                }
                if !anc.is_empty() {
                    let a = anc[g.rng.below(anc.len() as u64) as usize];
                    g.push(Op::Copy(d, a));
                }
                g.push(Op::Copy(d, d));
                if g.rng.below(2) == 0 {
                    g.push(Op::CopyAt(d, d, 0));
                }
            }
            if let Some(t) = g.pick_where(|e| e.content_type() == ContentType::CharacterData) {
                if let Some(o) = g.pickh() {
                    g.push(Op::Copy(t, o));
                }
            }
        }
        5 => {
            // comments and mixed content
            let Some(el) = elements_of(g, 0, "m1") else { return };
            let Some(x) = ok_h(&g.push(Op::CreateNamed(el, n.elidx("SYSTEM"), b"doc".to_vec()))) else { return };
            g.push(Op::SetComment(x, Some(b"top--comment".to_vec())));
            if let Some(d) = ok_h(&g.push(Op::CreateSub(x, n.elidx("DESC")))) {
                if let Some(l2) = ok_h(&g.push(Op::CreateSub(d, n.elidx("L-2")))) {
                    g.push(Op::InsertCItem(l2, b"text one ".to_vec(), 0));
                    let r = g.push(Op::CreateSub(l2, n.elidx("TT")));
                    if let Some(tt) = ok_h(&r) {
                        g.push(Op::SetCData(tt, Val::S(b"tt".to_vec())));
                        g.push(Op::SetComment(tt, Some(b"inner".to_vec())));
                    }
                    g.push(Op::InsertCItem(l2, b" & two".to_vec(), 2));
                    g.push(Op::CreateSub(l2, n.elidx("BR")));
                    g.push(Op::SetComment(l2, Some(b"on mixed".to_vec())));
                }
            }
            enrich(g, x, 0xffff_ffff, 6);
            g.push(Op::Copy(el, x));
            let v2 = *g.rng.pick(&[VERSIONS[0], 0x1, 0x800]);
            if let Some(m2) = second_model(g, v2) {
                if let Some(e2) = elements_of(g, m2, "m1") {
                    g.push(Op::Copy(e2, x));
                }
            }
        }
        6 => {
            // an element name whose type depends on the parent: FRAGMENTATION-PROPS below IPV-4-PROPS / IPV-6-PROPS
            let Some(el) = elements_of(g, 0, "t1") else { return };
            let Some(ip) = ok_h(&g.push(Op::CreateNamed(el, n.elidx("ETH-IP-PROPS"), b"ip".to_vec()))) else { return };
            let v4 = ok_h(&g.push(Op::CreateSub(ip, n.elidx("IPV-4-PROPS"))));
            let v6 = ok_h(&g.push(Op::CreateSub(ip, n.elidx("IPV-6-PROPS"))));
            let (Some(v4), Some(v6)) = (v4, v6) else { return };
            let (a, b) = if g.rng.below(2) == 0 { (v4, v6) } else { (v6, v4) };
            let Some(fp) = ok_h(&g.push(Op::CreateSub(a, n.elidx("FRAGMENTATION-PROPS")))) else { return };
            enrich(g, fp, 0xffff_ffff, 5);
            if let Some(c) = ok_h(&g.push(Op::Copy(b, fp))) {
                enrich(g, c, 0xffff_ffff, 4);
            }
            g.push(Op::SerializeFile(0));
        }
        _ => {
            // several files (also of different versions), membership of packages, then duplicate
            let v2 = if g.rng.below(2) == 0 { VERSIONS[0] } else { *g.rng.pick(&[0x80000u32, 0x40000, 0x800]) };
            g.push(Op::CreateFile(0, b"f1.arxml".to_vec(), v2));
            let Some(el) = elements_of(g, 0, "mf") else { return };
            let kind = *g.rng.pick(ELEMENT_KINDS);
            if let Some(x) = ok_h(&g.push(Op::CreateNamed(el, n.elidx(kind), b"x".to_vec()))) {
                enrich(g, x, v2, 8);
            }
            // own membership below split points that exist only in other versions than the files' version
            for ki in 0..ELEMENT_KINDS.len() {
                let kind = ELEMENT_KINDS[(ki + g.rng.below(ELEMENT_KINDS.len() as u64) as usize) % ELEMENT_KINDS.len()];
                if let Some(y) = ok_h(&g.push(Op::GetOrCreateNamed(el, n.elidx(kind), format!("s{}", ki).into_bytes()))) {
                    if add_foreign_split_member(g, y) && g.rng.below(2) == 0 {
                        break;
                    }
                }
                if ki >= 3 {
                    break;
                }
            }
            let nfiles = g.ex.files.len();
            for _ in 0..3 {
                let hk = g.pick_where(|e| matches!(e.element_name(), ElementName::ArPackage) || e.parent().ok().flatten().map(|p| p.element_name() == ElementName::Elements).unwrap_or(false));
                if let Some(hk) = hk {
                    let f = g.rng.below(nfiles as u64) as usize;
                    if g.rng.below(3) == 0 { g.push(Op::RemoveFromFile(hk, f)); } else { g.push(Op::AddToFile(hk, f)); }
                }
            }
            // copies of elements with an OWN file set: package `ra` lives only in one file, package `rb` only in another;
            // `ra` (and an element of it) is copied below `rb` and into another model: the copy must live where its new
            // parent lives
            let mine: Vec<usize> = (0..g.ex.files.len()).filter(|f| g.ex.files[*f].model().ok().as_ref() == Some(&g.ex.models[0])).collect();
            let rk = g.ex.hidx.get(&g.ex.models[0].root_element()).copied();
            if let (true, Some(rk)) = (mine.len() >= 2, rk) {
                if let Some(pk) = ok_h(&g.push(Op::GetOrCreate(rk, n.elidx("AR-PACKAGES")))) {
                    let pa = ok_h(&g.push(Op::GetOrCreateNamed(pk, n.elidx("AR-PACKAGE"), b"ra".to_vec())));
                    let pb = ok_h(&g.push(Op::GetOrCreateNamed(pk, n.elidx("AR-PACKAGE"), b"rb".to_vec())));
                    if let (Some(pa), Some(pb)) = (pa, pb) {
                        let inner = ok_h(&g.push(Op::GetOrCreate(pa, n.elidx("ELEMENTS")))).and_then(|ea| {
                            let kind = *g.rng.pick(ELEMENT_KINDS);
                            ok_h(&g.push(Op::CreateNamed(ea, n.elidx(kind), b"in_a".to_vec())))
                        });
                        let (fa, fb) = if g.rng.below(2) == 0 { (mine[0], mine[1]) } else { (mine[1], mine[0]) };
                        for o in &mine {
                            if *o != fa {
                                g.push(Op::RemoveFromFile(pa, *o));
                            }
                            if *o != fb {
                                g.push(Op::RemoveFromFile(pb, *o));
                            }
                        }
                        if let Some(sub) = ok_h(&g.push(Op::GetOrCreate(pb, n.elidx("AR-PACKAGES")))) {
                            g.push(Op::Copy(sub, pa));
                        }
                        if let (Some(inner), Some(eb)) = (inner, ok_h(&g.push(Op::GetOrCreate(pb, n.elidx("ELEMENTS"))))) {
                            g.push(Op::Copy(eb, inner));
                        }
                        let ver = g.ex.files[fa].version() as u32;
                        if let Some(m2) = second_model(g, ver) {
                            let root2 = g.ex.models[m2].root_element();
                            if let Some(r2) = g.ex.hidx.get(&root2).copied() {
                                if let Some(pk2) = ok_h(&g.push(Op::GetOrCreate(r2, n.elidx("AR-PACKAGES")))) {
                                    g.push(Op::Copy(pk2, pa));
                                    g.push(Op::SerializeFile(g.ex.files.len() - 1));
                                }
                            }
                        }
                    }
                }
            }
            // copies INSIDE one model whose files have different versions: package `vn` lives only in the newest file,
            // package `vo` only in an older one; elements of `vn` with content that the older version does not permit
            // are copied (copy and copy_at) into `vo`: the copy is filtered for the version of ITS destination
            {
                let mine: Vec<usize> = (0..g.ex.files.len()).filter(|f| g.ex.files[*f].model().ok().as_ref() == Some(&g.ex.models[0])).collect();
                let fnew = mine.iter().copied().max_by_key(|f| g.ex.files[*f].version() as u32);
                let fold = mine.iter().copied().min_by_key(|f| g.ex.files[*f].version() as u32);
                let rk = g.ex.hidx.get(&g.ex.models[0].root_element()).copied();
                if let (Some(fnew), Some(fold), Some(rk)) = (fnew, fold, rk) {
                    let (vnew, vold) = (g.ex.files[fnew].version() as u32, g.ex.files[fold].version() as u32);
                    if vold < vnew {
                        if let Some(pk) = ok_h(&g.push(Op::GetOrCreate(rk, n.elidx("AR-PACKAGES")))) {
                            let pvn = ok_h(&g.push(Op::GetOrCreateNamed(pk, n.elidx("AR-PACKAGE"), b"vn".to_vec())));
                            let pvo = ok_h(&g.push(Op::GetOrCreateNamed(pk, n.elidx("AR-PACKAGE"), b"vo".to_vec())));
                            if let (Some(pvn), Some(pvo)) = (pvn, pvo) {
                                for o in &mine {
                                    if g.ex.files[*o].version() as u32 != vnew {
                                        g.push(Op::RemoveFromFile(pvn, *o));
                                    }
                                    if *o != fold {
                                        g.push(Op::RemoveFromFile(pvo, *o));
                                    }
                                }
                                let en = ok_h(&g.push(Op::GetOrCreate(pvn, n.elidx("ELEMENTS"))));
                                let eo = ok_h(&g.push(Op::GetOrCreate(pvo, n.elidx("ELEMENTS"))));
                                if let (Some(en), Some(eo)) = (en, eo) {
                                    for j in 0..2 {
                                        let kind = *g.rng.pick(ELEMENT_KINDS);
                                        let item = g.item_name();
                                        let Some(xv) = ok_h(&g.push(Op::CreateNamed(en, n.elidx(kind), item))) else { continue };
                                        let steps = 6 + g.rng.below(14) as usize;
                                        enrich(g, xv, vold, steps);
                                        for _ in 0..(1 + g.rng.below(2)) {
                                            add_versioned_ref(g, xv, vold);
                                        }
                                        if j == 0 {
                                            g.push(Op::Copy(eo, xv));
                                        } else {
                                            g.push(Op::CopyAt(eo, xv, 0));
                                        }
                                    }
                                    g.push(Op::SerializeFile(fold));
                                }
                            }
                        }
                    }
                }
            }
            g.push(Op::Duplicate(0));
        }
    }
}

// ------------------------------------------------------------------------------------------------ the direct oracle
/// observation lines grouped per model index (usize::MAX: handles that belong to no model)
fn views(ex: &Exec) -> BTreeMap<usize, Vec<String>> {
    let mut lines: Vec<String> = vec![];
    ex.observe(&mut |s: &str| lines.push(s.to_string()));
    let mut res: BTreeMap<usize, Vec<String>> = BTreeMap::new();
    let mut cur = usize::MAX;
    let mut file_model: HashMap<String, usize> = HashMap::new();
    for l in &lines {
        let w: Vec<&str> = l.split_whitespace().collect();
        match w[0] {
            "M" => {
                cur = w[1].parse().unwrap();
                res.entry(cur).or_default().push(l.clone());
            }
            "N" | "I" | "P" | "B" => res.entry(cur).or_default().push(l.clone()),
            "H" => {
                let m = w.iter().find_map(|x| x.strip_prefix("model=ok:")).and_then(|x| x.parse::<usize>().ok()).unwrap_or(usize::MAX);
                res.entry(m).or_default().push(l.clone());
            }
            "F" => {
                let m = w.iter().find_map(|x| x.strip_prefix("model=")).and_then(|x| x.parse::<usize>().ok()).unwrap_or(usize::MAX);
                file_model.insert(w[1].to_string(), m);
                res.entry(m).or_default().push(l.clone());
            }
            "X" => {
                let m = file_model.get(w[1]).copied().unwrap_or(usize::MAX);
                res.entry(m).or_default().push(l.clone());
            }
            _ => {}
        }
    }
    res
}

fn model_of_handle(ex: &Exec, h: usize) -> Option<usize> {
    ex.handles.get(h).and_then(|e| e.model().ok()).and_then(|m| ex.models.iter().position(|x| *x == m))
}
fn model_of_file(ex: &Exec, f: usize) -> Option<usize> {
    ex.files.get(f).and_then(|f| f.model().ok()).and_then(|m| ex.models.iter().position(|x| *x == m))
}

/// the models an operation is allowed to change
fn touched(ex: &Exec, op: &Op) -> BTreeSet<usize> {
    use Op::*;
    let mut t = BTreeSet::new();
    let mut h = |k: &usize| {
        if let Some(m) = model_of_handle(ex, *k) {
            t.insert(m);
        }
    };
    match op {
        CreateSub(a, _) | CreateSubAt(a, _, _) | CreateNamed(a, _, _) | CreateNamedAt(a, _, _, _) | RemoveKind(a, _) | SetItemName(a, _)
        | SetCData(a, _) | RemoveCData(a) | InsertCItem(a, _, _) | RemoveCItem(a, _) | SetAttr(a, _, _) | RemoveAttr(a, _) | SetComment(a, _)
        | GetOrCreate(a, _) | GetOrCreateNamed(a, _, _) | Sort(a) | SerializeElem(a) => h(a),
        Copy(a, _) | CopyAt(a, _, _) | SetRefTarget(a, _) => h(a),
        Move(a, b) | MoveAt(a, b, _) | Remove(a, b) => {
            h(a);
            h(b)
        }
        AddToFile(a, _) | RemoveFromFile(a, _) => h(a),
        NewModel | Duplicate(_) => {}
        CreateFile(m, _, _) | SortModel(m) | Load(m, _, _, _) => {
            t.insert(*m);
        }
        RemoveFile(m, f) => {
            t.insert(*m);
            if let Some(x) = model_of_file(ex, *f) {
                t.insert(x);
            }
        }
        SetVersion(f, _) | CheckCompat(f, _) | SerializeFile(f) => {
            if let Some(x) = model_of_file(ex, *f) {
                t.insert(x);
            }
        }
        #[allow(unreachable_patterns)]
        _ => {
            // operations added by other families: no independence claim
            for k in 0..ex.models.len() {
                t.insert(k);
            }
        }
    }
    t
}

#[derive(Clone, PartialEq, Debug)]
enum XItem {
    E(Box<XNode>),
    D(String),
}
#[derive(Clone, PartialEq, Debug)]
struct XNode {
    name: ElementName,
    ty: ElementType,
    attrs: Vec<(AttributeName, String)>,
    comment: Option<String>,
    content: Vec<XItem>,
}

fn value_ok(cd: &CharacterData, spec: &CharacterDataSpec, ver: u32) -> bool {
    // independent of CharacterData::check_version_compatibility: only enum items carry a version mask
    match (spec, cd) {
        (CharacterDataSpec::Enum { items }, CharacterData::Enum(e)) => items.iter().any(|(it, m)| it == e && m & ver != 0),
        (CharacterDataSpec::Enum { .. }, _) => false,
        _ => true,
    }
}

/// the subtree of `src` as it is (no filtering)
fn actual(e: &Element) -> XNode {
    XNode {
        name: e.element_name(),
        ty: e.element_type(),
        attrs: e.attributes().map(|a| (a.attrname, show_cdata(&a.content))).collect(),
        comment: e.comment(),
        content: e
            .content()
            .map(|c| match c {
                ElementContent::Element(s) => XItem::E(Box::new(actual(&s))),
                ElementContent::CharacterData(d) => XItem::D(show_cdata(&d)),
            })
            .collect(),
    }
}

/// the subtree of `src` filtered for version `ver`, computed from the specification tables only.
/// `ty` is the type the element has AT ITS PLACE (by_dest: the type found under the destination parent in `ver`;
/// otherwise the type the source element carries).  None: the element itself is not permitted.
fn expected(src: &Element, ty: ElementType, ver: u32, by_dest: bool) -> Option<XNode> {
    let mut attrs = vec![];
    for a in src.attributes() {
        match ty.find_attribute_spec(a.attrname) {
            None => return None,
            Some(sp) => {
                if sp.version & ver != 0 && value_ok(&a.content, sp.spec, ver) {
                    attrs.push((a.attrname, show_cdata(&a.content)));
                } else if sp.required {
                    return None;
                }
            }
        }
    }
    let mut content = vec![];
    for c in src.content() {
        match c {
            ElementContent::CharacterData(d) => content.push(XItem::D(show_cdata(&d))),
            ElementContent::Element(s) => {
                if let Some((cty, _)) = ty.find_sub_element(s.element_name(), ver) {
                    let t = if by_dest { cty } else { s.element_type() };
                    if let Some(x) = expected(&s, t, ver, by_dest) {
                        content.push(XItem::E(Box::new(x)));
                    }
                }
            }
        }
    }
    Some(XNode { name: src.element_name(), ty, attrs, comment: src.comment(), content })
}

fn chain_text(e: &Element) -> Option<(String, String)> {
    // opening and closing tags of the ancestors of e (AUTOSAR excluded), with SHORT-NAMEs
    let mut anc = vec![];
    let mut cur = e.parent().ok()?;
    while let Some(p) = cur {
        anc.push(p.clone());
        cur = p.parent().ok()?;
    }
    anc.pop()?; // the root element
    anc.reverse();
    let mut open = String::new();
    let mut close = String::new();
    for a in &anc {
        open.push_str(&format!("<{}>", a.element_name().to_str()));
        if a.is_identifiable() {
            open.push_str(&format!("<SHORT-NAME>{}</SHORT-NAME>", a.item_name().unwrap_or_default()));
        }
        close = format!("</{}>{}", a.element_name().to_str(), close);
    }
    Some((open, close))
}

fn wrap_doc(chain: &(String, String), body: &str, ver: AutosarVersion) -> String {
    format!(
        "<?xml version=\"1.0\" encoding=\"utf-8\"?>\n<AUTOSAR xsi:schemaLocation=\"http://autosar.org/schema/r4.0 {}\" xmlns=\"http://autosar.org/schema/r4.0\" xmlns:xsi=\"http://www.w3.org/2001/XMLSchema-instance\">{}{}{}</AUTOSAR>\n",
        ver.filename(),
        chain.0,
        body,
        chain.1
    )
}

/// number of problems a lenient load of the text reports (a fatal error counts as one), with the first one
fn load_problems(text: &str) -> (usize, String) {
    let m = AutosarModel::new();
    match guard(|| m.load_buffer(text.as_bytes(), "w.arxml", false)) {
        Ok(Ok((_, ws))) => (ws.len(), ws.first().map(show_load_error).unwrap_or_default()),
        Ok(Err(e)) => (1, format!("fatal:{}", show_load_error(&e))),
        Err(_) => (1, "panic".to_string()),
    }
}

fn is_suffix_of(orig: &str, name: &str) -> Option<u64> {
    if name == orig {
        return Some(0);
    }
    let rest = name.strip_prefix(orig)?.strip_prefix('_')?;
    if rest.is_empty() || (rest.len() > 1 && rest.starts_with('0')) || !rest.bytes().all(|b| b.is_ascii_digit()) {
        return None;
    }
    let k: u64 = rest.parse().ok()?;
    if k == 0 { None } else { Some(k) }
}

struct Findings {
    out: Vec<String>,
    stats: BTreeMap<&'static str, u64>,
}
impl Findings {
    fn fail(&mut self, script: usize, opi: usize, kind: &str, detail: String) {
        self.out.push(format!("ORACLE-FAIL script={} op={} kind={} {}", script, opi, kind, detail));
    }
    fn count(&mut self, k: &'static str) {
        *self.stats.entry(k).or_insert(0) += 1;
    }
}

fn restore_schema_location(m: &AutosarModel, saved: Option<CharacterData>) {
    let root = m.root_element();
    if let Some(v) = saved {
        if root.attribute_value(AttributeName::xsiSchemalocation).as_ref() != Some(&v) {
            let _ = root.set_attribute(AttributeName::xsiSchemalocation, v);
        }
    }
}

fn is_ancestor_or_self(a: &Element, x: &Element) -> bool {
    let mut cur = Some(x.clone());
    while let Some(c) = cur {
        if c == *a {
            return true;
        }
        cur = c.parent().ok().flatten();
    }
    false
}


/// does the subtree contain an element whose text is an enum value that is not valid in version `ver`?
fn has_foreign_enum_text(e: &Element, ver: u32) -> bool {
    e.elements_dfs().any(|(_, x)| match (x.character_data(), x.element_type().chardata_spec()) {
        (Some(CharacterData::Enum(it)), Some(CharacterDataSpec::Enum { items })) => !items.iter().any(|(i, m)| *i == it && m & ver != 0),
        _ => false,
    })
}

/// decidable classes that explain why a duplicate's text differs (known defect classes; empty = unexplained)
fn dup_classes(orig: &AutosarModel) -> Vec<&'static str> {
    let mut c = vec![];
    let root = orig.root_element();
    if let Ok(v) = root.min_version() {
        let vv = v as u32;
        let filtered = root.sub_elements().any(|ch| expected(&ch, ch.element_type(), vv, false) != Some(actual(&ch)) || root.element_type().find_sub_element(ch.element_name(), vv).is_none());
        if filtered {
            c.push("version-filter");
        }
    }
    let foreign = orig.elements_dfs().any(|(_, e)| {
        e.file_membership().map(|(local, set)| local && set.iter().any(|w| w.upgrade().map(|f| f.model().ok().as_ref() != Some(orig)).unwrap_or(true))).unwrap_or(false)
    });
    if foreign {
        c.push("foreign-membership");
    }
    c
}

fn oracle_script(names: &Names, script: usize, probes: Vec<String>, ops: &[Op], fd: &mut Findings) {
    let mut ex = Exec::new(names);
    ex.serialize_obs = true;
    ex.probes = probes.into_iter().filter(|p| !p.starts_with('\u{1}')).collect();
    for (opi, op) in ops.iter().enumerate() {
        let before = match guard(|| views(&ex)) {
            Ok(v) => v,
            Err(_) => return,
        };
        let tch = touched(&ex, op);
        let nmodels = ex.models.len();
        // ---- pre-state of a copy
        struct PreCopy {
            src: Element,
            dst: Element,
            src_ser: String,
            src_tree: XNode,
            existing: HashSet<Element>,
            same_model: bool,
            same_version: Option<AutosarVersion>,
            dst_ver: Option<AutosarVersion>,
            src_ver: Option<AutosarVersion>,
            dst_paths: BTreeSet<String>,
            src_is_anc: bool,
            exp_dest: Option<XNode>,
            exp_src: Option<XNode>,
            src_doc_problems: Option<(usize, String)>,
            dst_ctx_problems: Option<(usize, String)>,
            parent_path: Option<String>,
            src_local: bool,
            src_dup_paths: bool,
        }
        let pre_copy: Option<PreCopy> = match op {
            Op::Copy(d, s) | Op::CopyAt(d, s, _) => {
                let dst = ex.handles[*d].clone();
                let src = ex.handles[*s].clone();
                guard(|| {
                    let dm = dst.model().ok();
                    let sm = src.model().ok();
                    let dst_ver = dst.min_version().ok();
                    let src_ver = src.min_version().ok();
                    let mut vers: BTreeSet<u32> = BTreeSet::new();
                    for m in [&dm, &sm].into_iter().flatten() {
                        for f in m.files() {
                            vers.insert(f.version() as u32);
                        }
                    }
                    let same_version = if vers.len() == 1 && dst_ver.is_some() && dst_ver == src_ver { dst_ver } else { None };
                    let dst_paths: BTreeSet<String> = dm.as_ref().map(|m| m.identifiable_elements().map(|(p, _)| p).collect()).unwrap_or_default();
                    let (exp_dest, exp_src) = match dst_ver {
                        Some(v) => {
                            let vv = v as u32;
                            let dty = dst.element_type().find_sub_element(src.element_name(), vv).map(|x| x.0);
                            (dty.and_then(|t| expected(&src, t, vv, true)), expected(&src, src.element_type(), vv, false))
                        }
                        None => (None, None),
                    };
                    let src_ser = src.serialize();
                    let small = src.elements_dfs().count() <= 60;
                    let src_doc_problems = match (small, src_ver, chain_text(&src)) {
                        (true, Some(v), Some(ch)) => Some(load_problems(&wrap_doc(&ch, &src_ser, v))),
                        _ => None,
                    };
                    // the destination context alone (the copy is inserted below dst)
                    let dst_ctx_problems = match (small, dst_ver, chain_text(&dst)) {
                        (true, Some(v), Some(ch)) => {
                            let own_open = format!("<{}>{}", dst.element_name().to_str(), if dst.is_identifiable() { format!("<SHORT-NAME>{}</SHORT-NAME>", dst.item_name().unwrap_or_default()) } else { String::new() });
                            let own_close = format!("</{}>", dst.element_name().to_str());
                            Some(load_problems(&wrap_doc(&(format!("{}{}", ch.0, own_open), format!("{}{}", own_close, ch.1)), "", v)))
                        }
                        _ => None,
                    };
                    let src_local = src.elements_dfs().any(|(_, e)| matches!(e.file_membership(), Ok((true, _))));
                    let src_dup_paths = {
                        let mut seen = HashSet::new();
                        src.elements_dfs().filter(|(_, e)| e.is_identifiable()).filter_map(|(_, e)| e.path().ok()).any(|p| !seen.insert(p))
                    };
                    PreCopy {
                        src_local,
                        src_dup_paths,
                        src_ser,
                        src_tree: actual(&src),
                        existing: ex.hidx.keys().cloned().collect(),
                        same_model: dm.is_some() && dm == sm,
                        same_version,
                        dst_ver,
                        src_ver,
                        dst_paths,
                        src_is_anc: is_ancestor_or_self(&src, &dst),
                        exp_dest,
                        exp_src,
                        src_doc_problems,
                        dst_ctx_problems,
                        parent_path: {
                            // the path prefix of what is created below dst: the path of the nearest identifiable element
                            let mut cur = dst.clone();
                            loop {
                                if cur.is_identifiable() {
                                    break cur.path().ok();
                                }
                                match cur.parent() {
                                    Ok(Some(p)) => cur = p,
                                    Ok(None) => break Some(String::new()),
                                    Err(_) => break None,
                                }
                            }
                        },
                        src,
                        dst,
                    }
                })
                .ok()
            }
            _ => None,
        };
        let pre_dup: Option<(AutosarModel, Vec<(String, u32, Option<bool>, Result<String, String>)>, HashSet<Element>)> = match op {
            Op::Duplicate(m) => {
                let md = ex.models[*m].clone();
                // ArxmlFile::serialize rewrites xsi:schemaLocation of the root: the oracle's own serializations must
                // not be mistaken for an effect of duplicate() on the original
                let saved = md.root_element().attribute_value(AttributeName::xsiSchemalocation);
                let files = md.files().map(|f| (f.filename().to_string_lossy().to_string(), f.version() as u32, f.xml_standalone(), f.serialize().map_err(|e| err_name(&e)))).collect();
                restore_schema_location(&md, saved);
                Some((md, files, ex.hidx.keys().cloned().collect()))
            }
            _ => None,
        };
        // ---- the operation
        let r = ex.apply(op);
        if r == "R PANIC" || r == "R HANG" || r.starts_with("R BADSCRIPT") {
            return;
        }
        let after = match guard(|| views(&ex)) {
            Ok(v) => v,
            Err(_) => return,
        };
        // ---- independence: a model the operation has no handle into is unchanged
        for k in 0..nmodels {
            if !tch.contains(&k) {
                fd.count("independence_checks");
                if before.get(&k) != after.get(&k) {
                    let (b, a) = (before.get(&k).cloned().unwrap_or_default(), after.get(&k).cloned().unwrap_or_default());
                    let first = b.iter().zip(a.iter()).find(|(x, y)| x != y).map(|(x, y)| format!("before=[{}] after=[{}]", x, y)).unwrap_or(format!("lines {} -> {}", b.len(), a.len()));
                    fd.fail(script, opi, "INDEP", format!("model={} op=[{}] {}", k, op.line(), first));
                }
            }
        }
        // ---- copy
        if let Some(pc) = pre_copy {
            let ok = ok_h(&r);
            if pc.src_is_anc && ok.is_some() {
                fd.fail(script, opi, "COPY-OF-PARENT", format!("op=[{}] succeeded", op.line()));
            }
            fd.count(if ok.is_some() { "copies_ok" } else { "copies_err" });
            // the source is never changed, whatever the result
            if pc.src.serialize() != pc.src_ser || actual(&pc.src) != pc.src_tree {
                fd.fail(script, opi, "SRC-CHANGED", format!("op=[{}] result=[{}]", op.line(), r));
            }
            if ok.is_none() && before != after {
                fd.fail(script, opi, "FAILED-COPY-EFFECT", format!("op=[{}] result=[{}]", op.line(), r));
            }
            if let Some(ck) = ok {
                let copy = ex.handles[ck].clone();
                let model = copy.model().ok();
                // (n) all element objects are new
                for (_, e) in copy.elements_dfs() {
                    if pc.existing.contains(&e) {
                        fd.fail(script, opi, "SHARED", format!("op=[{}] element {} of the copy existed before", op.line(), e.element_name()));
                        break;
                    }
                }
                // (f) findable
                if let Some(model) = &model {
                    for (_, e) in copy.elements_dfs() {
                        if e.is_identifiable() {
                            fd.count("identifiables_checked");
                            match e.path() {
                                Ok(p) => {
                                    let found = model.get_element_by_path(&p);
                                    if found.as_ref() != Some(&e) {
                                        let nm = e.item_name();
                                        let nameless = copy.elements_dfs().any(|(_, x)| x.is_identifiable() && x.item_name().is_none());
                                        // inherited from C04-copy-container-duplicates-paths: another LIVE element of this model
                                        // has the same path and is the one the index returns, and the twin comes from a copy of
                                        // a non-identifiable container (this copy, or an earlier one: the source subtree
                                        // already held two identifiable elements with one path)
                                        let twin = found.as_ref().map(|o| o.path().ok().as_deref() == Some(p.as_str())).unwrap_or(false);
                                        let dup_class = twin && (!pc.src.is_identifiable() || pc.src_dup_paths);
                                        let cl = if nameless { "nameless" } else if dup_class { "duplicate-path" } else { "-" };
                                        fd.fail(script, opi, "NOT-FINDABLE", format!("classes={} op=[{}] path={} name={:?}", cl, op.line(), p, nm));
                                    }
                                }
                                Err(er) => fd.fail(script, opi, "NOT-FINDABLE", format!("op=[{}] path() fails: {}", op.line(), err_name(&er))),
                            }
                        }
                        if e.is_reference() {
                            if let Some(CharacterData::String(t)) = e.character_data() {
                                fd.count("references_checked");
                                if !model.get_references_to(&t).iter().any(|w| w.upgrade().as_ref() == Some(&e)) {
                                    fd.fail(script, opi, "REF-NOT-REGISTERED", format!("op=[{}] text={}", op.line(), t));
                                }
                            }
                        }
                    }
                }
                // own name
                let mut expect_name: Option<(String, String)> = None;
                if pc.src.is_identifiable() {
                    if let (Some(orig), Some(newn)) = (pc.src.item_name(), copy.item_name()) {
                        match is_suffix_of(&orig, &newn) {
                            None => fd.fail(script, opi, "NAME", format!("op=[{}] orig={} new={}", op.line(), orig, newn)),
                            Some(k) => {
                                if let Some(pp) = &pc.parent_path {
                                    // needed and minimal: every earlier candidate was taken, the chosen one was free
                                    for j in 0..k {
                                        let cand = if j == 0 { orig.clone() } else { format!("{}_{}", orig, j) };
                                        if !pc.dst_paths.contains(&format!("{}/{}", pp, cand)) {
                                            fd.fail(script, opi, "NAME-NOT-MINIMAL", format!("op=[{}] orig={} new={} free={}", op.line(), orig, newn, cand));
                                            break;
                                        }
                                    }
                                    if pc.dst_paths.contains(&format!("{}/{}", pp, newn)) {
                                        fd.fail(script, opi, "NAME-NOT-UNIQUE", format!("op=[{}] new={}", op.line(), newn));
                                    }
                                }
                                expect_name = Some((orig, newn));
                            }
                        }
                    }
                }
                let rename = |mut x: XNode| -> XNode {
                    if let Some((_, newn)) = &expect_name {
                        if let Some(XItem::E(sn)) = x.content.first_mut() {
                            if sn.name == ElementName::ShortName {
                                sn.content = vec![XItem::D(format!("S{}", hex(newn.as_bytes())))];
                            }
                        }
                    }
                    x
                };
                let act = actual(&copy);
                // (v) same version: text equality
                if pc.same_version.is_some() {
                    fd.count("same_version_copies");
                    let expect_text = match &expect_name {
                        Some((o, nw)) => pc.src_ser.replacen(&format!(">{}</SHORT-NAME>", o), &format!(">{}</SHORT-NAME>", nw), 1),
                        None => pc.src_ser.clone(),
                    };
                    let got = copy.serialize();
                    if got != expect_text {
                        fd.fail(script, opi, "TEXT", format!("op=[{}] {}", op.line(), crate::xml::oracle::first_diff(&expect_text, &got)));
                    }
                } else if pc.dst_ver.is_some() {
                    fd.count("cross_version_copies");
                }
                // (x) exactly the permitted parts (both for same and cross version)
                let exp_d = pc.exp_dest.clone().map(&rename);
                let exp_s = pc.exp_src.clone().map(&rename);
                // the pair (types of the copy, content of the copy) has to follow ONE reading: types and filter by the
                // destination (the specification), or — today's library, known finding — types and filter of the source
                if exp_d.as_ref() != Some(&act) {
                    if exp_s.as_ref() == Some(&act) {
                        fd.fail(script, opi, "FILTER-BY-SOURCE-TYPE", format!("op=[{}] src={} the copy is filtered by the type of the source element, not by its type in the destination", op.line(), pc.src.element_name()));
                    } else {
                        fd.fail(script, opi, "FILTER", format!("op=[{}] src={} expected(dest)={} expected(src)={}", op.line(), pc.src.element_name(), exp_d.is_some(), exp_s.is_some()));
                    }
                }
                if act != pc.src_tree.clone() && pc.same_version.is_none() {
                    fd.count("cross_version_copies_filtered");
                }
                // the type of the copy
                if let Some(v) = pc.dst_ver {
                    if let Some((dty, _)) = pc.dst.element_type().find_sub_element(copy.element_name(), v as u32) {
                        if dty != copy.element_type() {
                            fd.fail(script, opi, "TYPE-KEPT", format!("op=[{}] element {} keeps the type it had under {}", op.line(), copy.element_name(), pc.src.parent().ok().flatten().map(|p| p.element_name().to_string()).unwrap_or_default()));
                        }
                    }
                }
                // (w) still validates
                if let (Some((0, _)), Some((0, _)), Some(v)) = (&pc.src_doc_problems, &pc.dst_ctx_problems, pc.dst_ver) {
                    if let Some(ch) = chain_text(&copy) {
                        fd.count("validation_checks");
                        if pc.same_version.is_none() {
                            fd.count("validation_checks_cross_version");
                        }
                        let (np, first) = load_problems(&wrap_doc(&ch, &copy.serialize(), v));
                        if np != 0 {
                            let mut cl = vec![];
                            if pc.exp_dest != pc.exp_src {
                                cl.push("type-by-parent");
                            }
                            if has_foreign_enum_text(&copy, v as u32) {
                                cl.push("enum-text");
                            }
                            if let Some((o, nw)) = &expect_name {
                                // the suffix _k pushed the name beyond the 128 characters an identifier may have
                                if o.len() <= 128 && nw.len() > 128 && first.starts_with("PStringValueTooLong") {
                                    cl.push("name-too-long");
                                }
                            }
                            fd.fail(script, opi, "VALIDATE", format!("classes={} op=[{}] src={} srcver={:?} dstver={:?} first={}", if cl.is_empty() { "-".to_string() } else { cl.join(",") }, op.line(), pc.src.element_name(), pc.src_ver.map(|x| x as u32), v as u32, first));
                        }
                    }
                }
                if pc.same_model && pc.src_ver.is_some() && pc.dst_ver.is_some() && pc.src_ver != pc.dst_ver {
                    fd.count("copies_same_model_other_version");
                }
                if pc.src_local {
                    fd.count(if pc.same_model { "copies_of_restricted_source_same_model" } else { "copies_of_restricted_source_other_model" });
                }
                // (m) membership: a copy starts without own file sets (every node inherits from the destination), ...
                for (_, e) in copy.elements_dfs() {
                    fd.count("membership_checks");
                    if let Ok((true, fs)) = e.file_membership() {
                        let names: Vec<String> = fs.iter().filter_map(|w| w.upgrade()).map(|f| f.filename().to_string_lossy().to_string()).collect();
                        fd.fail(script, opi, "COPY-MEMBERSHIP", format!("op=[{}] element {} of the copy has an own file set {:?} (same model: {})", op.line(), e.element_name(), names, pc.same_model));
                        break;
                    }
                }
                // ... so every file of the destination model that contains the destination parent contains the whole copy
                if let (Some(model), Ok((_, dfiles))) = (&model, pc.dst.file_membership()) {
                    let nodes: Vec<Element> = copy.elements_dfs().map(|(_, e)| e).collect();
                    // line breaks and indentation depend on depth and on mixed-content context: compare without them
                    let norm = |t: &str| t.lines().map(|l| l.trim_start()).collect::<Vec<_>>().join("");
                    let ctext = norm(&copy.serialize());
                    // ArxmlFile::serialize rewrites xsi:schemaLocation of the root: put back what was there
                    let root = model.root_element();
                    let schema_loc = root.attribute_value(AttributeName::xsiSchemalocation);
                    for f in model.files() {
                        if !dfiles.contains(&f.downgrade()) {
                            continue;
                        }
                        let in_file: HashSet<Element> = f.elements_dfs().map(|(_, e)| e).collect();
                        if !in_file.contains(&pc.dst) {
                            continue; // inconsistent membership of the destination itself: C10
                        }
                        fd.count("copy_in_file_checks");
                        if let Some(miss) = nodes.iter().find(|e| !in_file.contains(e)) {
                            fd.fail(script, opi, "COPY-NOT-IN-FILE", format!("op=[{}] file {} contains the destination {} but not the copied {}", op.line(), f.filename().to_string_lossy(), pc.dst.element_name(), miss.element_name()));
                        } else if let Ok(t) = f.serialize() {
                            if !norm(&t).contains(&ctext) {
                                fd.fail(script, opi, "COPY-NOT-IN-FILE-TEXT", format!("op=[{}] the text of file {} does not contain the text of the copy", op.line(), f.filename().to_string_lossy()));
                            }
                        }
                    }
                    if let Some(v) = schema_loc {
                        if root.attribute_value(AttributeName::xsiSchemalocation).as_ref() != Some(&v) {
                            let _ = root.set_attribute(AttributeName::xsiSchemalocation, v);
                        }
                    }
                }
                // sort() of the copy: never panics (every sub-element is known to the type of its parent) and keeps
                // every element
                {
                    fn size(x: &XNode) -> usize {
                        1 + x.content.iter().map(|i| if let XItem::E(e) = i { size(e) } else { 1 }).sum::<usize>()
                    }
                    let before_sort = size(&actual(&copy));
                    let c2 = copy.clone();
                    match guard(move || c2.sort()) {
                        Err(msg) => fd.fail(script, opi, "COPY-SORT-PANIC", format!("op=[{}] sort() of the copied {} panics: {}", op.line(), copy.element_name(), msg.chars().take(120).collect::<String>().replace(' ', "_"))),
                        Ok(()) => {
                            fd.count("copy_sort_checks");
                            if size(&actual(&copy)) != before_sort {
                                fd.fail(script, opi, "COPY-SORT-LOSS", format!("op=[{}] sort() of the copied {} changes the number of items", op.line(), copy.element_name()));
                            }
                        }
                    }
                }
            }
        }
        // ---- duplicate
        if let Some((orig, files, existing)) = pre_dup {
            match ok_m(&r) {
                None => {
                    fd.count("duplicates_err");
                    let cl = dup_classes(&orig);
                    fd.fail(script, opi, "DUP-ERR", format!("classes={} op=[{}] result=[{}] files={:?}", if cl.is_empty() { "-".to_string() } else { cl.join(",") }, op.line(), r, files.iter().map(|f| f.1).collect::<Vec<_>>()));
                    if before != after {
                        fd.fail(script, opi, "FAILED-DUP-EFFECT", format!("op=[{}]", op.line()));
                    }
                }
                Some(mk) => {
                    fd.count("duplicates_ok");
                    let copy = ex.models[mk].clone();
                    let saved_orig = orig.root_element().attribute_value(AttributeName::xsiSchemalocation);
                    let saved_copy = copy.root_element().attribute_value(AttributeName::xsiSchemalocation);
                    let cf: Vec<ArxmlFile> = copy.files().collect();
                    if cf.len() != files.len() {
                        fd.fail(script, opi, "DUP-FILES", format!("{} files -> {}", files.len(), cf.len()));
                    }
                    for (f, (name, ver, sa, text)) in cf.iter().zip(files.iter()) {
                        fd.count("duplicate_files_compared");
                        if f.filename().to_string_lossy() != *name || f.version() as u32 != *ver || f.xml_standalone() != *sa {
                            fd.fail(script, opi, "DUP-FILES", format!("file {} differs in name/version/standalone", name));
                        }
                        let t2 = f.serialize().map_err(|e| err_name(&e));
                        if t2 != *text {
                            let d = match (text, &t2) {
                                (Ok(a), Ok(b)) => crate::xml::oracle::first_diff(a, b),
                                (a, b) => format!("{:?} vs {:?}", a.as_ref().map(|_| "text"), b.as_ref().map(|_| "text")),
                            };
                            let cl = dup_classes(&orig);
                            fd.fail(script, opi, "DUP-TEXT", format!("classes={} op=[{}] file={} versions={:?} {}", if cl.is_empty() { "-".to_string() } else { cl.join(",") }, op.line(), name, files.iter().map(|f| f.1).collect::<Vec<_>>(), d));
                        }
                    }
                    for (_, e) in copy.elements_dfs() {
                        if existing.contains(&e) {
                            fd.fail(script, opi, "SHARED", format!("op=[{}] element {} of the duplicate existed before", op.line(), e.element_name()));
                            break;
                        }
                    }
                    // the original's text is unchanged (also covered by INDEP)
                    for (f, (_, _, _, text)) in orig.files().zip(files.iter()) {
                        if f.serialize().map_err(|e| err_name(&e)) != *text {
                            fd.fail(script, opi, "SRC-CHANGED", format!("op=[{}] original file text changed", op.line()));
                        }
                    }
                    restore_schema_location(&orig, saved_orig);
                    restore_schema_location(&copy, saved_copy);
                }
            }
        }
    }
}

pub fn oracle_main(args: &[String]) {
    let dump = args[0].clone();
    let script = &args[1];
    let only: Option<usize> = args.get(2).and_then(|x| x.parse().ok());
    let mut total: BTreeMap<&'static str, u64> = BTreeMap::new();
    let mut nfail = 0u64;
    let mut hung = 0u64;
    for (idx, probes, ops) in read_scripts(script) {
        if only.map(|o| o != idx).unwrap_or(false) {
            continue;
        }
        let (tx, rx) = mpsc::channel::<(Vec<String>, BTreeMap<&'static str, u64>)>();
        let dump2 = dump.clone();
        std::thread::Builder::new()
            .stack_size(256 * 1024 * 1024)
            .spawn(move || {
                let names = Names::load(&dump2);
                let mut fd = Findings { out: vec![], stats: BTreeMap::new() };
                let _ = guard(std::panic::AssertUnwindSafe(|| oracle_script(&names, idx, probes, &ops, &mut fd)));
                let _ = tx.send((fd.out, fd.stats));
            })
            .unwrap();
        match rx.recv_timeout(std::time::Duration::from_millis(8000)) {
            Ok((out, stats)) => {
                for l in out {
                    println!("{}", l);
                    nfail += 1;
                }
                for (k, v) in stats {
                    *total.entry(k).or_insert(0) += v;
                }
                *total.entry("scripts").or_insert(0) += 1;
            }
            Err(_) => hung += 1,
        }
    }
    for (k, v) in &total {
        println!("STAT {}={}", k, v);
    }
    println!("STAT oracle_failures={}", nfail);
    println!("STAT hung_scripts={}", hung);
    std::process::exit(0);
}

// ------------------------------------------------------------------------------------------------ fixed finding scripts
struct Builder<'a> {
    ex: Exec<'a>,
    lines: Vec<String>,
}
impl<'a> Builder<'a> {
    fn push(&mut self, op: Op) -> String {
        self.lines.push(op.line());
        self.ex.apply(&op)
    }
    fn h(&mut self, op: Op) -> usize {
        let r = self.push(op);
        ok_h(&r).unwrap_or_else(|| panic!("finding script: {}", r))
    }
}

const NAMELESS_DOC: &str = r#"<?xml version="1.0" encoding="utf-8"?>
<AUTOSAR xsi:schemaLocation="http://autosar.org/schema/r4.0 AUTOSAR_00050.xsd" xmlns="http://autosar.org/schema/r4.0" xmlns:xsi="http://www.w3.org/2001/XMLSchema-instance"><AR-PACKAGES><AR-PACKAGE><SHORT-NAME>P</SHORT-NAME><ELEMENTS><SYSTEM><SHORT-NAME>S</SHORT-NAME></SYSTEM></ELEMENTS><AR-PACKAGES><AR-PACKAGE><SHORT-NAME/></AR-PACKAGE></AR-PACKAGES></AR-PACKAGE></AR-PACKAGES></AUTOSAR>"#;

/// one script per recorded finding class (handles and name numbers are computed against the current tables)
fn findings_main(args: &[String]) {
    let dump = &args[0];
    let out = &args[1];
    let names = Names::load(dump);
    let n = &names;
    let mut text = String::new();
    let mut emit = |k: usize, title: &str, b: Builder| {
        text.push_str(&format!("SCRIPT {}\nPATHS 2f\nOBSERVE serialize\n", k));
        for l in &b.lines {
            text.push_str(l);
            text.push('\n');
        }
        println!("FINDING-SCRIPT {} {} ops={}", k, title, b.lines.len());
    };
    let start = |ver: u32| -> (Builder, usize) {
        let mut b = Builder { ex: Exec::new(n), lines: vec![] };
        b.push(Op::NewModel);
        b.push(Op::CreateFile(0, b"f0.arxml".to_vec(), ver));
        let pk = b.h(Op::CreateSub(0, n.elidx("AR-PACKAGES")));
        let p = b.h(Op::CreateNamed(pk, n.elidx("AR-PACKAGE"), b"p".to_vec()));
        let el = b.h(Op::CreateSub(p, n.elidx("ELEMENTS")));
        (b, el)
    };
    // 0: fixed 04fa0d1: root comment and attribute survive duplicate()
    {
        let (mut b, _) = start(0x100000);
        b.push(Op::SetComment(0, Some(b"root comment".to_vec())));
        let s_attr = names.at.iter().position(|x| x == "S").unwrap() as u16;
        b.push(Op::SetAttr(0, s_attr, Val::S(b"sig".to_vec())));
        b.push(Op::Duplicate(0));
        emit(0, "dup-root-decor(fixed)", b);
    }
    // 1: known: the copy keeps the element type it had under the source parent
    {
        let (mut b, el) = start(0x100000);
        let ip = b.h(Op::CreateNamed(el, n.elidx("ETH-IP-PROPS"), b"ip".to_vec()));
        let v4 = b.h(Op::CreateSub(ip, n.elidx("IPV-4-PROPS")));
        let v6 = b.h(Op::CreateSub(ip, n.elidx("IPV-6-PROPS")));
        let fp = b.h(Op::CreateSub(v4, n.elidx("FRAGMENTATION-PROPS")));
        b.h(Op::CreateSub(fp, n.elidx("TCP-IP-IP-FRAGMENTATION-RX-ENABLED")));
        b.push(Op::Copy(v6, fp));
        emit(1, "copy-keeps-source-type", b);
    }
    // 2: known: an enum value in element text that does not exist in the target version is copied
    {
        let (mut b, el) = start(0x100000);
        // find an enum-valued element below I-SIGNAL-like kinds whose items are version dependent: search the kinds
        let mut done = false;
        'outer: for (ki, kind) in ELEMENT_KINDS.iter().enumerate() {
            let x = b.h(Op::CreateNamed(el, n.elidx(kind), format!("x{}", ki).into_bytes()));
            let xe = b.ex.handles[x].clone();
            for (name, ct, mask, named) in xe.element_type().sub_element_spec_iter() {
                if mask & 0x100000 == 0 || mask & 0x8000 == 0 || named != 0 {
                    continue;
                }
                if let Some(CharacterDataSpec::Enum { items }) = ct.chardata_spec() {
                    if let Some((it, _)) = items.iter().find(|(_, m)| m & 0x100000 != 0 && m & 0x8000 == 0) {
                        let r = b.push(Op::CreateSub(x, name as u16));
                        if let Some(c) = ok_h(&r) {
                            b.push(Op::SetCData(c, Val::E(*it as u16)));
                            b.push(Op::NewModel);
                            b.push(Op::CreateFile(1, b"g0.arxml".to_vec(), 0x8000));
                            let root2 = b.ex.models[1].root_element();
                            let rk = b.ex.hidx[&root2];
                            let pk2 = b.h(Op::CreateSub(rk, n.elidx("AR-PACKAGES")));
                            let p2 = b.h(Op::CreateNamed(pk2, n.elidx("AR-PACKAGE"), b"q".to_vec()));
                            let e2 = b.h(Op::CreateSub(p2, n.elidx("ELEMENTS")));
                            b.push(Op::Copy(e2, x));
                            done = true;
                            break 'outer;
                        }
                    }
                }
            }
        }
        if !done {
            println!("FINDING-SCRIPT 2 NOT-CONSTRUCTIBLE");
        }
        emit(2, "copy-enum-text-unfiltered", b);
    }
    // 3: known: duplicate filters by the smallest file version of the model
    {
        let (mut b, el) = start(0x100000);
        b.push(Op::CreateFile(0, b"f1.arxml".to_vec(), 0x1));
        // an element kind that does not exist in 4.0.1
        let mut done = false;
        let ee = b.ex.handles[el].clone();
        for (name, _, mask, named) in ee.element_type().sub_element_spec_iter() {
            if mask & 0x100000 != 0 && mask & 0x1 == 0 && named & 0x100000 != 0 {
                let r = b.push(Op::CreateNamed(el, name as u16, b"x".to_vec()));
                if ok_h(&r).is_some() {
                    done = true;
                    break;
                }
            }
        }
        if !done {
            println!("FINDING-SCRIPT 3 NOT-CONSTRUCTIBLE");
        }
        b.push(Op::Duplicate(0));
        emit(3, "dup-version-filter", b);
    }
    // 4: known (root cause in C10): an element moved in from another model keeps the file membership of its old
    //    model; duplicate() translates it by file NAME
    {
        let (mut b, el) = start(0x100000);
        b.push(Op::CreateFile(0, b"f1.arxml".to_vec(), 0x100000));
        let x = b.h(Op::CreateNamed(el, n.elidx("SYSTEM"), b"x".to_vec()));
        b.h(Op::CreateNamed(el, n.elidx("SYSTEM"), b"y".to_vec()));
        b.push(Op::RemoveFromFile(x, 1));
        if !b.ex.handles[x].file_membership().map(|(l, _)| l).unwrap_or(false) {
            println!("FINDING-SCRIPT 4 NOT-CONSTRUCTIBLE");
        }
        b.push(Op::NewModel);
        b.push(Op::CreateFile(1, b"f0.arxml".to_vec(), 0x100000));
        b.push(Op::CreateFile(1, b"f1.arxml".to_vec(), 0x100000));
        let root2 = b.ex.models[1].root_element();
        let rk = b.ex.hidx[&root2];
        let pk2 = b.h(Op::CreateSub(rk, n.elidx("AR-PACKAGES")));
        let p2 = b.h(Op::CreateNamed(pk2, n.elidx("AR-PACKAGE"), b"q".to_vec()));
        let e2 = b.h(Op::CreateSub(p2, n.elidx("ELEMENTS")));
        b.push(Op::Move(e2, x));
        b.push(Op::Duplicate(1));
        emit(4, "dup-foreign-membership", b);
    }
    // 5: known: an identifiable element without item name inside the copied subtree is registered under the path of
    //    its parent and hides it
    {
        let mut b = Builder { ex: Exec::new(n), lines: vec![] };
        b.push(Op::NewModel);
        b.push(Op::Load(0, NAMELESS_DOC.as_bytes().to_vec(), b"t.arxml".to_vec(), false));
        let p = b.ex.models[0].get_element_by_path("/P").map(|e| b.ex.hidx[&e]);
        if let Some(p) = p {
            let pk = b.ex.handles[p].parent().ok().flatten().map(|e| b.ex.hidx[&e]).unwrap();
            b.push(Op::Copy(pk, p));
        } else {
            println!("FINDING-SCRIPT 5 NOT-CONSTRUCTIBLE");
        }
        emit(5, "copy-nameless-shortname", b);
    }
    // 6: known: the suffix that make_unique_item_name appends can push a name beyond the maximum length of an
    //    identifier (128): the copy is written with a SHORT-NAME that no loader accepts
    {
        let (mut b, el) = start(0x100000);
        let mut name = vec![b'N'];
        name.extend(std::iter::repeat(b'a').take(127));
        let x = b.h(Op::CreateNamed(el, n.elidx("SYSTEM-SIGNAL"), name));
        b.push(Op::Copy(el, x));
        emit(6, "copy-name-too-long", b);
    }
    // 7: inherited (C04-copy-container-duplicates-paths): a copy of a non-identifiable container puts a second element under an
    //    existing path; a later copy of the enclosing element holds both twins, only one of them is findable
    {
        let (mut b, el) = start(0x100000);
        let chan = |b: &mut Builder, nm: &[u8]| -> (usize, usize, usize) {
            let c = b.h(Op::CreateNamed(el, n.elidx("CAN-CLUSTER"), nm.to_vec()));
            let v = b.h(Op::CreateSub(c, n.elidx("CAN-CLUSTER-VARIANTS")));
            let cc = b.h(Op::CreateSub(v, n.elidx("CAN-CLUSTER-CONDITIONAL")));
            let pc = b.h(Op::CreateSub(cc, n.elidx("PHYSICAL-CHANNELS")));
            b.h(Op::CreateNamed(pc, n.elidx("CAN-PHYSICAL-CHANNEL"), b"Ch1".to_vec()));
            (c, v, cc)
        };
        let (ca, va, _) = chan(&mut b, b"CA");
        let (_, _, ccb) = chan(&mut b, b"CB");
        b.push(Op::CopyAt(va, ccb, 0));
        b.push(Op::Copy(el, ca));
        emit(7, "copy-duplicate-path-inherited", b);
    }
    std::fs::write(out, text).unwrap();
}

pub fn main(args: &[String]) {
    match args.get(0).map(|s| s.as_str()) {
        Some("findings") => findings_main(&args[1..]),
        Some("probe") => probe_main(),
        Some("probe-required") => probe_required(),
        Some("probe-cases") => probe_cases(),
        Some("oracle") => oracle_main(&args[1..]),
        _ => {
            eprintln!("usage: avh copy probe|oracle ...");
            std::process::exit(2)
        }
    }
}
