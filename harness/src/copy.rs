//! C13 — deep copy and model duplication: generator shapes for the element-tree scripts (`AVH_TREE_ENABLE=dup`),
//! the direct property oracle on the implementation, and a probe of the specification tables.
//!   avh copy probe                       element names whose type differs by parent (candidate defect "type kept")
//!   avh copy oracle <dump> <script> [-v] run the scripts on the real library and check the property at every operation
use crate::tree::*;
use crate::util::*;
use autosar_data::*;
use autosar_data_specification::{ContentMode, ElementType};
use std::collections::{BTreeMap, BTreeSet, HashMap, HashSet, VecDeque};

// ------------------------------------------------------------------------------------------------ spec probe
/// BFS over all element types reachable from the root (any version): chain of element names leading to each type
pub fn type_chains() -> (Vec<ElementType>, HashMap<ElementType, (ElementType, ElementName)>) {
    let mut parent: HashMap<ElementType, (ElementType, ElementName)> = HashMap::new();
    let mut order = vec![];
    let mut seen: HashSet<ElementType> = HashSet::new();
    let mut q = VecDeque::new();
    q.push_back(ElementType::ROOT);
    seen.insert(ElementType::ROOT);
    while let Some(t) = q.pop_front() {
        order.push(t);
        for (name, ct, _mask, _) in t.sub_element_spec_iter() {
            if seen.insert(ct) {
                parent.insert(ct, (t, name));
                q.push_back(ct);
            }
        }
    }
    (order, parent)
}

pub fn chain_of(t: ElementType, parent: &HashMap<ElementType, (ElementType, ElementName)>) -> Vec<ElementName> {
    let mut v = vec![];
    let mut cur = t;
    while let Some((p, n)) = parent.get(&cur) {
        v.push(*n);
        cur = *p;
    }
    v.reverse();
    v
}

fn sub_names(t: ElementType, vm: u32) -> BTreeSet<String> {
    t.sub_element_spec_iter().filter(|(_, _, m, _)| m & vm != 0).map(|(n, _, _, _)| n.to_string()).collect()
}

fn probe_main() {
    let (order, parent) = type_chains();
    let latest = AutosarVersion::LATEST as u32;
    // name -> list of (parent type, child type)
    let mut by_name: BTreeMap<String, Vec<(ElementType, ElementType)>> = BTreeMap::new();
    for t in &order {
        for (name, ct, mask, _) in t.sub_element_spec_iter() {
            if mask & latest != 0 {
                by_name.entry(name.to_string()).or_default().push((*t, ct));
            }
        }
    }
    let mut shown = 0;
    for (name, l) in &by_name {
        // distinct child types with different sub-element sets
        for i in 0..l.len() {
            for j in 0..l.len() {
                if i == j || l[i].1 == l[j].1 {
                    continue;
                }
                let a = sub_names(l[i].1, latest);
                let b = sub_names(l[j].1, latest);
                let only_a: Vec<&String> = a.difference(&b).collect();
                if only_a.is_empty() {
                    continue;
                }
                let ca = chain_of(l[i].0, &parent);
                let cb = chain_of(l[j].0, &parent);
                if ca.len() + cb.len() > 12 {
                    continue;
                }
                shown += 1;
                if shown < 400 {
                    println!(
                        "{} only-in-first={:?} under1={} under2={}",
                        name,
                        &only_a[..only_a.len().min(3)],
                        ca.iter().map(|x| x.to_string()).collect::<Vec<_>>().join("/"),
                        cb.iter().map(|x| x.to_string()).collect::<Vec<_>>().join("/")
                    );
                }
            }
        }
    }
    println!("STAT candidates={}", shown);
    let _ = ContentMode::Sequence;
}

pub fn main(args: &[String]) {
    match args.get(0).map(|s| s.as_str()) {
        Some("probe") => probe_main(),
        _ => {
            eprintln!("usage: avh copy probe|oracle ...");
            std::process::exit(2)
        }
    }
}
