//! C18 names + versions: members exhaustively, one-edit neighbours of every member, specials, random.
//! Expected verdict = the property itself (text -> item -> text; anything else fails), computed from the
//! table dump the translator extracted; the same stream is the failing-input search.
use crate::util::*;
use autosar_data_specification::{AttributeName, AutosarVersion, ElementName, EnumItem};
use std::collections::HashMap;
use std::str::FromStr;

fn neighbours(s: &[u8], out: &mut Vec<Vec<u8>>) {
    let n = s.len();
    for i in 0..n {
        let c = s[i];
        // case change
        if c.is_ascii_alphabetic() {
            let mut v = s.to_vec();
            v[i] = if c.is_ascii_uppercase() { c.to_ascii_lowercase() } else { c.to_ascii_uppercase() };
            out.push(v);
        }
        // swapped separator
        if c == b'-' || c == b'_' || c == b':' {
            for r in [b'-', b'_', b':', b' '] {
                if r != c {
                    let mut v = s.to_vec();
                    v[i] = r;
                    out.push(v);
                }
            }
        }
        // deletion
        let mut v = s.to_vec();
        v.remove(i);
        out.push(v);
        // duplication
        let mut v = s.to_vec();
        v.insert(i, c);
        out.push(v);
        // transposition
        if i + 1 < n && s[i] != s[i + 1] {
            let mut v = s.to_vec();
            v.swap(i, i + 1);
            out.push(v);
        }
        // off-by-one byte
        let mut v = s.to_vec();
        v[i] = c.wrapping_add(1);
        out.push(v);
    }
    // extension at either end
    for e in [b'-', b'S', b'0', b' ', 0u8, b'\n', 0xC3] {
        let mut v = s.to_vec();
        v.push(e);
        out.push(v);
        let mut v = vec![e];
        v.extend_from_slice(s);
        out.push(v);
    }
}

macro_rules! kind_check {
    ($fname:ident, $ty:ty, $kind:expr) => {
        fn $fname(table: &[String], seed: u64, nrandom: u64, nsample: u64) -> (u64, u64) {
            let mut index: HashMap<Vec<u8>, usize> = HashMap::new();
            for (i, s) in table.iter().enumerate() {
                index.insert(s.as_bytes().to_vec(), i);
            }
            let mut evals = 0u64;
            let mut dis = 0u64;
            let mut rng = SplitMix64(seed);
            let mut check = |input: &[u8], sample: bool| {
                evals += 1;
                let expected = match index.get(input) {
                    Some(i) => format!("Ok {}", i),
                    None => "Err".to_string(),
                };
                let got = match guard(|| <$ty>::from_bytes(input)) {
                    Ok(Ok(item)) => {
                        let d = item as u16 as usize;
                        // item -> text must give the input back, through every route
                        let t1 = guard(|| item.to_str().as_bytes().to_vec());
                        let t2 = guard(|| format!("{}", item).into_bytes());
                        let t3 = guard(|| format!("{:?}", item).into_bytes());
                        if t1.as_deref() != Ok(input) || t2.as_deref() != Ok(input) || t3.as_deref() != Ok(input) {
                            format!("Ok {} but to_str/Display/Debug differ", d)
                        } else {
                            format!("Ok {}", d)
                        }
                    }
                    Ok(Err(_)) => "Err".to_string(),
                    Err(_) => "Panic".to_string(),
                };
                // from_str must agree with from_bytes on valid UTF-8
                if let Ok(txt) = std::str::from_utf8(input) {
                    let g2 = match guard(|| <$ty>::from_str(txt)) {
                        Ok(Ok(item)) => format!("Ok {}", item as u16 as usize),
                        Ok(Err(_)) => "Err".to_string(),
                        Err(_) => "Panic".to_string(),
                    };
                    if g2 != expected {
                        dis += 1;
                        println!("DISAGREE {} from_str {} expected={} got={}", $kind, hex(input), expected, g2);
                    }
                }
                if got != expected {
                    dis += 1;
                    println!("DISAGREE {} from_bytes {} expected={} got={}", $kind, hex(input), expected, got);
                }
                if sample {
                    println!("SAMPLE {} {} {}", $kind, hex(input), got);
                }
            };
            // members, exhaustively
            let stride = std::cmp::max(1, table.len() as u64 / std::cmp::max(1, nsample / 4));
            for (i, s) in table.iter().enumerate() {
                check(s.as_bytes(), (i as u64) % stride == 0);
            }
            // one-edit neighbours of every member
            let mut nb = Vec::new();
            let mut k = 0u64;
            for s in table.iter() {
                nb.clear();
                neighbours(s.as_bytes(), &mut nb);
                for v in nb.iter() {
                    k += 1;
                    check(v, k % 4001 == 0);
                }
            }
            // specials
            check(b"", true);
            check(&vec![b'A'; 10_000], false);
            check(&vec![0xFFu8; 37], true);
            check(&[0xC3, 0x28], true);
            check(b"SHORT-NAME\0", true);
            check(b" SHORT-NAME", true);
            check("ÄÖÜ".as_bytes(), true);
            // random: name alphabet and raw bytes
            let alpha = b"ABCDEFGHIJKLMNOPQRSTUVWXYZ-0123456789abcdefghijklmnopqrstuvwxyz_:";
            for r in 0..nrandom {
                let len = 1 + rng.below(40) as usize;
                let v: Vec<u8> = if r % 2 == 0 {
                    (0..len).map(|_| alpha[rng.below(alpha.len() as u64) as usize]).collect()
                } else {
                    (0..len).map(|_| rng.below(256) as u8).collect()
                };
                check(&v, r % 997 == 0);
                // prefixes / concatenations of members
                let a = table[rng.below(table.len() as u64) as usize].as_bytes();
                let b = table[rng.below(table.len() as u64) as usize].as_bytes();
                let cut = rng.below(a.len() as u64 + 1) as usize;
                let mut w = a[..cut].to_vec();
                w.extend_from_slice(&b[rng.below(b.len() as u64 + 1) as usize..]);
                check(&w, r % 997 == 1);
            }
            (evals, dis)
        }
    };
}

kind_check!(check_element, ElementName, "Element");
kind_check!(check_attr, AttributeName, "Attr");
kind_check!(check_enum, EnumItem, "Enum");

fn versions(dump: &str) -> (u64, u64) {
    // versions.txt: one line per version: <value> <filename>
    let lines = read_lines(&format!("{}/versions.txt", dump));
    let table: Vec<(u32, String)> = lines
        .iter()
        .map(|l| {
            let mut it = l.splitn(2, ' ');
            (it.next().unwrap().parse().unwrap(), it.next().unwrap().to_string())
        })
        .collect();
    let mut evals = 0u64;
    let mut dis = 0u64;
    let by_val: HashMap<u32, usize> = table.iter().enumerate().map(|(i, (v, _))| (*v, i)).collect();
    let by_name: HashMap<&str, usize> = table.iter().enumerate().map(|(i, (_, f))| (f.as_str(), i)).collect();
    let mut check_val = |v: u32| {
        evals += 1;
        let expected = by_val.get(&v).map(|i| table[*i].clone());
        let got = guard(|| AutosarVersion::from_val(v).map(|x| (x as u32, x.filename().to_string())));
        let ok = match &got {
            Ok(g) => *g == expected,
            Err(_) => false,
        };
        if !ok {
            dis += 1;
            println!("DISAGREE Version from_val {} expected={:?} got={:?}", v, expected, got);
        }
        if expected.is_some() {
            println!("SAMPLE Version val {} {:?}", v, got);
        }
    };
    for i in 0..32 {
        check_val(1u32 << i);
        check_val((1u32 << i).wrapping_sub(1));
        check_val((1u32 << i).wrapping_add(1));
        for j in 0..i {
            check_val((1u32 << i) | (1u32 << j));
        }
    }
    check_val(0);
    check_val(u32::MAX);
    let mut names: Vec<Vec<u8>> = Vec::new();
    for (_, f) in table.iter() {
        names.push(f.as_bytes().to_vec());
        neighbours(f.as_bytes(), &mut names);
    }
    names.push(b"".to_vec());
    names.push(b"AUTOSAR_4-0-0.xsd".to_vec());
    names.push(b"AUTOSAR_00041.xsd".to_vec());
    names.push(b"AUTOSAR_00054.xsd".to_vec());
    names.push(b"autosar_00050.xsd".to_vec());
    for nme in names.iter() {
        if let Ok(txt) = std::str::from_utf8(nme) {
            evals += 1;
            let expected = by_name.get(txt).map(|i| table[*i].clone());
            let got = guard(|| AutosarVersion::from_str(txt).ok().map(|x| (x as u32, x.filename().to_string())));
            let ok = match &got {
                Ok(g) => *g == expected,
                Err(_) => false,
            };
            if !ok {
                dis += 1;
                println!("DISAGREE Version from_str {} expected={:?} got={:?}", hex(nme), expected, got);
            }
        }
    }
    (evals, dis)
}

pub fn main(args: &[String]) {
    let dump = &args[0];
    let seed: u64 = args[1].parse().unwrap();
    let thorough = args.get(2).map(|s| s == "thorough").unwrap_or(false);
    let nrandom = if thorough { 2_000_000 } else { 50_000 };
    let t_el = read_lines(&format!("{}/names_Element.txt", dump));
    let t_at = read_lines(&format!("{}/names_Attr.txt", dump));
    let t_en = read_lines(&format!("{}/names_Enum.txt", dump));
    let (e1, d1) = check_element(&t_el, seed, nrandom, 400);
    let (e2, d2) = check_attr(&t_at, seed ^ 1, nrandom / 10, 100);
    let (e3, d3) = check_enum(&t_en, seed ^ 2, nrandom / 2, 300);
    let (e4, d4) = versions(dump);
    println!("STAT Element evaluations {} disagreements {}", e1, d1);
    println!("STAT Attr evaluations {} disagreements {}", e2, d2);
    println!("STAT Enum evaluations {} disagreements {}", e3, d3);
    println!("STAT Version evaluations {} disagreements {}", e4, d4);
}
