//! direct property oracles on the implementation for the element-tree properties (filled in below)
pub fn oracle_main(_args: &[String]) {
    println!("STAT oracle not implemented yet");
}
