//! Direct property oracles on the IMPLEMENTATION for the element-tree properties (C03, C04, C05, C06, C11, C12):
//! each is a statement of the property in terms of the public API only (independent walks of the tree), evaluated
//! after every operation of a script.  Used for the failing-input search and as an independent detector; it never
//! consults the Coq model.
//!   avh tree oracle <dump> <script>      prints  FAIL <prop> script=<k> step=<i> op=<opname> kind=<kind> <detail>
use crate::tree::*;
use crate::util::*;
use autosar_data::*;
use std::collections::{BTreeMap, HashMap, HashSet};
use std::sync::mpsc;

fn preorder(e: &Element, depth: usize, maxd: usize, out: &mut Vec<(usize, Element)>) {
    out.push((depth, e.clone()));
    if depth > 300 {
        return;
    }
    if maxd == 0 || depth < maxd {
        for s in e.sub_elements() {
            preorder(&s, depth + 1, maxd, out);
        }
    }
}

fn file_preorder(e: &Element, depth: usize, maxd: usize, f: &ArxmlFile, out: &mut Vec<(usize, Element)>) {
    // the element is produced only if its LOCAL membership is empty or contains the file; otherwise the whole subtree is skipped
    let local = match e.file_membership() {
        Ok((true, s)) => Some(s),
        _ => None,
    };
    if let Some(s) = &local {
        if !s.contains(&f.downgrade()) {
            return;
        }
    }
    out.push((depth, e.clone()));
    if depth > 300 {
        return;
    }
    if maxd == 0 || depth < maxd {
        for s in e.sub_elements() {
            file_preorder(&s, depth + 1, maxd, f, out);
        }
    }
}

struct Live {
    reach: Vec<HashSet<Element>>, // per model
}

fn live(ex: &Exec) -> Live {
    let mut reach = vec![];
    for m in &ex.models {
        let mut v = vec![];
        preorder(&m.root_element(), 0, 0, &mut v);
        reach.push(v.into_iter().map(|x| x.1).collect());
    }
    Live { reach }
}

/// digest of the live part of the state (no per-handle lines)
fn live_digest(ex: &Exec) -> u64 {
    let mut h = Hasher::new();
    ex.observe(&mut |s: &str| {
        if !s.starts_with("H ") {
            h.line(s)
        }
    });
    h.h
}
fn full_digest(ex: &Exec) -> u64 {
    let mut h = Hasher::new();
    ex.observe(&mut |s: &str| h.line(s));
    h.h
}

fn full_lines(ex: &Exec) -> Vec<String> {
    let mut v = vec![];
    ex.observe(&mut |s: &str| v.push(s.to_string()));
    v
}

/// which classes of observation lines differ (first letter of the line: M model, N node, I index, P probe / referrers,
/// B broken references, H handle, F file ...): `I-2+0` = two index lines disappeared, none appeared
fn changed_classes(before: &[String], after: &[String]) -> String {
    use std::collections::BTreeMap;
    let mut cnt: BTreeMap<String, (i64, i64)> = BTreeMap::new();
    let mut bag: HashMap<&str, i64> = HashMap::new();
    for l in before {
        *bag.entry(l.as_str()).or_insert(0) += 1;
    }
    for l in after {
        *bag.entry(l.as_str()).or_insert(0) -= 1;
    }
    for (l, d) in bag {
        if d != 0 {
            let c = l.split_whitespace().next().unwrap_or("?").to_string();
            let e = cnt.entry(c).or_insert((0, 0));
            if d > 0 { e.0 += d } else { e.1 -= d }
        }
    }
    // node (N) and handle (H) lines carry the local file set in the field f=[..]: when the lines of a class differ ONLY in that
    // field the class is reported as Nf / Hf (membership only); a difference in name, attributes, content or comment stays N / H
    let strip = |l: &String| -> String { l.split(' ').filter(|w| !w.starts_with("f=[") && !w.starts_with("fm=") && !w.starts_with("minver=")).collect::<Vec<_>>().join(" ") };
    for c in ["N", "H"] {
        if cnt.contains_key(c) {
            let mut b2: HashMap<String, i64> = HashMap::new();
            for l in before.iter().filter(|l| l.split_whitespace().next() == Some(c)) {
                *b2.entry(strip(l)).or_insert(0) += 1;
            }
            for l in after.iter().filter(|l| l.split_whitespace().next() == Some(c)) {
                *b2.entry(strip(l)).or_insert(0) -= 1;
            }
            if b2.values().all(|d| *d == 0) {
                let v = cnt.remove(c).unwrap();
                cnt.insert(format!("{}f", c), v);
            }
        }
    }
    cnt.iter().map(|(c, (a, b))| format!("{}-{}+{}", c, a, b)).collect::<Vec<_>>().join(",")
}

fn opname(op: &Op) -> String {
    op.line().split_whitespace().nth(1).unwrap_or("?").to_string()
}

fn principal(op: &Op) -> Option<usize> {
    use Op::*;
    match op {
        CreateSub(h, _) | CreateSubAt(h, _, _) | CreateNamed(h, _, _) | CreateNamedAt(h, _, _, _) | Copy(h, _) | CopyAt(h, _, _)
        | Move(h, _) | MoveAt(h, _, _) | Remove(h, _) | RemoveKind(h, _) | SetItemName(h, _) | SetCData(h, _) | RemoveCData(h)
        | InsertCItem(h, _, _) | RemoveCItem(h, _) | SetRefTarget(h, _) | SetAttr(h, _, _) | RemoveAttr(h, _) | SetComment(h, _)
        | GetOrCreate(h, _) | GetOrCreateNamed(h, _, _) | AddToFile(h, _) | RemoveFromFile(h, _) | Sort(h) | SerializeElem(h) => Some(*h),
        _ => None,
    }
}

struct RefSnap {
    r: Element,
    text: String,
    target: Option<Element>,
}

fn ref_snapshot(ex: &Exec, lv: &Live) -> Vec<(usize, RefSnap)> {
    let mut v = vec![];
    for (mi, m) in ex.models.iter().enumerate() {
        for e in &lv.reach[mi] {
            if e.is_reference() {
                if let Some(CharacterData::String(t)) = e.character_data() {
                    let target = m.get_element_by_path(&t);
                    v.push((mi, RefSnap { r: e.clone(), text: t, target }));
                }
            }
        }
    }
    v
}

fn is_below(x: &Element, e: &Element) -> bool {
    let mut cur = Some(x.clone());
    let mut n = 0;
    while let Some(c) = cur {
        if c == *e {
            return true;
        }
        n += 1;
        if n > 400 {
            return false;
        }
        cur = c.parent().ok().flatten();
    }
    false
}

fn check_state(ex: &Exec, fails: &mut Vec<(String, String, String)>) {
    let lv = live(ex);
    // ---------------- C03: tree shape and navigation
    for (mi, m) in ex.models.iter().enumerate() {
        let root = m.root_element();
        let mut pre = vec![];
        preorder(&root, 0, 0, &mut pre);
        let mut seen: HashSet<Element> = HashSet::new();
        for (_, e) in &pre {
            if !seen.insert(e.clone()) {
                fails.push(("C03".into(), "element-listed-twice".into(), ex.hnum(e)));
            }
            for (k, item) in e.content().enumerate() {
                if let ElementContent::Element(c) = item {
                    match c.parent() {
                        Ok(Some(p)) if p == *e => {}
                        _ => fails.push(("C03".into(), "child-parent-mismatch".into(), format!("{} in {}", ex.hnum(&c), ex.hnum(e)))),
                    }
                    if c.position() != Some(k) {
                        fails.push(("C03".into(), "position-mismatch".into(), format!("{} reports {:?} is at {}", ex.hnum(&c), c.position(), k)));
                    }
                    if e.get_sub_element_at(k).as_ref() != Some(&c) {
                        fails.push(("C03".into(), "get_sub_element_at-mismatch".into(), ex.hnum(&c)));
                    }
                    match c.model() {
                        Ok(mm) if mm == *m => {}
                        _ => fails.push(("C03".into(), "child-model-mismatch".into(), ex.hnum(&c))),
                    }
                }
            }
        }
        // iterators
        for maxd in [0usize, 1, 2, 3] {
            let mut exp = vec![];
            preorder(&root, 0, maxd, &mut exp);
            let got: Vec<(usize, Element)> = if maxd == 0 { m.elements_dfs().collect() } else { m.elements_dfs_with_max_depth(maxd).collect() };
            if exp != got {
                fails.push(("C03".into(), format!("model-dfs-maxdepth{}", maxd), format!("model {} expected {} got {}", mi, exp.len(), got.len())));
            }
        }
        // element-scoped iterators on a few elements
        for (_, e) in pre.iter().take(40) {
            for maxd in [0usize, 2] {
                let mut exp = vec![];
                preorder(e, 0, maxd, &mut exp);
                let got: Vec<(usize, Element)> = if maxd == 0 { e.elements_dfs().collect() } else { e.elements_dfs_with_max_depth(maxd).collect() };
                if exp != got {
                    fails.push(("C03".into(), format!("element-dfs-maxdepth{}", maxd), ex.hnum(e)));
                }
            }
        }
        for f in m.files() {
            for maxd in [0usize, 2] {
                let mut exp = vec![];
                file_preorder(&root, 0, maxd, &f, &mut exp);
                let got: Vec<(usize, Element)> = if maxd == 0 { f.elements_dfs().collect() } else { f.elements_dfs_with_max_depth(maxd).collect() };
                if exp != got {
                    fails.push(("C03".into(), format!("file-dfs-maxdepth{}", maxd), format!("model {} expected {} got {}", mi, exp.len(), got.len())));
                }
            }
        }
    }
    // stale handles: every place-dependent request fails
    let all_live: HashSet<&Element> = lv.reach.iter().flat_map(|s| s.iter()).collect();
    for e in &ex.handles {
        if !all_live.contains(e) {
            let mut bad = vec![];
            if e.parent().is_ok() {
                bad.push("parent");
            }
            if e.model().is_ok() {
                bad.push("model");
            }
            if e.path().is_ok() {
                bad.push("path");
            }
            if e.file_membership().is_ok() {
                bad.push("file_membership");
            }
            if !bad.is_empty() {
                fails.push(("C03".into(), "stale-handle-answers".into(), format!("{} {}", ex.hnum(e), bad.join("+"))));
            }
        }
    }
    // ---------------- C04: index == paths computed from the tree
    for (mi, m) in ex.models.iter().enumerate() {
        let mut computed: BTreeMap<String, Vec<Element>> = BTreeMap::new();
        fn walk(e: &Element, prefix: &str, depth: usize, computed: &mut BTreeMap<String, Vec<Element>>, fails: &mut Vec<(String, String, String)>, hn: &dyn Fn(&Element) -> String) {
            let mut p = prefix.to_string();
            if e.is_identifiable() {
                if let Some(n) = e.item_name() {
                    p = format!("{}/{}", prefix, n);
                }
                computed.entry(p.clone()).or_default().push(e.clone());
                match e.path() {
                    Ok(ep) if ep == p => {}
                    other => fails.push(("C04".into(), "own-path-mismatch".into(), format!("{} path()={:?} tree says {}", hn(e), other.ok(), p))),
                }
            }
            if depth < 300 {
                for s in e.sub_elements() {
                    walk(&s, &p, depth + 1, computed, fails, hn);
                }
            }
        }
        let hn = |e: &Element| ex.hnum(e);
        walk(&m.root_element(), "", 0, &mut computed, fails, &hn);
        for (p, els) in &computed {
            if els.len() > 1 {
                // where=different-containers: the elements that share the path sit under different parents of different kinds
                // (e.g. one below EXPLICIT-, one below IMPLICIT-INTER-RUNNABLE-VARIABLES); where=same-container-kind otherwise
                let parents: Vec<Option<Element>> = els.iter().map(|e| e.parent().ok().flatten()).collect();
                let all_differ = (0..parents.len()).all(|i| {
                    (i + 1..parents.len()).all(|j| match (&parents[i], &parents[j]) {
                        (Some(a), Some(b)) => a != b && a.element_name() != b.element_name(),
                        _ => false,
                    })
                });
                let wh = if all_differ { "different-containers" } else { "same-container-kind" };
                fails.push(("C04".into(), "duplicate-path".into(), format!("model {} {} x{} where={}", mi, p, els.len(), wh)));
            }
        }
        let mut index: BTreeMap<String, Vec<Option<Element>>> = BTreeMap::new();
        for (p, w) in m.identifiable_elements() {
            index.entry(p).or_default().push(w.upgrade());
        }
        for (p, l) in &index {
            if l.len() > 1 {
                fails.push(("C04".into(), "index-key-twice".into(), p.clone()));
            }
            match computed.get(p) {
                None => fails.push(("C04".into(), "stale-index-entry".into(), format!("model {} {}", mi, p))),
                Some(els) => {
                    if !l.iter().any(|x| x.as_ref().map(|y| els.contains(y)).unwrap_or(false)) {
                        fails.push(("C04".into(), "index-entry-wrong-element".into(), format!("model {} {}", mi, p)));
                    }
                }
            }
        }
        for (p, els) in &computed {
            if !index.contains_key(p) {
                fails.push(("C04".into(), "missing-index-entry".into(), format!("model {} {}", mi, p)));
            }
            let got = m.get_element_by_path(p);
            if !got.as_ref().map(|g| els.contains(g)).unwrap_or(false) {
                fails.push(("C04".into(), "lookup-mismatch".into(), format!("model {} {}", mi, p)));
            }
        }
        for p in &ex.probes {
            if !computed.contains_key(p) && m.get_element_by_path(p).is_some() {
                fails.push(("C04".into(), "lookup-finds-nonexistent".into(), format!("model {} {}", mi, p)));
            }
        }
        // ---------------- C05: referrer lists and the invalid-reference report
        let mut expected: BTreeMap<String, Vec<Element>> = BTreeMap::new();
        let mut all_refs: Vec<Element> = vec![];
        for e in &lv.reach[mi] {
            if e.is_reference() {
                if let Some(CharacterData::String(t)) = e.character_data() {
                    expected.entry(t).or_default().push(e.clone());
                    all_refs.push(e.clone());
                }
            }
        }
        let mut keys: Vec<String> = expected.keys().cloned().collect();
        for p in &ex.probes {
            if !keys.contains(p) {
                keys.push(p.clone());
            }
        }
        for p in &keys {
            let mut got: Vec<usize> = m.get_references_to(p).iter().filter_map(|w| w.upgrade()).map(|e| ex.hidx.get(&e).copied().unwrap_or(usize::MAX)).collect();
            let mut exp: Vec<usize> = expected.get(p).map(|v| v.iter().map(|e| ex.hidx.get(e).copied().unwrap_or(usize::MAX)).collect()).unwrap_or_default();
            got.sort();
            exp.sort();
            if got != exp {
                let kind = if got.len() > exp.len() { "referrer-list-extra" } else if got.len() < exp.len() { "referrer-list-missing" } else { "referrer-list-differs" };
                fails.push(("C05".into(), kind.into(), format!("model {} {} got {:?} expected {:?}", mi, p, got, exp)));
            }
        }
        // hook H1 (only in the hook build): EVERY key of the reverse map, also keys nobody would ask for
        #[cfg(autosar_data_verif)]
        {
            for (key, list) in m.verif_reference_origin_keys() {
                let live: Vec<usize> = list.iter().filter_map(|w| w.upgrade()).map(|e| ex.hidx.get(&e).copied().unwrap_or(usize::MAX)).collect();
                if !expected.contains_key(&key) && !live.is_empty() {
                    fails.push(("C05".into(), "stale-referrer-key".into(), format!("model {} {} lists {:?}", mi, key, live)));
                }
                if list.is_empty() {
                    fails.push(("C05".into(), "empty-referrer-list-kept".into(), format!("model {} {}", mi, key)));
                }
            }
            for (key, w) in m.verif_identifiables_raw() {
                if w.upgrade().is_none() {
                    fails.push(("C04".into(), "dead-index-entry".into(), format!("model {} {}", mi, key)));
                }
            }
        }
        let broken: HashSet<Element> = m.check_references().iter().filter_map(|w| w.upgrade()).collect();
        for r in &all_refs {
            let t = match r.character_data() {
                Some(CharacterData::String(t)) => t,
                _ => continue,
            };
            let ok = match m.get_element_by_path(&t) {
                None => false,
                Some(target) => match r.attribute_value(AttributeName::Dest) {
                    Some(CharacterData::Enum(d)) => target.element_type().verify_reference_dest(d),
                    _ => false,
                },
            };
            if ok == broken.contains(r) {
                fails.push(("C05".into(), if ok { "valid-reference-reported".into() } else { "broken-reference-not-reported".into() }, ex.hnum(r)));
            }
            if r.get_reference_target().is_ok() == broken.contains(r) {
                fails.push(("C05".into(), "report-vs-resolve".into(), ex.hnum(r)));
            }
        }
        for b in &broken {
            if !lv.reach[mi].contains(b) {
                fails.push(("C05".into(), "report-lists-element-outside-model".into(), ex.hnum(b)));
            }
        }
    }
}

fn run_oracle_script(dump: String, probes: Vec<String>, ops: Vec<Op>, tx: mpsc::Sender<Option<String>>) {
    let names = Names::load(&dump);
    let mut ex = Exec::new(&names);
    ex.probes = probes.into_iter().filter(|p| !p.starts_with('\u{1}')).collect();
    for (step, op) in ops.iter().enumerate() {
        let _ = tx.send(Some(format!("@{} {}", step, opname(op))));
        let r = guard(|| {
            let mut out: Vec<String> = vec![];
            // for copies and moves: is the copied / moved element identifiable itself or a non-identifiable container?
            // (the known classes "container duplicates paths" only concern containers)
            let argkind = match op {
                Op::Copy(_, x) | Op::CopyAt(_, x, _) | Op::Move(_, x) | Op::MoveAt(_, x, _) => {
                    match ex.handles.get(*x) {
                        Some(e) if e.is_identifiable() => " arg=identifiable",
                        Some(_) => " arg=container",
                        None => " arg=unknown",
                    }
                }
                _ => "",
            };
            let before_full = full_digest(&ex);
            let before_lines = full_lines(&ex);
            let before_live = live_digest(&ex);
            let lv = live(&ex);
            let stale_principal = principal(op).map(|h| !lv.reach.iter().any(|s| s.contains(&ex.handles[h]))).unwrap_or(false);
            let refs_before = ref_snapshot(&ex, &lv);
            let orphans_before = ex.handles.iter().filter(|e| !lv.reach.iter().any(|s| s.contains(*e)) && e.model().is_ok()).count();
            let subject: Option<Element> = match op {
                Op::SetItemName(h, _) => Some(ex.handles[*h].clone()),
                Op::Move(_, mv) | Op::MoveAt(_, mv, _) => Some(ex.handles[*mv].clone()),
                _ => None,
            };
            let subject_model = subject.as_ref().and_then(|s| s.model().ok());
            let res = ex.apply(op);
            out.push(format!("RES {}", res));
            if res == "R PANIC" {
                out.push(format!("FAIL C12 step={} op={} kind=panic -", step, opname(op)));
                return (out, true);
            }
            if res.contains("ParentElementLocked") {
                out.push(format!("FAIL C12 step={} op={} kind=spurious-parent-locked -", step, opname(op)));
            }
            if res.starts_with("R ERR") {
                let after = full_digest(&ex);
                if after != before_full {
                    let ch = changed_classes(&before_lines, &full_lines(&ex));
                    out.push(format!("FAIL C11 step={} op={} kind=state-changed-after-error {} changed={}", step, opname(op), res, ch));
                }
            }
            if stale_principal {
                let after = live_digest(&ex);
                if after != before_live {
                    out.push(format!("FAIL C03 step={} op={} kind=stale-handle-changed-live-model {}", step, opname(op), res));
                }
            }
            // C06: references follow their target
            if let (Some(subj), true) = (&subject, res.starts_with("R OK")) {
                let same_model_move = match op {
                    Op::Move(d, _) | Op::MoveAt(d, _, _) => ex.handles[*d].model().ok() == subject_model,
                    _ => true,
                };
                for (mi, snap) in &refs_before {
                    let now_text = match snap.r.character_data() {
                        Some(CharacterData::String(t)) => t,
                        _ => String::new(),
                    };
                    let followed = snap.target.as_ref().map(|x| is_below(x, subj)).unwrap_or(false);
                    if followed && same_model_move {
                        let now_target = ex.models[*mi].get_element_by_path(&now_text);
                        if now_target != snap.target {
                            out.push(format!("FAIL C06 step={} op={} kind=reference-lost-its-target {} text {} -> {}", step, opname(op), ex.hnum(&snap.r), snap.text, now_text));
                        }
                    } else if !followed && now_text != snap.text && (same_model_move || !is_below(&snap.r, subj)) {
                        let kind = if snap.target.is_none() { "dangling-reference-rewritten" } else { "unrelated-reference-rewritten" };
                        out.push(format!("FAIL C06 step={} op={} kind={} {} text {} -> {}", step, opname(op), kind, ex.hnum(&snap.r), snap.text, now_text));
                    }
                }
            }
            {
                let lv2 = live(&ex);
                let n_orphans = ex.handles.iter().filter(|e| !lv2.reach.iter().any(|s| s.contains(*e)) && e.model().is_ok()).count();
                if n_orphans > orphans_before {
                    out.push(format!("TAINT orphans-by-{}", opname(op)));
                }
            }
            let mut fails = vec![];
            check_state(&ex, &mut fails);
            for (p, k, d) in fails {
                out.push(format!("FAIL {} step={} op={} kind={} {}{}", p, step, opname(op), k, d, argkind));
            }
            (out, false)
        });
        match r {
            Ok((lines, stop)) => {
                for l in lines {
                    let _ = tx.send(Some(l));
                }
                if stop {
                    break;
                }
            }
            Err(_) => {
                let _ = tx.send(Some(format!("FAIL C12 step={} op={} kind=panic-in-query -", step, opname(op))));
                break;
            }
        }
    }
    let _ = tx.send(None);
}

pub fn oracle_main(args: &[String]) {
    let dump = args[0].clone();
    let script = &args[1];
    let mut nsteps = 0u64;
    let mut nscripts = 0u64;
    let mut nfail = 0u64;
    let mut nerr = 0u64;
    for (idx, probes, ops) in read_scripts(script) {
        nscripts += 1;
        let (tx, rx) = mpsc::channel::<Option<String>>();
        let d = dump.clone();
        std::thread::Builder::new().stack_size(256 * 1024 * 1024).spawn(move || run_oracle_script(d, probes, ops, tx)).unwrap();
        let mut current = String::new();
        // a violation is reported once per (property, kind): the FIRST step at which it shows (later steps inherit it)
        let mut seen: HashMap<String, ()> = HashMap::new();
        let mut taints: Vec<String> = vec![];
        loop {
            match rx.recv_timeout(std::time::Duration::from_millis(30000)) {
                Ok(Some(l)) => {
                    if let Some(rest) = l.strip_prefix('@') {
                        current = rest.to_string();
                        nsteps += 1;
                    } else if let Some(rest) = l.strip_prefix("RES ") {
                        if rest.starts_with("R ERR") {
                            nerr += 1;
                        }
                    } else if let Some(t) = l.strip_prefix("TAINT ") {
                        if !taints.contains(&t.to_string()) {
                            taints.push(t.to_string());
                        }
                    } else if l.starts_with("FAIL ") {
                        let w: Vec<&str> = l.split_whitespace().collect();
                        let kind = w.iter().find(|x| x.starts_with("kind=")).unwrap_or(&"kind=?").to_string();
                        let key = format!("{} {}", w[1], kind);
                        if seen.insert(key, ()).is_none() {
                            nfail += 1;
                            println!("{} script={} taint={}", l, idx, if taints.is_empty() { "-".to_string() } else { taints.join(",") });
                            taints.push(format!("{}:{}", w[1], &kind[5..]));
                        }
                    }
                }
                Ok(None) => break,
                Err(_) => {
                    let mut it = current.split_whitespace();
                    let step = it.next().unwrap_or("?");
                    let opn = it.next().unwrap_or("?");
                    println!("FAIL C12 step={} op={} kind=hang - script={}", step, opn, idx);
                    nfail += 1;
                    break;
                }
            }
        }
    }
    println!("STAT oracle scripts={} steps={} err_results={} fails={}", nscripts, nsteps, nerr, nfail);
    std::process::exit(0);
}
