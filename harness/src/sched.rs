//! sched — exploration of concurrent operation instances under the deterministic scheduler of hook H2.
//!
//! `locks sched run <shape> <schedule|-> <op> <op> [<op>]`        one run (replay of a schedule "0,1,1,0,..." or "-" = first enabled)
//! `locks sched explore <shape> <mode> <n> <seed> <op> <op> [<op>]` mode = random | pb<k> (all schedules with <= k pre-emptions, at most n)
//! `locks sched pairs <tier> <seed> <file>`                        every line of <file>: `<shape> <op> <op> [<op>]`; prints one summary line per line
//!
//! Output lines (one canonical line per observation):
//!   RUN schedule=<..> deadlock=<0|1> results=<r0>|<r1>.. state=<fnv of the canonical final state> diverged=<0|1>
//!   DEADLOCK t<i> wants <mode> <lock> <class> <site> holds [<mode> <lock> <class> <site>;..]
//!   SEQ order=<perm> results=.. state=..
//!   SUMMARY ... (see `explore`)
use super::imp::*;
use crate::util::{guard, SplitMix64};
use autosar_data::verif_shim as shim;
use autosar_data::*;
use std::collections::{BTreeMap, BTreeSet};
use std::sync::{Arc, Mutex};
use std::time::Duration;

/// canonical text of everything observable after the run: serialized files, identifiables, referrers
pub fn canonical_state(w: &World) -> String {
    let mut s = String::new();
    for (mi, m) in [&w.model, &w.model2].iter().enumerate() {
        let mut files: Vec<(String, String)> = Vec::new();
        for f in m.files() {
            let txt = match guard(|| f.serialize()) {
                Ok(Ok(t)) => t,
                Ok(Err(e)) => format!("err:{}", variant(&e)),
                Err(p) => format!("panic:{}", p),
            };
            files.push((format!("{:?}", f.filename()), txt));
        }
        files.sort();
        for (n, t) in files {
            s.push_str(&format!("M{} FILE {} {:016x} len={}\n", mi, n, fnv(&t), t.len()));
        }
        let mut ids: Vec<String> = m
            .identifiable_elements()
            .map(|(p, e)| format!("{}={}", p, e.upgrade().map(|x| format!("{:?}", x.element_name())).unwrap_or("dead".into())))
            .collect();
        ids.sort();
        s.push_str(&format!("M{} IDENT {}\n", mi, ids.join(" ")));
        let mut refs: Vec<String> = m
            .verif_reference_origin_keys()
            .into_iter()
            .map(|(k, v)| {
                let mut who: Vec<String> = v.iter().map(|x| x.upgrade().map(|e| e.xml_path()).unwrap_or("dead".into())).collect();
                who.sort();
                format!("{}<-[{}]", k, who.join(","))
            })
            .collect();
        refs.sort();
        s.push_str(&format!("M{} REFS {}\n", mi, refs.join(" ")));
        // structural invariants visible from outside: every identifiable resolves to an element with that path
        let mut bad = Vec::new();
        for (p, e) in m.identifiable_elements() {
            match e.upgrade().map(|x| x.path()) {
                Some(Ok(pp)) if pp == p => {}
                other => bad.push(format!("{}!={:?}", p, other.map(|r| r.ok()))),
            }
        }
        for (_, e) in m.elements_dfs() {
            if e.is_identifiable() {
                if let Ok(p) = e.path() {
                    if m.get_element_by_path(&p).as_ref() != Some(&e) {
                        bad.push(format!("unindexed:{}", p));
                    }
                }
            }
        }
        bad.sort();
        s.push_str(&format!("M{} INV {}\n", mi, if bad.is_empty() { "ok".to_string() } else { bad.join(" ") }));
    }
    s
}

pub struct RunOut {
    pub outcome: shim::SchedOutcome,
    pub results: Vec<String>,
    pub state: String,
    pub base: u64,
}

/// run the instances concurrently on a fresh world under the scheduler
pub fn run_once(shape: &'static str, ops: &[Op], choose: &mut dyn FnMut(&shim::SchedPoint) -> usize) -> RunOut {
    let w = Arc::new(build(shape));
    let results: Arc<Mutex<Vec<String>>> = Arc::new(Mutex::new(vec!["unfinished".to_string(); ops.len()]));
    let mut bodies: Vec<Box<dyn FnOnce() + Send + 'static>> = Vec::new();
    for (i, o) in ops.iter().enumerate() {
        let (w, o, results) = (w.clone(), o.clone(), results.clone());
        bodies.push(Box::new(move || {
            let r = match guard(|| (o.f)(&w)) {
                Ok(s) => s,
                Err(msg) => {
                    if msg.starts_with("verif_shim: self-deadlock") {
                        "SELFDEADLOCK".to_string()
                    } else if msg.starts_with("verif_shim: aborted") {
                        "ABORTED".to_string()
                    } else {
                        format!("panic:{}", msg.replace(' ', "_").chars().take(80).collect::<String>())
                    }
                }
            };
            results.lock().unwrap()[i] = r;
        }));
    }
    let outcome = shim::run_scheduled(bodies, choose, Duration::from_secs(20));
    let results = results.lock().unwrap().clone();
    let state = if outcome.deadlock.is_some() || outcome.timed_out { "n/a".to_string() } else { canonical_state(&w) };
    RunOut { outcome, results, state, base: w.base_lock }
}

/// run the instances one after the other in the given order (no scheduler): the serial reference
pub fn run_serial(shape: &'static str, ops: &[Op], order: &[usize]) -> (Vec<String>, String) {
    let w = build(shape);
    let mut results = vec![String::new(); ops.len()];
    for &i in order {
        results[i] = run_logged(&w, &ops[i]).result;
    }
    (results, canonical_state(&w))
}

pub fn permutations(n: usize) -> Vec<Vec<usize>> {
    fn rec(cur: &mut Vec<usize>, used: &mut Vec<bool>, n: usize, out: &mut Vec<Vec<usize>>) {
        if cur.len() == n {
            out.push(cur.clone());
            return;
        }
        for i in 0..n {
            if !used[i] {
                used[i] = true;
                cur.push(i);
                rec(cur, used, n, out);
                cur.pop();
                used[i] = false;
            }
        }
    }
    let mut out = Vec::new();
    rec(&mut Vec::new(), &mut vec![false; n], n, &mut out);
    out
}

fn sched_str(s: &[usize]) -> String {
    s.iter().map(|x| x.to_string()).collect::<Vec<_>>().join(",")
}

fn md(m: shim::LockMode) -> &'static str {
    match m {
        shim::LockMode::Read => "R",
        shim::LockMode::Write => "W",
    }
}
fn short(file: &str) -> &str {
    file.rsplit('/').next().unwrap_or(file)
}

pub fn deadlock_lines(out: &RunOut) -> Vec<String> {
    let mut v = Vec::new();
    if let Some(bl) = &out.outcome.deadlock {
        for b in bl {
            let holds: Vec<String> = b
                .holds
                .iter()
                .map(|h| format!("{} {} {:?} {}:{}", md(h.2), h.0.wrapping_sub(out.base), h.1, short(h.3), h.4))
                .collect();
            v.push(format!(
                "DEADLOCK t{} wants {} {} {:?} {}:{}:{:?} holds [{}]",
                b.thread,
                md(b.wants.mode),
                b.wants.lock.wrapping_sub(out.base),
                b.wants.class,
                short(b.wants.file),
                b.wants.line,
                b.wants.acq,
                holds.join("; ")
            ));
        }
    }
    v
}

/// signature of a deadlock that does not depend on lock numbers: per blocked thread the wanted (mode, class, site) and the held ones
pub fn deadlock_signature(out: &RunOut) -> String {
    let mut parts = Vec::new();
    if let Some(bl) = &out.outcome.deadlock {
        for b in bl {
            let mut holds: Vec<String> = b.holds.iter().map(|h| format!("{}:{:?}@{}:{}", md(h.2), h.1, short(h.3), h.4)).collect();
            holds.sort();
            holds.dedup();
            parts.push(format!("{}:{:?}@{}:{}<-{}", md(b.wants.mode), b.wants.class, short(b.wants.file), b.wants.line, holds.join("+")));
        }
    }
    parts.sort();
    parts.join("|")
}

fn print_run(out: &RunOut, verbose: bool) {
    println!(
        "RUN schedule={} deadlock={} results={} state={:016x} diverged={} timed_out={}",
        sched_str(&out.outcome.schedule),
        out.outcome.deadlock.is_some() as u8,
        out.results.join("|"),
        fnv(&out.state),
        out.outcome.diverged as u8,
        out.outcome.timed_out as u8
    );
    for l in deadlock_lines(out) {
        println!("{}", l);
    }
    if verbose {
        print_events(&out.outcome.events, out.base, true);
        for l in out.state.lines() {
            println!("STATE {}", l);
        }
    }
}

fn parse_ops(all: &[Op], names: &[String]) -> Vec<Op> {
    names
        .iter()
        .map(|n| find_op(all, n).unwrap_or_else(|| {
            eprintln!("unknown operation instance {}", n);
            std::process::exit(2)
        }))
        .collect()
}

fn leak_shape(s: &str) -> &'static str {
    SHAPES.iter().find(|x| **x == s).copied().unwrap_or_else(|| {
        eprintln!("unknown shape {}", s);
        std::process::exit(2)
    })
}

/// a chooser that follows a recorded schedule and then the first enabled thread
pub fn replay_chooser(sched: Vec<usize>) -> impl FnMut(&shim::SchedPoint) -> usize {
    move |pt: &shim::SchedPoint| sched.get(pt.step).copied().unwrap_or(pt.enabled[0])
}

/// results of an exploration of one tuple of instances
#[derive(Default)]
pub struct Explored {
    pub runs: usize,
    pub deadlocks: usize,
    pub first_deadlock: Option<(Vec<usize>, Vec<String>, String)>,
    pub nonserial: usize,
    pub first_nonserial: Option<(Vec<usize>, Vec<String>, String)>,
    pub distinct_outcomes: BTreeSet<String>,
    pub serial_outcomes: BTreeSet<String>,
    pub deadlock_signatures: BTreeMap<String, Vec<usize>>,
    pub nonserial_outcomes: BTreeMap<String, Vec<usize>>,
    /// runs in which a call gave up with the lock error but the outcome is not that of the other calls alone
    pub locked_with_effect: usize,
    pub lockfx_outcomes: BTreeMap<String, Vec<usize>>,
    pub timed_out: usize,
}

fn outcome_key(results: &[String], state: &str) -> String {
    format!("{}#{:016x}", results.join("|"), fnv(state))
}

/// a result where an operation gave up with the documented lock error; such a run must equal a serial run of the OTHER operations
/// with this one having no effect (checked by adding the serial outcomes of the sub-sets)
fn is_locked_err(r: &str) -> bool {
    r == "err:ParentElementLocked" || r.contains("(LOCKED)")
}

pub fn serial_outcomes(shape: &'static str, ops: &[Op]) -> BTreeSet<String> {
    let mut set = BTreeSet::new();
    for p in permutations(ops.len()) {
        let (res, st) = run_serial(shape, ops, &p);
        set.insert(outcome_key(&res, &st));
    }
    set
}

/// serial outcomes where the operations in `failed` report ParentElementLocked and have no effect
fn serial_outcomes_with_failures(shape: &'static str, ops: &[Op], failed: &[usize]) -> BTreeSet<String> {
    let mut set = BTreeSet::new();
    let rest: Vec<usize> = (0..ops.len()).filter(|i| !failed.contains(i)).collect();
    for p in permutations(rest.len()) {
        let order: Vec<usize> = p.iter().map(|&k| rest[k]).collect();
        let w = build(shape);
        let mut results = vec![String::new(); ops.len()];
        for &i in &order {
            results[i] = run_logged(&w, &ops[i]).result;
        }
        for &i in failed {
            results[i] = "LOCKED".to_string();
        }
        set.insert(outcome_key(&results, &canonical_state(&w)));
    }
    set
}

fn record(ex: &mut Explored, shape: &'static str, ops: &[Op], out: &RunOut, fail_cache: &mut BTreeMap<Vec<usize>, BTreeSet<String>>) {
    ex.runs += 1;
    if out.outcome.timed_out {
        ex.timed_out += 1;
        return;
    }
    if out.outcome.deadlock.is_some() {
        ex.deadlocks += 1;
        let sig = deadlock_signature(out);
        ex.deadlock_signatures.entry(sig.clone()).or_insert_with(|| out.outcome.schedule.clone());
        if ex.first_deadlock.is_none() {
            ex.first_deadlock = Some((out.outcome.schedule.clone(), deadlock_lines(out), sig));
        }
        return;
    }
    let key = outcome_key(&out.results, &out.state);
    ex.distinct_outcomes.insert(key.clone());
    let failed: Vec<usize> = out.results.iter().enumerate().filter(|(_, r)| is_locked_err(r)).map(|(i, _)| i).collect();
    let ok = if ex.serial_outcomes.contains(&key) {
        true
    } else if !failed.is_empty() {
        let set = fail_cache.entry(failed.clone()).or_insert_with(|| serial_outcomes_with_failures(shape, ops, &failed));
        let mut res = out.results.clone();
        for &i in &failed {
            res[i] = "LOCKED".to_string();
        }
        set.contains(&outcome_key(&res, &out.state))
    } else {
        false
    };
    if !ok && !failed.is_empty() {
        ex.locked_with_effect += 1;
        ex.lockfx_outcomes.entry(key.clone()).or_insert_with(|| out.outcome.schedule.clone());
    }
    if !ok {
        ex.nonserial += 1;
        ex.nonserial_outcomes.entry(key.clone()).or_insert_with(|| out.outcome.schedule.clone());
        if ex.first_nonserial.is_none() {
            ex.first_nonserial = Some((out.outcome.schedule.clone(), out.results.clone(), out.state.clone()));
        }
    }
}

/// all schedules with at most `k` pre-emptions (a pre-emption = switching away from the last thread while it is still enabled),
/// depth-first with replay of prefixes, at most `limit` runs
pub fn explore_pb(shape: &'static str, ops: &[Op], k: usize, limit: usize, ex: &mut Explored) {
    let mut cache = BTreeMap::new();
    // work list of forced prefixes
    let mut work: Vec<Vec<usize>> = vec![vec![]];
    let mut seen: BTreeSet<Vec<usize>> = BTreeSet::new();
    while let Some(prefix) = work.pop() {
        if ex.runs >= limit {
            break;
        }
        // run: follow prefix, then default policy = stay on the last thread if enabled, else the lowest enabled
        let mut enabled_log: Vec<(Vec<usize>, Option<usize>)> = Vec::new();
        let pre = prefix.clone();
        let out = {
            let mut chooser = |pt: &shim::SchedPoint| {
                let c = if pt.step < pre.len() {
                    pre[pt.step]
                } else if let Some(l) = pt.last.filter(|l| pt.enabled.contains(l)) {
                    l
                } else {
                    pt.enabled[0]
                };
                enabled_log.push((pt.enabled.to_vec(), pt.last));
                c
            };
            run_once(shape, ops, &mut chooser)
        };
        if !seen.insert(out.outcome.schedule.clone()) {
            continue;
        }
        record(ex, shape, ops, &out, &mut cache);
        // branch: at every step >= prefix.len(), every alternative choice
        let sched = &out.outcome.schedule;
        // count the pre-emptions in the schedule up to each step
        let mut preempt = vec![0usize; sched.len() + 1];
        for i in 0..sched.len() {
            let (en, last) = &enabled_log[i];
            let p = match last {
                Some(l) if en.contains(l) && sched[i] != *l => 1,
                _ => 0,
            };
            preempt[i + 1] = preempt[i] + p;
        }
        for i in prefix.len()..sched.len() {
            let (en, last) = &enabled_log[i];
            for &alt in en {
                if alt == sched[i] {
                    continue;
                }
                let cost = match last {
                    Some(l) if en.contains(l) && alt != *l => 1,
                    _ => 0,
                };
                if preempt[i] + cost <= k {
                    let mut np = sched[..i].to_vec();
                    np.push(alt);
                    work.push(np);
                }
            }
        }
    }
}

pub fn explore_random(shape: &'static str, ops: &[Op], n: usize, seed: u64, ex: &mut Explored) {
    let mut cache = BTreeMap::new();
    let mut rng = SplitMix64(seed);
    for _ in 0..n {
        // random with a bias to stay on the current thread (longer uninterrupted runs reach deeper states)
        let stay = rng.below(4);
        let mut chooser = |pt: &shim::SchedPoint| {
            if let Some(l) = pt.last.filter(|l| pt.enabled.contains(l)) {
                if rng.below(4) < stay {
                    return l;
                }
            }
            pt.enabled[rng.below(pt.enabled.len() as u64) as usize]
        };
        let out = run_once(shape, ops, &mut chooser);
        record(ex, shape, ops, &out, &mut cache);
    }
}

fn print_summary(tag: &str, shape: &str, names: &[String], ex: &Explored) {
    println!(
        "SUMMARY {} shape={} ops={} runs={} deadlocks={} nonserial={} distinct_outcomes={} serial_outcomes={} timed_out={} lockfx={}",
        tag,
        shape,
        names.join("+"),
        ex.runs,
        ex.deadlocks,
        ex.nonserial,
        ex.distinct_outcomes.len(),
        ex.serial_outcomes.len(),
        ex.timed_out,
        ex.locked_with_effect
    );
    for (key, sched) in &ex.lockfx_outcomes {
        println!("LOCKFX shape={} ops={} schedule={} outcome={}", shape, names.join("+"), sched_str(sched), key);
    }
    for (sig, sched) in &ex.deadlock_signatures {
        println!("DLSIG shape={} ops={} schedule={} sig={}", shape, names.join("+"), sched_str(sched), sig);
    }
    for (key, sched) in &ex.nonserial_outcomes {
        println!("NONSER shape={} ops={} schedule={} outcome={}", shape, names.join("+"), sched_str(sched), key);
    }
}

pub fn main(args: &[String]) {
    let all = ops();
    match args.first().map(|s| s.as_str()) {
        Some("run") => {
            let shape = leak_shape(&args[1]);
            let sched: Vec<usize> = if args[2] == "-" { vec![] } else { args[2].split(',').map(|x| x.parse().unwrap()).collect() };
            let o = parse_ops(&all, &args[3..]);
            let out = run_once(shape, &o, &mut replay_chooser(sched));
            print_run(&out, true);
            for p in permutations(o.len()) {
                let (res, st) = run_serial(shape, &o, &p);
                println!("SEQ order={} results={} state={:016x}", sched_str(&p), res.join("|"), fnv(&st));
                if std::env::var("AVH_VERBOSE").is_ok() {
                    for l in st.lines() {
                        println!("SEQSTATE {}", l);
                    }
                }
            }
        }
        Some("explore") => {
            let shape = leak_shape(&args[1]);
            let mode = args[2].clone();
            let n: usize = args[3].parse().unwrap();
            let seed: u64 = args[4].parse().unwrap();
            let names = args[5..].to_vec();
            let o = parse_ops(&all, &names);
            let mut ex = Explored { serial_outcomes: serial_outcomes(shape, &o), ..Default::default() };
            if mode == "random" {
                explore_random(shape, &o, n, seed, &mut ex);
            } else {
                let k: usize = mode.trim_start_matches("pb").parse().unwrap();
                explore_pb(shape, &o, k, n, &mut ex);
            }
            print_summary(&mode, shape, &names, &ex);
        }
        Some("pairs") => {
            // <pb-k> <pb-limit> <random-n> <seed> <file>
            let k: usize = args[1].parse().unwrap();
            let limit: usize = args[2].parse().unwrap();
            let nrand: usize = args[3].parse().unwrap();
            let seed: u64 = args[4].parse().unwrap();
            let lines = crate::util::read_lines(&args[5]);
            for (li, line) in lines.iter().enumerate() {
                let f: Vec<String> = line.split_whitespace().map(|s| s.to_string()).collect();
                if f.len() < 3 {
                    continue;
                }
                let shape = leak_shape(&f[0]);
                let names = f[1..].to_vec();
                let o = parse_ops(&all, &names);
                if o.iter().any(|x| !applies(x, shape)) {
                    continue;
                }
                let mut ex = Explored { serial_outcomes: serial_outcomes(shape, &o), ..Default::default() };
                if limit > 0 {
                    explore_pb(shape, &o, k, limit, &mut ex);
                }
                if nrand > 0 {
                    explore_random(shape, &o, nrand, seed.wrapping_add(li as u64), &mut ex);
                }
                print_summary("pairs", shape, &names, &ex);
            }
        }
        _ => {
            eprintln!("usage: avh locks sched run|explore|pairs ...");
            std::process::exit(2);
        }
    }
}
