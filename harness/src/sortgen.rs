//! C14 (sorting is a content-preserving, idempotent canonicalisation): sort-specific script generator and the direct
//! oracle on the implementation.
//!   avh sort gen <dump> <seed> <tier> <out-script>     scripts in the format of `avh tree gen` (run them with `avh tree run`
//!                                                       and `avm_tree`); every script carries a line `TAG fam=<f> set=<s>`:
//!                                                       scripts with equal tags build the SAME sibling multiset in another order
//!   avh sort oracle <dump> <script>...                  executes the scripts on the real library; around every sort operation
//!                                                       checks the property in terms of the public API only and prints
//!                                                       FAIL <kind> script=<k> step=<i> <detail>   /  STAT ...
use crate::tree::*;
use crate::util::*;
use autosar_data::*;
use autosar_data_specification::ContentMode;
use std::collections::{BTreeMap, BTreeSet, HashSet};

const POOL: &[&str] = &["a2", "a10", "a1b", "a01", "b", "a", "a1", "a_1"];

struct B<'a> {
    ex: Exec<'a>,
    lines: Vec<String>,
    fails: u32,
    /// where the first sorts are applied when that is not the container of the generated siblings
    sort_at: Option<usize>,
    /// the first sort of the observation block is AutosarModel::sort (the history already contains one, followed by edits)
    model_first: bool,
}

impl<'a> B<'a> {
    fn new(names: &'a Names) -> B<'a> {
        let mut b = B { ex: Exec::new(names), lines: vec![], fails: 0, sort_at: None, model_first: false };
        b.op(Op::NewModel);
        b.op(Op::CreateFile(0, b"f0.arxml".to_vec(), 0x100000));
        b
    }
    fn op(&mut self, op: Op) -> Option<usize> {
        self.lines.push(op.line());
        let r = self.ex.apply(&op);
        if !r.starts_with("R OK") {
            self.fails += 1;
        }
        r.strip_prefix("R OK h").and_then(|x| x.parse::<usize>().ok())
    }
    fn el(&self, s: &str) -> u16 {
        self.ex.names.elidx(s)
    }
    fn at(&self, s: &str) -> u16 {
        self.ex.names.at.iter().position(|x| x == s).unwrap_or_else(|| panic!("attribute name {}", s)) as u16
    }
    fn en(&self, s: &str) -> u16 {
        self.ex.names.en.iter().position(|x| x == s).unwrap_or_else(|| panic!("enum item {}", s)) as u16
    }
    fn sub(&mut self, h: usize, name: &str) -> usize {
        let n = self.el(name);
        self.op(Op::CreateSub(h, n)).unwrap_or_else(|| panic!("create_sub {} failed", name))
    }
    fn named(&mut self, h: usize, name: &str, item: &str) -> usize {
        let n = self.el(name);
        self.op(Op::CreateNamed(h, n, item.as_bytes().to_vec())).unwrap_or_else(|| panic!("create_named {} {} failed", name, item))
    }
    fn text(&mut self, h: usize, t: &str) {
        self.op(Op::SetCData(h, Val::S(t.as_bytes().to_vec())));
    }
    /// handle of the first sub-element with that name
    fn kid(&self, h: usize, name: &str) -> usize {
        let want = self.ex.names.elname(self.el(name)).unwrap();
        let e = self.ex.handles[h].get_sub_element(want).unwrap_or_else(|| panic!("no sub element {}", name));
        self.ex.hidx[&e]
    }
    fn packages(&mut self) -> usize {
        self.sub(0, "AR-PACKAGES")
    }
    fn elements(&mut self) -> usize {
        let pk = self.packages();
        let p = self.named(pk, "AR-PACKAGE", "p");
        self.sub(p, "ELEMENTS")
    }
    fn finish(mut self, k: usize, fam: &str, set: &str, container: usize, out: &mut String) {
        // the observations: comparison matrix, sort (twice: the second must change nothing), whole-model sort
        let at = self.sort_at.unwrap_or(container);
        self.op(Op::CmpKids(container));
        if self.model_first {
            self.op(Op::SortModel(0));
            self.op(Op::CmpKids(container));
        }
        self.op(Op::Sort(at));
        self.op(Op::CmpKids(container));
        self.op(Op::Sort(at));
        self.op(Op::SortModel(0));
        let mut probes: BTreeSet<String> = BTreeSet::new();
        for m in &self.ex.models {
            for (p, _) in m.identifiable_elements() {
                probes.insert(p);
            }
            for e in m.elements_dfs().map(|(_, e)| e) {
                if e.is_reference() {
                    if let Some(CharacterData::String(s)) = e.character_data() {
                        probes.insert(s);
                    }
                }
            }
        }
        out.push_str(&format!("SCRIPT {}\nTAG fam={} set={}\n", k, fam, set));
        let pl: Vec<String> = probes.iter().filter(|p| !p.is_empty()).map(|p| hex(p.as_bytes())).collect();
        out.push_str(&format!("PATHS {}\nOBSERVE serialize\n", pl.join(" ")));
        for l in &self.lines {
            out.push_str(l);
            out.push('\n');
        }
    }
}

fn permutations<T: Clone>(items: &[T]) -> Vec<Vec<T>> {
    if items.len() <= 1 {
        return vec![items.to_vec()];
    }
    let mut res = vec![];
    for i in 0..items.len() {
        let mut rest = items.to_vec();
        let x = rest.remove(i);
        for mut p in permutations(&rest) {
            p.insert(0, x.clone());
            res.push(p);
        }
    }
    res
}

fn subsets(n: usize, k: usize) -> Vec<Vec<usize>> {
    fn go(start: usize, n: usize, k: usize, cur: &mut Vec<usize>, res: &mut Vec<Vec<usize>>) {
        if cur.len() == k {
            res.push(cur.clone());
            return;
        }
        for i in start..n {
            cur.push(i);
            go(i + 1, n, k, cur, res);
            cur.pop();
        }
    }
    let mut res = vec![];
    go(0, n, k, &mut vec![], &mut res);
    res
}

/// one sibling of a generated family: how to build it below the container
#[derive(Clone, Debug)]
enum Sib {
    Pkg(&'static str),
    /// element kind, item name
    Elem(&'static str, &'static str),
    /// ARGUMENT-DATA-PROTOTYPE in an ordered ARGUMENTS container
    Arg(&'static str),
    /// ECUC-CONTAINER-VALUE: short name, INDEX text, DEFINITION-REF text
    Ecuc(&'static str, Option<&'static str>, Option<&'static str>),
    /// ECUC-NUMERICAL-PARAM-VALUE (no name): DEFINITION-REF (dest, text), VALUE
    Param(Option<(Option<&'static str>, Option<&'static str>)>, Option<&'static str>),
    /// ECUC-NUMERICAL-PARAM-VALUE: INDEX text, DEFINITION-REF text, attribute S
    ParamIdx(Option<&'static str>, Option<&'static str>, Option<&'static str>),
    /// FIBEX-ELEMENT-REF-CONDITIONAL: DEST, text, comment
    Fibex(Option<&'static str>, Option<&'static str>, Option<&'static str>),
    /// SW-CALPRM-AXIS (no name) / SW-AXIS-GROUPED / MAX-GRADIENT = the f64 with these bits
    Axis(u64),
    /// AR-PACKAGE with unsorted inner packages and elements
    PkgDeep(&'static str),
    /// sub-element of a mixed-content element (L-4): TT / E / SUB ...
    Inline(&'static str),
    /// ECUC-TEXTUAL-PARAM-VALUE (no name) with equal DEFINITION-REF and VALUE and ANNOTATIONS holding one ANNOTATION per
    /// origin, STORED IN THIS ORDER: siblings tie on every key, Element::cmp falls through to their (reorderable) content
    Annot(Vec<&'static str>),
    /// the same two levels further down: one ANNOTATION whose ANNOTATION-TEXT holds one P (with an L-1 text) per entry
    AnnotP(Vec<&'static str>),
    /// APPLICATION-ENTRY (LIN schedule table entry) with INTRODUCTION, DELAY, POSITION-IN-TABLE: DELAY has one position in
    /// version 4.0.1 and another one, after INTRODUCTION, in all later versions
    AppEntry(&'static str),
    /// ECUC-TEXTUAL-PARAM-VALUE (no name) with DEFINITION-REF /d/p and this VALUE: siblings differ in nothing but STRING
    /// character data (integer-like texts - decimal, 0x, 0b, leading-0 octal - mixed with texts that are no integers)
    TextVal(&'static str),
    /// AR-PACKAGE of a LENIENTLY loaded document: the short name is not ASCII (it may end in a multi-byte character,
    /// optionally followed by digits) - the editing API and strict loading refuse such names
    Lenient(&'static str),
    /// ANNOTATION with this ANNOTATION-ORIGIN
    Ann(&'static str),
    /// SDG with this GID attribute
    Sdg(&'static str),
    /// mixed-content element (L-4 / L-2) with attribute L and this content: (true, t) = sub-element E holding the text t,
    /// (false, t) = the character data t
    Mix(&'static str, &'static str, Vec<(bool, &'static str)>),
}

/// identifies the sibling up to the stored order of its reorderable content (the multiset a group is made of)
fn sib_id(s: &Sib) -> String {
    let canon = match s {
        Sib::Annot(v) => {
            let mut v = v.clone();
            v.sort();
            Sib::Annot(v)
        }
        Sib::AnnotP(v) => {
            let mut v = v.clone();
            v.sort();
            Sib::AnnotP(v)
        }
        other => other.clone(),
    };
    sib_full(&canon)
}
fn sib_full(s: &Sib) -> String {
    format!("{:?}", s).replace(' ', "").replace('"', "")
}
/// every stored order of the sibling's own reorderable content
fn inner_orders(s: &Sib) -> Vec<Sib> {
    match s {
        Sib::Annot(v) => permutations(v).into_iter().map(Sib::Annot).collect(),
        Sib::AnnotP(v) => permutations(v).into_iter().map(Sib::AnnotP).collect(),
        other => vec![other.clone()],
    }
}
/// all orders of the siblings x all stored orders inside each sibling
fn expand(set: &[Sib]) -> Vec<Vec<Sib>> {
    let mut res: Vec<Vec<Sib>> = vec![];
    for perm in permutations(set) {
        let mut acc: Vec<Vec<Sib>> = vec![vec![]];
        for s in &perm {
            let mut next = vec![];
            for prefix in &acc {
                for o in inner_orders(s) {
                    let mut p = prefix.clone();
                    p.push(o);
                    next.push(p);
                }
            }
            acc = next;
        }
        res.extend(acc);
    }
    res
}

fn build_sib(b: &mut B, c: usize, k: usize, s: &Sib) {
    match s {
        Sib::Pkg(n) => {
            b.named(c, "AR-PACKAGE", n);
        }
        Sib::Elem(kind, n) => {
            b.named(c, kind, n);
        }
        Sib::Arg(n) => {
            b.named(c, "ARGUMENT-DATA-PROTOTYPE", n);
        }
        Sib::Ecuc(n, idx, defref) => {
            let e = b.named(c, "ECUC-CONTAINER-VALUE", n);
            if let Some(d) = defref {
                let dr = b.sub(e, "DEFINITION-REF");
                b.text(dr, d);
            }
            if let Some(i) = idx {
                let ie = b.sub(e, "INDEX");
                b.text(ie, i);
            }
        }
        Sib::ParamIdx(idx, defref, sattr) => {
            let e = b.sub(c, "ECUC-NUMERICAL-PARAM-VALUE");
            if let Some(d) = defref {
                let dr = b.sub(e, "DEFINITION-REF");
                b.text(dr, d);
            }
            if let Some(i) = idx {
                let ie = b.sub(e, "INDEX");
                b.text(ie, i);
            }
            if let Some(sv) = sattr {
                let a = b.at("S");
                b.op(Op::SetAttr(e, a, Val::S(sv.as_bytes().to_vec())));
            }
        }
        Sib::Param(defref, value) => {
            let e = b.sub(c, "ECUC-NUMERICAL-PARAM-VALUE");
            if let Some((dest, text)) = defref {
                let dr = b.sub(e, "DEFINITION-REF");
                if let Some(d) = dest {
                    let (a, v) = (b.at("DEST"), b.en(d));
                    b.op(Op::SetAttr(dr, a, Val::E(v)));
                }
                if let Some(t) = text {
                    b.text(dr, t);
                }
            }
            if let Some(v) = value {
                let ve = b.sub(e, "VALUE");
                b.text(ve, v);
            }
        }
        Sib::Fibex(dest, text, comment) => {
            let e = b.sub(c, "FIBEX-ELEMENT-REF-CONDITIONAL");
            let r = b.sub(e, "FIBEX-ELEMENT-REF");
            if let Some(d) = dest {
                let (a, v) = (b.at("DEST"), b.en(d));
                b.op(Op::SetAttr(r, a, Val::E(v)));
            }
            if let Some(t) = text {
                b.text(r, t);
            }
            if let Some(cm) = comment {
                b.op(Op::SetComment(e, Some(cm.as_bytes().to_vec())));
            }
        }
        Sib::Axis(bits) => {
            let e = b.sub(c, "SW-CALPRM-AXIS");
            let g = b.sub(e, "SW-AXIS-GROUPED");
            let f = b.sub(g, "MAX-GRADIENT");
            b.op(Op::SetCData(f, Val::F(*bits)));
        }
        Sib::PkgDeep(n) => {
            let e = b.named(c, "AR-PACKAGE", n);
            let el = b.sub(e, "ELEMENTS");
            b.named(el, "SYSTEM-SIGNAL", "z");
            b.named(el, "I-SIGNAL", "y10");
            b.named(el, "I-SIGNAL", "y9");
            let pk = b.sub(e, "AR-PACKAGES");
            b.named(pk, "AR-PACKAGE", "s2");
            let inner = b.named(pk, "AR-PACKAGE", "s1");
            let iel = b.sub(inner, "ELEMENTS");
            b.named(iel, "UNIT", "k2");
            b.named(iel, "UNIT", "k1");
        }
        Sib::Annot(origins) => {
            let e = b.sub(c, "ECUC-TEXTUAL-PARAM-VALUE");
            let dr = b.sub(e, "DEFINITION-REF");
            b.text(dr, "/d/p");
            let v = b.sub(e, "VALUE");
            b.text(v, "text");
            let an = b.sub(e, "ANNOTATIONS");
            for o in origins {
                let a = b.sub(an, "ANNOTATION");
                let ao = b.sub(a, "ANNOTATION-ORIGIN");
                b.text(ao, o);
            }
        }
        Sib::AnnotP(texts) => {
            let e = b.sub(c, "ECUC-TEXTUAL-PARAM-VALUE");
            let dr = b.sub(e, "DEFINITION-REF");
            b.text(dr, "/d/p");
            let an = b.sub(e, "ANNOTATIONS");
            let a = b.sub(an, "ANNOTATION");
            let ao = b.sub(a, "ANNOTATION-ORIGIN");
            b.text(ao, "o");
            let at = b.sub(a, "ANNOTATION-TEXT");
            for t in texts {
                let p = b.sub(at, "P");
                let l = b.sub(p, "L-1");
                b.op(Op::InsertCItem(l, t.as_bytes().to_vec(), 0));
            }
        }
        Sib::AppEntry(position) => {
            let e = b.sub(c, "APPLICATION-ENTRY");
            b.sub(e, "INTRODUCTION");
            let d = b.sub(e, "DELAY");
            b.op(Op::SetCData(d, Val::F(0x3ff0000000000000)));
            let p = b.sub(e, "POSITION-IN-TABLE");
            b.text(p, position);
        }
        Sib::TextVal(value) => {
            let e = b.sub(c, "ECUC-TEXTUAL-PARAM-VALUE");
            let dr = b.sub(e, "DEFINITION-REF");
            b.text(dr, "/d/p");
            let v = b.sub(e, "VALUE");
            b.text(v, value);
        }
        Sib::Ann(origin) => {
            let a = b.sub(c, "ANNOTATION");
            let ao = b.sub(a, "ANNOTATION-ORIGIN");
            b.text(ao, origin);
        }
        Sib::Sdg(gid) => {
            let e = b.sub(c, "SDG");
            let a = b.at("GID");
            b.op(Op::SetAttr(e, a, Val::S(gid.as_bytes().to_vec())));
        }
        Sib::Mix(kind, lang, items) => {
            let e = b.sub(c, kind);
            let (a, v) = (b.at("L"), b.en(lang));
            b.op(Op::SetAttr(e, a, Val::E(v)));
            for (i, (is_elem, t)) in items.iter().enumerate() {
                if *is_elem {
                    let x = b.sub(e, "E");
                    b.op(Op::InsertCItem(x, t.as_bytes().to_vec(), 0));
                } else {
                    b.op(Op::InsertCItem(e, t.as_bytes().to_vec(), i));
                }
            }
        }
        Sib::Lenient(_) => panic!("lenient siblings are loaded, not built"),
        Sib::Inline(kind) => {
            let e = b.sub(c, kind);
            b.op(Op::InsertCItem(e, b"t".to_vec(), 0));
        }
    }
}

/// builds the container of a family and returns its handle
fn build_container(b: &mut B, fam: &str) -> usize {
    match fam {
        "pkg" | "deep" => b.packages(),
        "bag" => b.elements(),
        "axis" => {
            let el = b.elements();
            let t = b.named(el, "APPLICATION-PRIMITIVE-DATA-TYPE", "t");
            let p = b.sub(t, "SW-DATA-DEF-PROPS");
            let v = b.sub(p, "SW-DATA-DEF-PROPS-VARIANTS");
            let c = b.sub(v, "SW-DATA-DEF-PROPS-CONDITIONAL");
            b.sub(c, "SW-CALPRM-AXIS-SET")
        }
        "ordered" => {
            let el = b.elements();
            let i = b.named(el, "CLIENT-SERVER-INTERFACE", "csi");
            let ops = b.sub(i, "OPERATIONS");
            let o = b.named(ops, "CLIENT-SERVER-OPERATION", "op");
            b.sub(o, "ARGUMENTS")
        }
        "index" | "param" | "paramidx" | "nested" | "strval" => {
            let el = b.elements();
            let m = b.named(el, "ECUC-MODULE-CONFIGURATION-VALUES", "cfg");
            let cs = b.sub(m, "CONTAINERS");
            let c = b.named(cs, "ECUC-CONTAINER-VALUE", "cv");
            if fam == "index" { b.sub(c, "SUB-CONTAINERS") } else { b.sub(c, "PARAMETER-VALUES") }
        }
        "fibex" => {
            let el = b.elements();
            let s = b.named(el, "SYSTEM", "sys");
            b.sub(s, "FIBEX-ELEMENTS")
        }
        "verorder" => {
            let el = b.elements();
            let c = b.named(el, "LIN-CLUSTER", "c");
            let v = b.sub(c, "LIN-CLUSTER-VARIANTS");
            let cc = b.sub(v, "LIN-CLUSTER-CONDITIONAL");
            let pc = b.sub(cc, "PHYSICAL-CHANNELS");
            let ch = b.named(pc, "LIN-PHYSICAL-CHANNEL", "ch");
            let st = b.sub(ch, "SCHEDULE-TABLES");
            let t = b.named(st, "LIN-SCHEDULE-TABLE", "t");
            b.sub(t, "TABLE-ENTRYS")
        }
        // reorderable content BELOW a member of an ORDERED container: the sort is applied above (or at) the ordered container
        // and has to descend through it
        "below-idt" | "below-sdg" => {
            let el = b.elements();
            let t = b.named(el, "IMPLEMENTATION-DATA-TYPE", "t");
            let se = b.sub(t, "SUB-ELEMENTS");
            assert!(b.ex.handles[se].element_type().is_ordered(), "SUB-ELEMENTS is not ordered");
            let e = b.named(se, "IMPLEMENTATION-DATA-TYPE-ELEMENT", "e");
            if fam == "below-idt" {
                b.sort_at = Some(t);
                b.sub(e, "ANNOTATIONS")
            } else {
                b.sort_at = Some(0);
                let ad = b.sub(e, "ADMIN-DATA");
                b.sub(ad, "SDGS")
            }
        }
        "below-bsw" => {
            let el = b.elements();
            let m = b.named(el, "BSW-MODULE-ENTRY", "b");
            let args = b.sub(m, "ARGUMENTS");
            assert!(b.ex.handles[args].element_type().is_ordered(), "ARGUMENTS is not ordered");
            let a = b.named(args, "SW-SERVICE-ARG", "a");
            // the public sort is called on the ordered container itself
            b.sort_at = Some(args);
            b.sub(a, "ANNOTATIONS")
        }
        // siblings with MIXED content that differs in kind (text / sub-element) at the first differing position
        "mixkind-l4" | "mixkind-l2" => {
            let pk = b.packages();
            let p = b.named(pk, "AR-PACKAGE", "p");
            let c = b.sub(p, if fam == "mixkind-l4" { "LONG-NAME" } else { "DESC" });
            assert!(sortable(&b.ex.handles[c]), "the container of the mixed-content siblings is not reorderable");
            c
        }
        "mixed" => {
            let pk = b.packages();
            let p = b.named(pk, "AR-PACKAGE", "p");
            let ln = b.sub(p, "LONG-NAME");
            b.sub(ln, "L-4")
        }
        other => panic!("family {}", other),
    }
}

fn families(tier: &str) -> Vec<(&'static str, Vec<Vec<Sib>>)> {
    use Sib::*;
    let thorough = tier == "thorough";
    let mut v: Vec<(&'static str, Vec<Vec<Sib>>)> = vec![];
    v.push(("bag", vec![
        vec![Elem("SYSTEM-SIGNAL", "a2"), Elem("I-SIGNAL", "a10"), Elem("SYSTEM-SIGNAL", "a1b"), Elem("UNIT", "a2x")],
        vec![Elem("I-SIGNAL", "a2"), Elem("I-SIGNAL", "a10"), Elem("I-SIGNAL", "a1b"), Elem("SYSTEM-SIGNAL", "a")],
        vec![Elem("UNIT", "b"), Elem("COMPU-METHOD", "b1"), Elem("UNIT", "a_1"), Elem("COMPU-METHOD", "a01")],
    ]));
    // numeric suffixes around the u64 boundary: a suffix that does not fit u64 is no index (the whole name is the base);
    // equal index with different text (leading zeros); names that are one letter and digits
    v.push(("bag", vec![
        vec![Elem("I-SIGNAL", "Frame_18446744073709551615"), Elem("I-SIGNAL", "Frame_18446744073709551616"), Elem("I-SIGNAL", "Frame"), Elem("I-SIGNAL", "Frame_7")],
        vec![Elem("I-SIGNAL", "Frame_18446744073709551614"), Elem("I-SIGNAL", "Frame_1234567890123456789012345"), Elem("I-SIGNAL", "Frame_18446744073709551615"), Elem("I-SIGNAL", "Frame_9")],
        vec![Elem("I-SIGNAL", "x007"), Elem("I-SIGNAL", "x7"), Elem("I-SIGNAL", "x07"), Elem("I-SIGNAL", "x8")],
        vec![Elem("I-SIGNAL", "a18446744073709551616"), Elem("I-SIGNAL", "a1"), Elem("I-SIGNAL", "a18446744073709551615"), Elem("I-SIGNAL", "a")],
        vec![Elem("I-SIGNAL", "Frame_18446744073709551616"), Elem("I-SIGNAL", "Frame_18446744073709551617"), Elem("I-SIGNAL", "Frame_99999999999999999999"), Elem("SYSTEM-SIGNAL", "Frame_18446744073709551618")],
    ]));
    v.push(("ordered", vec![
        vec![Arg("a2"), Arg("a10"), Arg("a1b")],
        vec![Arg("b"), Arg("a"), Arg("a1"), Arg("a01")],
    ]));
    v.push(("index", vec![
        vec![Ecuc("Aaa", Some("06"), Some("/d/c")), Ecuc("Bbb", Some("5"), Some("/d/c")), Ecuc("Bbb2", Some("5"), Some("/d/c")), Ecuc("Zzz", None, Some("/d/c"))],
        vec![Ecuc("Ccc", Some("0X4"), Some("/d/c")), Ecuc("Ddd", Some("0b1"), Some("/d/c")), Ecuc("Eee", Some("0x3"), None), Ecuc("Fff", Some("0B10"), Some("/d/c"))],
        vec![Ecuc("n", Some("08"), Some("/d/c")), Ecuc("m", Some("18446744073709551615"), Some("/d/c")), Ecuc("k", Some("18446744073709551616"), Some("/d/c")), Ecuc("j", Some("0"), Some("/d/c"))],
    ]));
    v.push(("param", vec![
        vec![Param(Some((Some("ECUC-BOOLEAN-PARAM-DEF"), Some("/DefRef_999"))), Some("1")), Param(Some((Some("ECUC-BOOLEAN-PARAM-DEF"), Some("/DefRef_111"))), Some("0")),
             Param(Some((Some("ECUC-INTEGER-PARAM-DEF"), Some("/DefRef_111"))), Some("0")), Param(None, Some("5"))],
        vec![Param(Some((Some("ECUC-INTEGER-PARAM-DEF"), Some("/x"))), Some("1")), Param(Some((Some("ECUC-BOOLEAN-PARAM-DEF"), Some("/y"))), Some("0")),
             Param(Some((Some("ECUC-FLOAT-PARAM-DEF"), None)), Some("2"))],
        vec![Param(Some((Some("ECUC-INTEGER-PARAM-DEF"), Some("/x"))), Some("1")), Param(Some((Some("ECUC-INTEGER-PARAM-DEF"), Some("/x"))), Some("1")),
             Param(Some((Some("ECUC-INTEGER-PARAM-DEF"), Some("/x"))), Some("0"))],
    ]));
    v.push(("fibex", vec![
        vec![Fibex(Some("I-SIGNAL"), Some("/ZZZZZ"), None), Fibex(Some("I-SIGNAL"), Some("/AAAAA"), None), Fibex(Some("ECU-INSTANCE"), Some("/ZZZZZ"), None), Fibex(None, Some("/AAAAA"), None)],
        vec![Fibex(Some("I-SIGNAL"), Some("/p/a"), Some("one")), Fibex(Some("I-SIGNAL"), Some("/p/a"), Some("two")), Fibex(Some("I-SIGNAL"), Some("/p/a"), None)],
        vec![Fibex(Some("I-SIGNAL"), Some("/p/a"), None), Fibex(Some("I-SIGNAL"), Some("/p/a"), None), Fibex(Some("I-SIGNAL"), None, None), Fibex(None, None, None)],
    ]));
    v.push(("paramidx", vec![
        vec![ParamIdx(Some("1"), Some("/d/z"), None), ParamIdx(Some("1"), Some("/d/a2"), None), ParamIdx(None, Some("/d/a10"), None), ParamIdx(None, None, None)],
        vec![ParamIdx(None, Some("/d/z"), None), ParamIdx(None, Some("/d/a"), None), ParamIdx(None, Some("/d/a"), None)],
        vec![ParamIdx(Some("0x10"), Some("/d/a"), Some("s2")), ParamIdx(Some("16"), Some("/d/a"), Some("s1")), ParamIdx(Some("020"), Some("/d/a"), None), ParamIdx(Some("7"), Some("/d/a"), Some("s1"))],
        // siblings that differ in nothing but an attribute: the last stage of Element::cmp decides
        vec![ParamIdx(Some("7"), Some("/d/a"), Some("s2")), ParamIdx(Some("7"), Some("/d/a"), Some("s1")), ParamIdx(Some("7"), Some("/d/a"), None)],
        vec![ParamIdx(None, None, Some("b")), ParamIdx(None, None, Some("a")), ParamIdx(None, None, Some("a")), ParamIdx(None, None, Some("ab"))],
    ]));
    v.push(("axis", vec![
        vec![Axis(0x4000000000000000), Axis(0x7ff8000000000000), Axis(0x3ff0000000000000)],
        vec![Axis(0x8000000000000000), Axis(0), Axis(0xbff0000000000000), Axis(0x7ff0000000000000)],
        vec![Axis(0x3ff0000000000000), Axis(0x3ff0000000000000), Axis(0x400921fb54442d18)],
    ]));
    v.push(("deep", vec![
        vec![PkgDeep("w")],
        vec![PkgDeep("w2"), PkgDeep("w10")],
    ]));
    // siblings that tie on every key and whose own content is stored unsorted: the children must be sorted BEFORE the
    // siblings are compared (every order of the siblings x every stored order of their children, two and four levels down)
    v.push(("nested", vec![
        vec![Annot(vec!["b", "a"]), Annot(vec!["a", "c"])],
        vec![Annot(vec!["a", "b"]), Annot(vec!["a", "c"]), Annot(vec!["b", "c"])],
        vec![Annot(vec!["c", "b", "a"]), Annot(vec!["a", "c"])],
        vec![Annot(vec!["a", "b"]), Annot(vec!["a", "b"])],
        vec![Annot(vec!["a2", "a10"]), Annot(vec!["a10", "a1b"])],
        vec![AnnotP(vec!["b", "a"]), AnnotP(vec!["a", "c"])],
        vec![AnnotP(vec!["c", "a"]), AnnotP(vec!["a", "b"]), AnnotP(vec!["a"])],
        vec![Annot(vec!["b", "a"]), AnnotP(vec!["b", "a"]), Annot(vec!["a", "a"])],
    ]));
    // siblings that tie on every earlier stage and differ only in string values: CharacterData::cmp of two strings is textual
    // whatever they look like (a numeric order for integer-like pairs only would be cyclic: 2 < 10 < 1b < 2)
    v.push(("strval", vec![
        vec![TextVal("2"), TextVal("10"), TextVal("1b")],
        vec![TextVal("2"), TextVal("10"), TextVal("1e1")],
        vec![TextVal("9"), TextVal("0x10"), TextVal("0y")],
        vec![TextVal("7"), TextVal("010"), TextVal("01a")],
        vec![TextVal("3"), TextVal("0b100"), TextVal("0b2")],
        vec![TextVal("2"), TextVal("10"), TextVal("1b"), TextVal("0x3")],
    ]));
    // the same in a string attribute value (Attribute::cmp uses CharacterData::cmp)
    v.push(("paramidx", vec![
        vec![ParamIdx(Some("7"), Some("/d/a"), Some("2")), ParamIdx(Some("7"), Some("/d/a"), Some("10")), ParamIdx(Some("7"), Some("/d/a"), Some("1b"))],
        vec![ParamIdx(None, None, Some("9")), ParamIdx(None, None, Some("0x10")), ParamIdx(None, None, Some("0y"))],
    ]));
    for fam in ["below-idt", "below-bsw"] {
        v.push((fam, vec![
            vec![Ann("b"), Ann("a")],
            vec![Ann("c"), Ann("a"), Ann("b")],
            vec![Ann("a2"), Ann("a10"), Ann("a")],
        ]));
    }
    for (fam, kind) in [("mixkind-l4", "L-4"), ("mixkind-l2", "L-2")] {
        v.push((fam, vec![
            vec![Mix(kind, "EN", vec![(false, "plain "), (true, "bold")]), Mix(kind, "DE", vec![(true, "fett"), (false, " normal")])],
            vec![Mix(kind, "EN", vec![(false, "a"), (true, "x")]), Mix(kind, "DE", vec![(true, "x"), (false, "a")]), Mix(kind, "FR", vec![(true, "x"), (true, "y")])],
            vec![Mix(kind, "EN", vec![(true, "x"), (false, "b")]), Mix(kind, "DE", vec![(true, "x"), (true, "b")]), Mix(kind, "FR", vec![(true, "x")])],
            // the same language on both: nothing but the kind of the first content item differs
            vec![Mix(kind, "EN", vec![(false, "t"), (true, "t")]), Mix(kind, "EN", vec![(true, "t"), (false, "t")])],
        ]));
    }
    v.push(("below-sdg", vec![
        vec![Sdg("b"), Sdg("a")],
        vec![Sdg("g2"), Sdg("g10"), Sdg("g1")],
    ]));
    v.push(("mixed", vec![vec![Inline("TT"), Inline("E"), Inline("SUB")]]));
    v.push(("verorder", vec![vec![AppEntry("2"), AppEntry("1")]]));
    if thorough {
        v.push(("bag", vec![vec![Elem("SYSTEM-SIGNAL", "a2"), Elem("I-SIGNAL", "a10"), Elem("SYSTEM-SIGNAL", "a1b"), Elem("UNIT", "a2x"), Elem("I-SIGNAL", "a01")]]));
        v.push(("index", vec![vec![Ecuc("Aaa", Some("06"), Some("/d/c")), Ecuc("Bbb", Some("5"), Some("/d/c")), Ecuc("Ccc", Some("0X4"), Some("/d/c")), Ecuc("Zzz", None, Some("/d/c")), Ecuc("Mmm_9", None, Some("/d/c")), Ecuc("Mmm_10", None, Some("/d/c"))]]));
    }
    v
}

pub fn gen_main(args: &[String]) {
    let dump = &args[0];
    let seed: u64 = args[1].parse().unwrap();
    let tier = &args[2];
    let out = &args[3];
    let names = Names::load(dump);
    let mut text = String::new();
    let mut k = 0usize;
    let mut stats: BTreeMap<String, u64> = BTreeMap::new();
    let mut op_fail = 0u64;
    let mut rng = SplitMix64(seed ^ 0xC14);
    // ---- packages: every ordered selection of up to `full` names of the pool, sampled selections beyond
    let full = 4;
    let mut sels: Vec<Vec<usize>> = vec![];
    for size in 1..=full {
        for s in subsets(POOL.len(), size) {
            sels.extend(permutations(&s));
        }
    }
    if tier == "thorough" {
        for size in 5..=6 {
            // all permutations of two subsets containing the cyclic triple, and a seeded sample of the rest
            let all = subsets(POOL.len(), size);
            let with_cycle: Vec<&Vec<usize>> = all.iter().filter(|s| s.contains(&0) && s.contains(&1) && s.contains(&2)).collect();
            for s in with_cycle.iter().take(2) {
                sels.extend(permutations(s));
            }
            for _ in 0..1500 {
                let s = &all[rng.below(all.len() as u64) as usize];
                let ps = permutations(s);
                sels.push(ps[rng.below(ps.len() as u64) as usize].clone());
            }
        }
    }
    for sel in &sels {
        let mut b = B::new(&names);
        let c = build_container(&mut b, "pkg");
        for (i, ix) in sel.iter().enumerate() {
            build_sib(&mut b, c, i, &Sib::Pkg(POOL[*ix]));
        }
        let mut sorted: Vec<&str> = sel.iter().map(|i| POOL[*i]).collect();
        sorted.sort();
        op_fail += b.fails as u64;
        b.finish(k, "pkg", &sorted.join("+"), c, &mut text);
        k += 1;
        *stats.entry("pkg".into()).or_insert(0) += 1;
    }
    // ---- the other families: every permutation of each sibling multiset
    for (fam, sets) in families(tier) {
        for set in sets {
            let mut ids: Vec<String> = set.iter().map(sib_id).collect();
            ids.sort();
            let setid = ids.join("+");
            let mut seen: HashSet<String> = HashSet::new();
            for perm in expand(&set) {
                // equal siblings make equal permutations: build each distinct sequence once
                let key: Vec<String> = perm.iter().map(sib_full).collect();
                if !seen.insert(key.join("|")) {
                    continue;
                }
                let mut b = B::new(&names);
                let c = build_container(&mut b, fam);
                for (i, s) in perm.iter().enumerate() {
                    build_sib(&mut b, c, i, s);
                }
                op_fail += b.fails as u64;
                b.finish(k, fam, &setid, c, &mut text);
                k += 1;
                *stats.entry(fam.to_string()).or_insert(0) += 1;
            }
        }
    }
    // ---- sort_model - edits that touch neither the path index nor the referrer lists - sort_model: the second model sort must
    // see the edits (scripts with one tag end in the same multiset of siblings; the first sort of the observation block is the
    // model sort, so the oracle judges its result: sorted, and one text per tag)
    {
        let gid = |b: &mut B, e: usize, v: &str| {
            let a = b.at("GID");
            b.op(Op::SetAttr(e, a, Val::S(v.as_bytes().to_vec())));
        };
        let sdgs = |b: &mut B| -> usize {
            let pk = b.packages();
            let p = b.named(pk, "AR-PACKAGE", "p");
            let ad = b.sub(p, "ADMIN-DATA");
            b.sub(ad, "SDGS")
        };
        let mut emit = |b: B, set: &str, c: usize, k: &mut usize, text: &mut String, op_fail: &mut u64| {
            let mut b = b;
            b.model_first = true;
            *op_fail += b.fails as u64;
            b.finish(*k, "resort", set, c, text);
            *k += 1;
            *stats.entry("resort".into()).or_insert(0) += 1;
        };
        // (1) unnamed siblings created after the first model sort, every order
        for perm in permutations(&["c", "a", "b"]) {
            let mut b = B::new(&names);
            let c = sdgs(&mut b);
            build_sib(&mut b, c, 0, &Sib::Sdg("m"));
            b.op(Op::SortModel(0));
            for g in &perm {
                build_sib(&mut b, c, 0, &Sib::Sdg(g));
            }
            emit(b, "sdg-created-after-sort:a+b+c+m", c, &mut k, &mut text, &mut op_fail);
        }
        // (2) an attribute that is a sort key changed after the first model sort (both siblings, either one)
        for (first, second, change_first) in [("a", "b", true), ("a", "b", false), ("b", "a", true)] {
            let mut b = B::new(&names);
            let c = sdgs(&mut b);
            let e1 = b.sub(c, "SDG");
            gid(&mut b, e1, first);
            let e2 = b.sub(c, "SDG");
            gid(&mut b, e2, second);
            b.op(Op::SortModel(0));
            // after the sort the siblings are a, b: give one of them a value on the other side of its neighbour
            let (lo, hi) = if first < second { (e1, e2) } else { (e2, e1) };
            if change_first { gid(&mut b, lo, "z") } else { gid(&mut b, hi, "0") };
            emit(b, if change_first { "sdg-attr-after-sort:b+z" } else { "sdg-attr-after-sort:0+a" }, c, &mut k, &mut text, &mut op_fail);
        }
        // (3) character data that is a sort key changed after the first model sort
        for perm in permutations(&["a", "b"]) {
            let mut b = B::new(&names);
            let c = build_container(&mut b, "below-idt");
            b.sort_at = None;
            let mut origin = vec![];
            for o in &perm {
                let a = b.sub(c, "ANNOTATION");
                let ao = b.sub(a, "ANNOTATION-ORIGIN");
                b.text(ao, o);
                origin.push((o.to_string(), ao));
            }
            b.op(Op::SortModel(0));
            let ao = origin.iter().find(|(o, _)| o == "a").unwrap().1;
            b.text(ao, "c");
            emit(b, "origin-after-sort:b+c", c, &mut k, &mut text, &mut op_fail);
        }
        // (4) unnamed siblings moved to another position after the first model sort
        for pos in [0usize, 1] {
            let mut b = B::new(&names);
            let c = sdgs(&mut b);
            let mut hs = vec![];
            for g in ["a", "b", "c"] {
                let e = b.sub(c, "SDG");
                gid(&mut b, e, g);
                hs.push(e);
            }
            b.op(Op::SortModel(0));
            b.op(Op::MoveAt(c, hs[2], pos));
            emit(b, "sdg-moved-after-sort:a+b+c", c, &mut k, &mut text, &mut op_fail);
        }
        // (5) an unnamed subtree copied after the first model sort
        {
            let mut b = B::new(&names);
            let c = sdgs(&mut b);
            let e1 = b.sub(c, "SDG");
            gid(&mut b, e1, "b");
            b.op(Op::SortModel(0));
            let e0 = b.sub(c, "SDG");
            gid(&mut b, e0, "a");
            b.op(Op::CopyAt(c, e0, 2));
            emit(b, "sdg-copied-after-sort:a+a+b", c, &mut k, &mut text, &mut op_fail);
        }
    }
    // ---- named siblings of a leniently loaded document: names the editing API refuses (not ASCII; the last character before
    // the numeric suffix, or the last character at all, is a multi-byte one).  The script is new_model + load(strict = false).
    let lenient_sets: Vec<Vec<&'static str>> = vec![
        vec!["Ma\u{df}2", "Ma\u{df}10", "T\u{fc}r"],
        vec!["Ma\u{df}2", "Ma\u{df}10", "Ma\u{df}", "Gr\u{f6}\u{df}e1"],
        vec!["T\u{fc}r", "T\u{fc}r2", "T\u{fc}", "Ma\u{df}10"],
        vec!["\u{20ac}9", "\u{20ac}10", "\u{20ac}"],
    ];
    for set in &lenient_sets {
        let mut sorted: Vec<&str> = set.clone();
        sorted.sort();
        let setid = sorted.join("+");
        for perm in permutations(set) {
            // the text: what the library itself writes for packages q0, q1, .. with the names substituted
            let tm = AutosarModel::new();
            let tf = tm.create_file("t.arxml", AutosarVersion::LATEST).unwrap();
            let pk = tm.root_element().create_sub_element(ElementName::ArPackages).unwrap();
            for i in 0..perm.len() {
                pk.create_named_sub_element(ElementName::ArPackage, &format!("q{}q", i)).unwrap();
            }
            let mut t = tf.serialize().unwrap();
            for (i, n) in perm.iter().enumerate() {
                t = t.replace(&format!(">q{}q<", i), &format!(">{}<", n));
            }
            let mut b = B { ex: Exec::new(&names), lines: vec![], fails: 0, sort_at: None, model_first: false };
            b.op(Op::NewModel);
            let line = Op::Load(0, t.into_bytes(), b"f0.arxml".to_vec(), false);
            b.lines.push(line.line());
            let r = b.ex.apply(&line);
            if !r.starts_with("R OK") {
                b.fails += 1;
                eprintln!("lenient load: {}", r);
            }
            // loading the first file into a model replaces its root element
            let root = b.ex.hidx[&b.ex.models[0].root_element()];
            let c = b.kid(root, "AR-PACKAGES");
            op_fail += b.fails as u64;
            b.finish(k, "lenient", &setid, c, &mut text);
            k += 1;
            *stats.entry("lenient".into()).or_insert(0) += 1;
        }
    }
    std::fs::write(out, text).unwrap();
    for (f, n) in &stats {
        println!("STAT family={} scripts={}", f, n);
    }
    println!("STAT scripts={} rejected_ops={}", k, op_fail);
}

// ------------------------------------------------------------------------------------------------ oracle
#[derive(Clone)]
struct Snap {
    e: Element,
    name: ElementName,
    attrs: String,
    data: String,
    comment: Option<String>,
    parent: Option<Element>,
    kids: Vec<Element>,
}

fn snapshot(e: &Element, depth: usize, out: &mut Vec<Snap>) {
    let kids: Vec<Element> = e.sub_elements().collect();
    let attrs: Vec<String> = e.attributes().map(|a| format!("{}={}", a.attrname as u16, show_cdata(&a.content))).collect();
    let data: Vec<String> = e.content().filter_map(|c| match c { ElementContent::CharacterData(d) => Some(show_cdata(&d)), _ => None }).collect();
    out.push(Snap {
        e: e.clone(),
        name: e.element_name(),
        attrs: attrs.join(","),
        data: data.join(","),
        comment: e.comment(),
        parent: e.parent().ok().flatten(),
        kids: kids.clone(),
    });
    if depth < 300 {
        for s in kids {
            snapshot(&s, depth + 1, out);
        }
    }
}

fn sortable(e: &Element) -> bool {
    let t = e.element_type();
    matches!(t.content_mode(), ContentMode::Sequence | ContentMode::Choice | ContentMode::Bag) && !t.is_ordered()
}

fn strip_comments(t: &str) -> String {
    let mut s = String::new();
    let mut rest = t;
    while let Some(p) = rest.find("<!--") {
        s.push_str(&rest[..p]);
        match rest[p..].find("-->") {
            Some(q) => rest = &rest[p + q + 3..],
            None => {
                rest = "";
            }
        }
    }
    s.push_str(rest);
    s.lines().filter(|l| !l.trim().is_empty()).collect::<Vec<_>>().join("\n")
}

struct ModelView {
    loads: Vec<bool>,
    idents: Vec<(String, usize)>,
    refs: Vec<(String, String)>,
    broken: String,
    file_lines: Vec<Vec<String>>,
    texts: Vec<String>,
}

fn view(ex: &Exec, mi: usize, roots: &[String]) -> ModelView {
    let m = &ex.models[mi];
    let hn = |w: &WeakElement| w.upgrade().and_then(|e| ex.hidx.get(&e).copied()).unwrap_or(usize::MAX);
    let mut idents: Vec<(String, usize)> = m.identifiable_elements().map(|(p, w)| (p, hn(&w))).collect();
    idents.sort();
    let mut refs = vec![];
    let mut paths: BTreeSet<String> = roots.iter().cloned().collect();
    for (p, _) in &idents {
        paths.insert(p.clone());
    }
    for p in &paths {
        let mut l: Vec<usize> = m.get_references_to(p).iter().map(hn).collect();
        l.sort();
        refs.push((p.clone(), format!("{:?}|{:?}", m.get_element_by_path(p).map(|e| ex.hidx.get(&e).copied()), l)));
    }
    let mut br: Vec<usize> = m.check_references().iter().map(hn).collect();
    br.sort();
    let mut file_lines = vec![];
    let mut texts = vec![];
    let mut loads = vec![];
    for f in m.files() {
        let t = f.serialize().unwrap_or_else(|e| format!("ERR {}", err_name(&e)));
        // the model is valid: its text loads strictly into a fresh model
        loads.push(AutosarModel::new().load_buffer(t.as_bytes(), "reload.arxml", true).is_ok());
        let mut l: Vec<String> = t.lines().map(|x| x.to_string()).collect();
        l.sort();
        file_lines.push(l);
        texts.push(t);
    }
    ModelView { loads, idents, refs, broken: format!("{:?}", br), file_lines, texts }
}

fn check_sort(ex: &mut Exec, op: &Op, k: usize, step: usize, probes: &[String], fails: &mut Vec<String>, checks: &mut u64, first_text: &mut Option<String>) -> String {
    let (root, mi): (Element, Option<usize>) = match op {
        Op::Sort(h) => {
            let e = ex.handles[*h].clone();
            let mi = e.model().ok().and_then(|m| ex.models.iter().position(|x| *x == m));
            (e, mi)
        }
        Op::SortModel(m) => (ex.models[*m].root_element(), Some(*m)),
        _ => unreachable!(),
    };
    // the view first: ArxmlFile::serialize rewrites the xsi:schemaLocation attribute of the root for the file's version
    let vb = mi.map(|m| view(ex, m, probes));
    let mut before = vec![];
    snapshot(&root, 0, &mut before);
    let r = ex.apply(op);
    let mut fail = |kind: &str, d: String| fails.push(format!("FAIL {} script={} step={} op={} {}", kind, k, step, op.line().replace(' ', "_"), d));
    if r != "R OK" {
        fail("never_fails", format!("result={}", r.replace(' ', "_")));
        return r;
    }
    let mut after = vec![];
    snapshot(&root, 0, &mut after);
    *checks += 1;
    // same set of elements below the sorted element
    let sb: HashSet<Element> = before.iter().map(|s| s.e.clone()).collect();
    let sa: HashSet<Element> = after.iter().map(|s| s.e.clone()).collect();
    if sb != sa || before.len() != after.len() {
        fail("content", format!("elements before={} after={}", before.len(), after.len()));
    }
    let am: std::collections::HashMap<Element, &Snap> = after.iter().map(|s| (s.e.clone(), s)).collect();
    for s in &before {
        let Some(t) = am.get(&s.e) else { continue };
        let hn = ex.hnum(&s.e);
        if s.name != t.name || s.attrs != t.attrs || s.data != t.data || s.comment != t.comment {
            fail("content", format!("{} name/attributes/values/comment changed", hn));
        }
        if s.parent != t.parent {
            fail("content", format!("{} parent changed", hn));
        }
        let kb: HashSet<Element> = s.kids.iter().cloned().collect();
        let ka: HashSet<Element> = t.kids.iter().cloned().collect();
        if kb != ka || s.kids.len() != t.kids.len() {
            fail("content", format!("{} children are not a permutation", hn));
        } else if s.kids != t.kids && !sortable(&s.e) {
            fail("permitted", format!("{} ({}) was reordered although its type is ordered or not an element container", hn, s.name));
        }
        // the result is sorted by (position in the specification, Element::cmp) wherever reordering is permitted
        if sortable(&s.e) && t.kids.len() > 1 {
            let ty = s.e.element_type();
            for w in t.kids.windows(2) {
                let ia = ty.find_sub_element(w[0].element_name(), u32::MAX).map(|x| x.1);
                let ib = ty.find_sub_element(w[1].element_name(), u32::MAX).map(|x| x.1);
                if ia.cmp(&ib).then(w[0].cmp(&w[1])) == std::cmp::Ordering::Greater {
                    fail("sorted", format!("{}: {} > {} after sorting", hn, ex.hnum(&w[0]), ex.hnum(&w[1])));
                }
            }
        }
    }
    // the model around it: index maps, lookups, referrers, serialized text as a multiset of lines
    if let (Some(m), Some(vb)) = (mi, vb) {
        let va = view(ex, m, probes);
        if va.idents != vb.idents {
            fail("lookups", "identifiable_elements changed".into());
        }
        if va.refs != vb.refs {
            fail("lookups", "get_element_by_path / get_references_to changed".into());
        }
        if va.broken != vb.broken {
            fail("lookups", "check_references changed".into());
        }
        if va.loads.len() != vb.loads.len() || va.loads.iter().zip(vb.loads.iter()).any(|(a, b)| *b && !*a) {
            fail("valid", "a file that loaded strictly before the sort does not load strictly after it".into());
        }
        if va.file_lines != vb.file_lines {
            fail("content", "the serialized lines are not the same multiset".into());
        }
        // what ONE sort made of this order of the siblings (compared across the scripts of a group)
        if first_text.is_none() {
            *first_text = Some(va.texts.iter().map(|t| strip_comments(t)).collect::<Vec<_>>().join("\n====\n"));
        }
        // idempotence: sorting again changes nothing
        let _ = ex.apply(op);
        let v2 = view(ex, m, probes);
        if v2.texts != va.texts {
            fail("idempotent", "a second sort changed the serialized text".into());
        }
    }
    r
}

pub fn oracle_main(args: &[String]) {
    let dump = args[0].clone();
    let names = Names::load(&dump);
    let mut fails: Vec<String> = vec![];
    let mut checks = 0u64;
    let mut scripts = 0u64;
    // (fam, set) -> (text without comments, first script)
    let mut groups: BTreeMap<String, Vec<(String, usize)>> = BTreeMap::new();
    for path in &args[1..] {
        let tags: BTreeMap<usize, String> = {
            let mut m = BTreeMap::new();
            let mut cur = 0usize;
            for l in read_lines(path) {
                if let Some(r) = l.strip_prefix("SCRIPT ") {
                    cur = r.trim().parse().unwrap();
                } else if let Some(r) = l.strip_prefix("TAG ") {
                    m.insert(cur, r.trim().to_string());
                }
            }
            m
        };
        for (k, probes, ops) in read_scripts(path) {
            scripts += 1;
            let probes: Vec<String> = probes.into_iter().filter(|p| !p.starts_with('\u{1}')).collect();
            let mut ex = Exec::new(&names);
            let mut dead = false;
            let mut first_text: Option<String> = None;
            for (step, op) in ops.iter().enumerate() {
                let r = match op {
                    Op::Sort(_) | Op::SortModel(_) => {
                        let r = guard(std::panic::AssertUnwindSafe(|| check_sort(&mut ex, op, k, step, &probes, &mut fails, &mut checks, &mut first_text)));
                        match r {
                            Ok(r) => r,
                            Err(_) => {
                                fails.push(format!("FAIL oracle_panic script={} step={}", k, step));
                                "R PANIC".into()
                            }
                        }
                    }
                    _ => ex.apply(op),
                };
                if r == "R PANIC" || r == "R HANG" {
                    dead = true;
                    break;
                }
            }
            if dead {
                continue;
            }
            if let Some(tag) = tags.get(&k) {
                // ordered containers and mixed content keep the order they were given: no canonical form to compare
                if !ex.models.is_empty() && !tag.starts_with("fam=ordered ") && !tag.starts_with("fam=mixed ") {
                    // after the FIRST sort of the script (the later ones would hide a dependence on the previous order) ...
                    if let Some(t) = first_text {
                        groups.entry(format!("{} after=first-sort", tag)).or_default().push((t, k));
                    }
                    // ... and at the end
                    let t: Vec<String> = ex.models[0].files().map(|f| strip_comments(&f.serialize().unwrap_or_default())).collect();
                    groups.entry(format!("{} after=all", tag)).or_default().push((t.join("\n====\n"), k));
                }
            }
        }
    }
    // order independence: every script of a group ends in the same text (comments aside)
    let mut ngroups = 0u64;
    let mut dependent = 0u64;
    for (tag, l) in &groups {
        ngroups += 1;
        let mut distinct: BTreeMap<&String, usize> = BTreeMap::new();
        for (t, k) in l {
            distinct.entry(t).or_insert(*k);
        }
        if distinct.len() > 1 {
            dependent += 1;
            let ks: Vec<String> = distinct.values().map(|k| k.to_string()).collect();
            fails.push(format!("FAIL order_dependent {} results={} of={} scripts={}", tag.replace(' ', "_"), distinct.len(), l.len(), ks.join(",")));
        }
    }
    for f in &fails {
        println!("{}", f);
    }
    println!("STAT scripts={} sort_checks={} groups={} order_dependent_groups={} fails={}", scripts, checks, ngroups, dependent, fails.len());
}

pub fn main(args: &[String]) {
    match args.first().map(|s| s.as_str()) {
        Some("gen") => gen_main(&args[1..]),
        Some("oracle") => oracle_main(&args[1..]),
        _ => {
            eprintln!("usage: avh sort gen <dump> <seed> <tier> <out> | avh sort oracle <dump> <script>...");
            std::process::exit(2)
        }
    }
}
