//! shared helpers: PRNG, hex, FNV-1a line hasher, panic capture
use std::panic::{catch_unwind, AssertUnwindSafe};

pub struct SplitMix64(pub u64);
impl SplitMix64 {
    pub fn next(&mut self) -> u64 {
        self.0 = self.0.wrapping_add(0x9E3779B97F4A7C15);
        let mut z = self.0;
        z = (z ^ (z >> 30)).wrapping_mul(0xBF58476D1CE4E5B9);
        z = (z ^ (z >> 27)).wrapping_mul(0x94D049BB133111EB);
        z ^ (z >> 31)
    }
    pub fn below(&mut self, n: u64) -> u64 {
        self.next() % n
    }
    pub fn pick<'a, T>(&mut self, l: &'a [T]) -> &'a T {
        &l[self.below(l.len() as u64) as usize]
    }
}

pub fn hex(b: &[u8]) -> String {
    let mut s = String::with_capacity(b.len() * 2);
    for x in b {
        s.push_str(&format!("{:02x}", x));
    }
    s
}

pub fn unhex(s: &str) -> Vec<u8> {
    (0..s.len() / 2).map(|i| u8::from_str_radix(&s[2 * i..2 * i + 2], 16).unwrap()).collect()
}

/// FNV-1a 64 over lines (each line terminated by '\n')
pub struct LineHash {
    pub h: u64,
    pub n: u64,
    pub verbose: bool,
}
impl LineHash {
    pub fn new(verbose: bool) -> Self {
        LineHash { h: 0xcbf29ce484222325, n: 0, verbose }
    }
    pub fn line(&mut self, s: &str) {
        for b in s.bytes().chain(std::iter::once(b'\n')) {
            self.h ^= b as u64;
            self.h = self.h.wrapping_mul(0x100000001b3);
        }
        self.n += 1;
        if self.verbose {
            println!("{}", s);
        }
    }
}

/// run f, turning a panic into Err(message)
pub fn guard<T>(f: impl FnOnce() -> T) -> Result<T, String> {
    catch_unwind(AssertUnwindSafe(f)).map_err(|e| {
        if let Some(s) = e.downcast_ref::<&str>() {
            s.to_string()
        } else if let Some(s) = e.downcast_ref::<String>() {
            s.clone()
        } else {
            "panic".to_string()
        }
    })
}

pub fn quiet_panics() {
    if std::env::var("AVH_LOUD").is_ok() {
        return;
    }
    std::panic::set_hook(Box::new(|_| {}));
}

pub fn read_lines(path: &str) -> Vec<String> {
    std::fs::read_to_string(path).unwrap_or_else(|e| panic!("cannot read {}: {}", path, e)).lines().map(|l| l.to_string()).collect()
}
