//! C18 lookups / spec functions: canonical observation of every reachable ElementType, hashed per type.
use crate::util::*;
use autosar_data_specification::*;
use std::collections::{HashMap, VecDeque};

pub fn et_ids(t: &ElementType) -> (u32, u32) {
    // Debug prints "ElementType(def, typ)"
    let s = format!("{:?}", t);
    let inner = s.trim_start_matches("ElementType(").trim_end_matches(')');
    let mut it = inner.split(", ");
    (it.next().unwrap().parse().unwrap(), it.next().unwrap().parse().unwrap())
}

pub fn mode_num(m: ContentMode) -> u32 {
    match m {
        ContentMode::Sequence => 0,
        ContentMode::Choice => 1,
        ContentMode::Bag => 2,
        ContentMode::Characters => 3,
        ContentMode::Mixed => 4,
    }
}

pub fn mult_num(m: ElementMultiplicity) -> u32 {
    match m {
        ElementMultiplicity::ZeroOrOne => 0,
        ElementMultiplicity::One => 1,
        ElementMultiplicity::Any => 2,
    }
}

pub fn cdata_summary(c: &CharacterDataSpec) -> String {
    match c {
        CharacterDataSpec::Enum { items } => {
            let v: Vec<String> = items.iter().map(|(i, m)| format!("{}:{}", *i as u16, m)).collect();
            format!("E:{}", v.join(","))
        }
        CharacterDataSpec::Pattern { regex, max_length, .. } => {
            format!("P:{}:{}", max_length.map(|x| x.to_string()).unwrap_or("-".into()), regex)
        }
        CharacterDataSpec::String { preserve_whitespace, max_length } => {
            format!("S:{}:{}", *preserve_whitespace as u32, max_length.map(|x| x.to_string()).unwrap_or("-".into()))
        }
        CharacterDataSpec::UnsignedInteger => "U".into(),
        CharacterDataSpec::Float => "F".into(),
    }
}

/// all element types reachable from ROOT, in BFS order of the listing
pub fn reachable() -> Vec<ElementType> {
    let mut seen: HashMap<(u32, u32), ()> = HashMap::new();
    let mut order = Vec::new();
    let mut q = VecDeque::new();
    q.push_back(ElementType::ROOT);
    seen.insert(et_ids(&ElementType::ROOT), ());
    while let Some(t) = q.pop_front() {
        order.push(t);
        for (_, ct, _, _) in t.sub_element_spec_iter() {
            let id = et_ids(&ct);
            if !seen.contains_key(&id) {
                seen.insert(id, ());
                q.push_back(ct);
            }
        }
    }
    order
}

pub fn types_main(_args: &[String]) {
    for t in reachable() {
        let (d, y) = et_ids(&t);
        println!("{} {}", d, y);
    }
}

pub fn versions_list() -> Vec<u32> {
    let mut v: Vec<u32> = (0..32).map(|i| 1u32 << i).filter(|b| AutosarVersion::from_val(*b).is_some()).collect();
    v.push(u32::MAX);
    v.push(0);
    v
}

fn observe(t: &ElementType, names: &[ElementName], attr_names: &[AttributeName], h: &mut LineHash) {
    let (_d, _y) = et_ids(t);
    let cd = t.chardata_spec().map(cdata_summary).unwrap_or("-".into());
    let restrict = match t.std_restriction() {
        StdRestrict::NotRestricted => 0,
        StdRestrict::ClassicPlatform => 1,
        StdRestrict::AdaptivePlatform => 2,
    };
    h.line(&format!(
        "H named={} ref={} mode={} ordered={} split={} restrict={} cdata={}",
        t.is_named() as u32, t.is_ref() as u32, mode_num(t.content_mode()), t.is_ordered() as u32, t.splittable(), restrict, cd
    ));
    let vers = versions_list();
    for v in vers.iter() {
        if let Some(ver) = AutosarVersion::from_val(*v) {
            h.line(&format!("NV {} {} {}", v, t.is_named_in_version(ver) as u32, t.splittable_in(ver) as u32));
        }
    }
    // the property itself, directly on the implementation (used for the failing-input search)
    let listing: Vec<(ElementName, ElementType, u32, u32)> = t.sub_element_spec_iter().collect();
    for (name, _ct, mask, _) in listing.iter() {
        for v in vers.iter().filter(|v| **v != u32::MAX && **v != 0 && (*mask & **v) != 0) {
            let why = match t.find_sub_element(*name, *v) {
                None => Some("listed but not found".to_string()),
                Some((ft, idx)) => {
                    let listed_type = listing.iter().any(|(n2, t2, m2, _)| n2 == name && *t2 == ft && (m2 & v) != 0);
                    let vm = t.get_sub_element_version_mask(&idx);
                    if !listed_type {
                        Some(format!("found with type {:?} that is not listed for the name in this version", ft))
                    } else if vm.map(|m| m & v == 0).unwrap_or(true) {
                        Some(format!("version mask {:?} of the returned index path does not contain the version", vm))
                    } else {
                        None
                    }
                }
            };
            if let Some(w) = why {
                println!("DISAGREE lookup type=({},{}) sub-element={} version={:#x}: {}", _d, _y, name, v, w);
            }
        }
    }
    let alisting: Vec<(AttributeName, &CharacterDataSpec, bool)> = t.attribute_spec_iter().collect();
    for (name, _spec, _req) in alisting.iter() {
        match t.find_attribute_spec(*name) {
            None => println!("DISAGREE lookup type=({},{}) attribute={}: listed but not found", _d, _y, name),
            Some(s) => {
                let ok = alisting.iter().any(|(n2, s2, r2)| n2 == name && *r2 == s.required && cdata_summary(s2) == cdata_summary(s.spec));
                if !ok || s.version == 0 {
                    println!("DISAGREE lookup type=({},{}) attribute={}: found spec/required/version not as listed", _d, _y, name);
                }
            }
        }
    }
    let mut probe: Vec<ElementName> = Vec::new();
    for (name, ct, mask, named) in t.sub_element_spec_iter() {
        let (cd_, cy) = et_ids(&ct);
        h.line(&format!("L {} {} {} {} {}", name as u16, cd_, cy, mask, named));
        if !probe.contains(&name) {
            probe.push(name);
        }
    }
    let extra = [ElementName::ShortName, names[0]];
    let listed = probe.len();
    for i in 0..listed {
        let nx = names[(probe[i] as u16 as usize + 1) % names.len()];
        if !probe.contains(&nx) {
            probe.push(nx);
        }
    }
    for e in extra {
        if !probe.contains(&e) {
            probe.push(e);
        }
    }
    for name in probe.iter() {
        for v in vers.iter() {
            match t.find_sub_element(*name, *v) {
                Some((ct, idx)) => {
                    let (cd_, cy) = et_ids(&ct);
                    let ix: Vec<String> = idx.iter().map(|x| x.to_string()).collect();
                    let vm = t.get_sub_element_version_mask(&idx).map(|x| x.to_string()).unwrap_or("-".into());
                    let mu = t.get_sub_element_multiplicity(&idx).map(|x| mult_num(x).to_string()).unwrap_or("-".into());
                    let cm = mode_num(t.get_sub_element_container_mode(&idx));
                    h.line(&format!("F {} {} {} {} {} {} {} {}", *name as u16, v, cd_, cy, ix.join("."), vm, mu, cm));
                }
                None => h.line(&format!("F {} {} -", *name as u16, v)),
            }
        }
    }
    let mut aprobe: Vec<AttributeName> = Vec::new();
    for (name, spec, req) in t.attribute_spec_iter() {
        h.line(&format!("A {} {} {}", name as u16, req as u32, cdata_summary(spec)));
        if !aprobe.contains(&name) {
            aprobe.push(name);
        }
    }
    for a in [AttributeName::Dest, AttributeName::Uuid, attr_names[0]] {
        if !aprobe.contains(&a) {
            aprobe.push(a);
        }
    }
    for a in aprobe.iter() {
        match t.find_attribute_spec(*a) {
            Some(s) => h.line(&format!("G {} {} {} {}", *a as u16, cdata_summary(s.spec), s.required as u32, s.version)),
            None => h.line(&format!("G {} -", *a as u16)),
        }
    }
}

pub fn load_names(dump: &str) -> (Vec<ElementName>, Vec<AttributeName>, Vec<EnumItem>) {
    let e = read_lines(&format!("{}/names_Element.txt", dump)).iter().map(|s| ElementName::from_bytes(s.as_bytes()).expect("element name")).collect();
    let a = read_lines(&format!("{}/names_Attr.txt", dump)).iter().map(|s| AttributeName::from_bytes(s.as_bytes()).expect("attr name")).collect();
    let i = read_lines(&format!("{}/names_Enum.txt", dump)).iter().map(|s| EnumItem::from_bytes(s.as_bytes()).expect("enum item")).collect();
    (e, a, i)
}

/// spec <dumpdir> [<def> <typ>]   — without a type: one hash line per reachable type; with: verbose lines of that type
pub fn main(args: &[String]) {
    let dump = &args[0];
    let (names, attr_names, _items) = load_names(dump);
    let only: Option<(u32, u32)> = if args.len() >= 3 { Some((args[1].parse().unwrap(), args[2].parse().unwrap())) } else { None };
    let types = reachable();
    for t in types.iter() {
        let id = et_ids(t);
        if let Some(o) = only {
            if o != id {
                continue;
            }
        }
        let mut h = LineHash::new(only.is_some());
        let r = guard(|| observe(t, &names, &attr_names, &mut h));
        match r {
            Ok(()) => println!("T {} {} {} {:016x}", id.0, id.1, h.n, h.h),
            Err(m) => println!("T {} {} PANIC {}", id.0, id.1, m.replace('\n', " ")),
        }
    }
    // reference_dest_value: every reference type against a deterministic sample of named types
    let refs: Vec<&ElementType> = types.iter().filter(|t| t.is_ref()).collect();
    let named: Vec<&ElementType> = types.iter().filter(|t| t.is_named()).collect();
    if only.is_none() {
        let mut h = LineHash::new(false);
        let mut npairs = 0u64;
        let mut nsome = 0u64;
        let mut rng = SplitMix64(12345);
        for r in refs.iter() {
            for _ in 0..40 {
                let o = named[rng.below(named.len() as u64) as usize];
                let dv = r.reference_dest_value(o);
                npairs += 1;
                let (rd, ry) = et_ids(r);
                let (od, oy) = et_ids(o);
                match dv {
                    Some(d) => {
                        nsome += 1;
                        // the property, directly: accepted by the target, member of the DEST enum
                        let acc = o.verify_reference_dest(d);
                        let inenum = match r.find_attribute_spec(AttributeName::Dest).map(|s| s.spec) {
                            Some(CharacterDataSpec::Enum { items }) => items.iter().any(|(i, _)| *i == d),
                            _ => false,
                        };
                        if !acc || !inenum {
                            println!("DISAGREE dest ref=({},{}) other=({},{}) dest={} accepted={} in_enum={}", rd, ry, od, oy, d as u16, acc, inenum);
                        }
                        h.line(&format!("D {} {} {} {} {}", rd, ry, od, oy, d as u16));
                    }
                    None => h.line(&format!("D {} {} {} {} -", rd, ry, od, oy)),
                }
            }
        }
        println!("DEST {} {} {:016x}", npairs, nsome, h.h);
    }
    println!("STAT types {} refs {} named {}", types.len(), refs.len(), named.len());
}
