//! C17 — version compatibility: document generator driven by the specification tables (every sub-element / attribute /
//! enumeration value whose version mask is partial), correspondence scripts for `avh tree run` / `avm_tree`, and the DIRECT
//! ORACLE on the implementation:
//!   strict load of the file's text relabelled to the target's xsd succeeds  <=>  check_version_compatibility(target) lists
//!   nothing  <=>  target in the returned mask  <=>  set_version(target) is Ok (then: text unchanged but for the xsd name, and
//!   the new text loads strictly as the target version).
//!   avh compat stats  <dump>
//!   avh compat gen    <dump> <seed> <tier> <out-script>            scripts (tree-script format) ending in check_compat/set_version ops
//!   avh compat sweep  <dump> <seed> <tier> [shard nshards]         generated documents x 21 targets through the oracle
//!   avh compat oracle <dump> <script> [-v]                         the oracle on the final state of every script
use crate::tree::{Exec, Names, Op, Val};
use crate::util::*;
use autosar_data::*;
use autosar_data_specification::{CharacterDataSpec, ElementType};
use std::collections::{BTreeMap, HashMap, HashSet, VecDeque};
use std::str::FromStr;

pub const FULL: u32 = 0x1F_FFFF;

fn versions() -> Vec<AutosarVersion> {
    (0..32).filter_map(|k| AutosarVersion::from_val(1u32 << k)).collect()
}

/// the sub-element entries of a type in iteration order, the FIRST entry per name that is valid in `v` (what
/// find_sub_element(name, v) selects)
fn subs_in(t: ElementType, v: u32) -> Vec<(ElementName, ElementType, u32, u32)> {
    let mut seen: HashSet<ElementName> = HashSet::new();
    let mut out = vec![];
    for (n, et, m, nm) in t.sub_element_spec_iter() {
        if m & v != 0 && seen.insert(n) {
            out.push((n, et, m, nm));
        }
    }
    out
}

/// per version: type -> (parent type, name, named in that version)
type Reach = HashMap<ElementType, (ElementType, ElementName, bool)>;
fn reach(v: u32) -> Reach {
    let mut r: Reach = HashMap::new();
    let mut q = VecDeque::new();
    q.push_back(ElementType::ROOT);
    let mut seen: HashSet<ElementType> = HashSet::new();
    seen.insert(ElementType::ROOT);
    while let Some(t) = q.pop_front() {
        for (n, et, _m, nm) in subs_in(t, v) {
            if seen.insert(et) {
                r.insert(et, (t, n, nm & v != 0));
                q.push_back(et);
            }
        }
    }
    r
}

#[derive(Clone, Debug)]
pub enum Kind {
    /// sub-element `name` (entry number `k` of the parent's iteration) of parent type
    Sub(ElementType, usize, ElementName, ElementType, u32),
    /// attribute of a type
    Attr(ElementType, AttributeName, u32),
    /// enumeration value of an attribute
    AttrVal(ElementType, AttributeName, EnumItem, u32, u32),
    /// enumeration value as element text
    TextVal(ElementType, EnumItem, u32),
    /// (types whose name has another type in other versions) a non-enumeration text value / attribute value
    Text(ElementType, CharacterData),
    AttrText(ElementType, AttributeName, CharacterData, u32),
}
impl Kind {
    pub fn carrier(&self) -> ElementType {
        match self {
            Kind::Sub(t, ..) | Kind::Attr(t, ..) | Kind::AttrVal(t, ..) | Kind::TextVal(t, ..) | Kind::Text(t, ..) | Kind::AttrText(t, ..) => *t,
        }
    }
    /// versions in which the entry itself is valid
    pub fn mask(&self) -> u32 {
        match self {
            Kind::Sub(.., m) | Kind::Attr(.., m) | Kind::TextVal(.., m) | Kind::AttrText(.., m) => *m,
            Kind::Text(..) => FULL,
            Kind::AttrVal(.., am, im) => *am & *im,
        }
    }
    pub fn tag(&self) -> &'static str {
        match self {
            Kind::Sub(..) => "S",
            Kind::Attr(..) => "A",
            Kind::AttrVal(..) => "AV",
            Kind::TextVal(..) => "TV",
            Kind::Text(..) => "T",
            Kind::AttrText(..) => "AT",
        }
    }
    pub fn desc(&self) -> String {
        match self {
            Kind::Sub(t, k, n, _, m) => format!("S:{:?}#{}:{}:{}", t, k, n.to_str(), m),
            Kind::Attr(t, a, m) => format!("A:{:?}:{}:{}", t, a.to_str(), m),
            Kind::AttrVal(t, a, i, am, im) => format!("AV:{:?}:{}:{}:{}:{}", t, a.to_str(), i.to_str(), am, im),
            Kind::TextVal(t, i, m) => format!("TV:{:?}:{}:{}", t, i.to_str(), m),
            Kind::Text(t, c) => format!("T:{:?}:{}", t, crate::tree::show_cdata(c)),
            Kind::AttrText(t, a, c, m) => format!("AT:{:?}:{}:{}:{}", t, a.to_str(), crate::tree::show_cdata(c), m),
        }
    }
}

pub struct Spec {
    pub vers: Vec<AutosarVersion>,
    pub reach: Vec<Reach>,
    pub entries: Vec<Kind>,
    pub types: Vec<ElementType>,
    /// element types whose NAME has another type in other versions (a parent lists the name twice)
    pub sw: HashSet<ElementType>,
    /// element types with a sub element whose index path has length >= 3 (a group nested in a group: the version mask of
    /// such a sub element is read from the INNER group's version table)
    pub deep: HashSet<ElementType>,
}

fn spec_ptr(s: &'static CharacterDataSpec) -> usize {
    s as *const CharacterDataSpec as usize
}

impl Spec {
    pub fn build() -> Spec {
        let vers = versions();
        let reach: Vec<Reach> = vers.iter().map(|v| reach(*v as u32)).collect();
        // every type reachable in some version, in a deterministic order
        let mut types: Vec<ElementType> = vec![ElementType::ROOT];
        let mut seen: HashSet<ElementType> = HashSet::new();
        seen.insert(ElementType::ROOT);
        let mut i = 0;
        while i < types.len() {
            let t = types[i];
            i += 1;
            for (_, et, _, _) in t.sub_element_spec_iter() {
                if seen.insert(et) {
                    types.push(et);
                }
            }
        }
        let mut entries = vec![];
        // switching types: a parent lists their name twice with different types (the type depends on the version)
        let mut sw: HashSet<ElementType> = HashSet::new();
        for t in &types {
            let l: Vec<_> = t.sub_element_spec_iter().collect();
            for (i, a) in l.iter().enumerate() {
                for b in l.iter().skip(i + 1) {
                    if a.0 == b.0 && a.1 != b.1 {
                        sw.insert(a.1);
                        sw.insert(b.1);
                    }
                }
            }
        }
        // nested groups: enumerated from the specification (find_sub_element returns the index path)
        let mut deep: HashSet<ElementType> = HashSet::new();
        for t in &types {
            for (n, _, m, _) in t.sub_element_spec_iter() {
                for v in vers.iter().map(|v| *v as u32).filter(|v| m & v != 0) {
                    if let Some((_, ix)) = t.find_sub_element(n, v) {
                        if ix.len() >= 3 {
                            deep.insert(*t);
                        }
                    }
                }
            }
        }
        // enumeration values are listed once per (specification, item) and carrier kind: the table entry is the spec's
        let mut seen_av: HashSet<(usize, u16, u16)> = HashSet::new();
        let mut seen_tv: HashSet<(usize, u16)> = HashSet::new();
        for t in &types {
            for (k, (n, et, m, _)) in t.sub_element_spec_iter().enumerate() {
                if m != FULL || sw.contains(t) || deep.contains(t) {
                    entries.push(Kind::Sub(*t, k, n, et, m));
                }
            }
            for (an, spec, _) in t.attribute_spec_iter() {
                let Some(a) = t.find_attribute_spec(an) else { continue };
                if a.version != FULL || sw.contains(t) {
                    entries.push(Kind::Attr(*t, an, a.version));
                }
                if sw.contains(t) {
                    for c in values_for(spec, 4) {
                        entries.push(Kind::AttrText(*t, an, c, a.version));
                    }
                }
                if let CharacterDataSpec::Enum { items } = spec {
                    for (it, im) in items.iter() {
                        if *im != FULL && seen_av.insert((spec_ptr(spec), an as u16, *it as u16)) {
                            entries.push(Kind::AttrVal(*t, an, *it, a.version, *im));
                        }
                    }
                }
            }
            if sw.contains(t) {
                if let Some(spec) = t.chardata_spec() {
                    for c in values_for(spec, 6) {
                        entries.push(Kind::Text(*t, c));
                    }
                }
            }
            if let Some(spec @ CharacterDataSpec::Enum { items }) = t.chardata_spec() {
                for (it, im) in items.iter() {
                    if *im != FULL && seen_tv.insert((spec_ptr(spec), *it as u16)) {
                        entries.push(Kind::TextVal(*t, *it, *im));
                    }
                }
            }
        }
        Spec { vers, reach, entries, types, sw, deep }
    }
    fn vidx(&self, v: u32) -> usize {
        self.vers.iter().position(|x| *x as u32 == v).unwrap()
    }
    /// names from the root to `t` in version v
    pub fn path(&self, t: ElementType, v: u32) -> Option<Vec<(ElementName, bool, ElementType)>> {
        let r = &self.reach[self.vidx(v)];
        let mut p = vec![];
        let mut cur = t;
        while cur != ElementType::ROOT {
            let (par, n, named) = r.get(&cur)?;
            p.push((*n, *named, cur));
            cur = *par;
        }
        p.reverse();
        Some(p)
    }
    /// source versions in which the entry is valid and its carrier reachable
    pub fn sources(&self, e: &Kind) -> Vec<u32> {
        self.vers.iter().map(|v| *v as u32).filter(|v| e.mask() & v != 0 && (e.carrier() == ElementType::ROOT || self.reach[self.vidx(*v)].contains_key(&e.carrier()))).collect()
    }
}

const PATTERN_CANDIDATES: &[&str] = &[
    "x", "a", "A", "1", "0", "1.0", "true", "0x1", "/a", "/a/b", "a/b", "ABC", "1.0.0", "2020-01-01", "2020-01-01T00:00:00Z", "EN", "AA", "a1", "X_1",
    "00:00:00:00:00:00", "1.2.3.4", "::1", "0b1", "01", "-1", "1e3", "INF", "ANY", "ALL", "application/xml", "4.0.1", "R4.0", "blueprint", "#x", "a.b", "AUTOSAR",
];

fn value_for(spec: &CharacterDataSpec, v: u32) -> Option<CharacterData> {
    match spec {
        CharacterDataSpec::Enum { items } => items.iter().find(|(_, m)| m & v != 0).map(|(i, _)| CharacterData::Enum(*i)),
        CharacterDataSpec::Pattern { check_fn, max_length, .. } => PATTERN_CANDIDATES
            .iter()
            .find(|c| c.len() <= max_length.unwrap_or(usize::MAX) && check_fn(c.as_bytes()))
            .map(|c| CharacterData::String(c.to_string())),
        CharacterDataSpec::String { .. } => Some(CharacterData::String("x".to_string())),
        CharacterDataSpec::UnsignedInteger => Some(CharacterData::UnsignedInteger(1)),
        CharacterDataSpec::Float => None,
    }
}
/// up to n different non-enumeration values the spec accepts
fn values_for(spec: &CharacterDataSpec, n: usize) -> Vec<CharacterData> {
    match spec {
        CharacterDataSpec::Enum { .. } | CharacterDataSpec::Float => vec![],
        CharacterDataSpec::Pattern { check_fn, max_length, .. } => PATTERN_CANDIDATES
            .iter()
            .filter(|c| c.len() <= max_length.unwrap_or(usize::MAX) && check_fn(c.as_bytes()))
            .take(n)
            .map(|c| CharacterData::String(c.to_string()))
            .collect(),
        CharacterDataSpec::String { max_length, .. } => {
            let mut v = vec![CharacterData::String("x".to_string()), CharacterData::String("hello world 1.0".to_string())];
            if let Some(m) = max_length {
                v.push(CharacterData::String("y".repeat(*m)));
            } else {
                v.push(CharacterData::String("z".repeat(300)));
            }
            v.truncate(n);
            v
        }
        CharacterDataSpec::UnsignedInteger => vec![CharacterData::UnsignedInteger(1), CharacterData::UnsignedInteger(u64::MAX)],
    }
}
fn to_val(c: &CharacterData) -> Val {
    match c {
        CharacterData::Enum(e) => Val::E(*e as u16),
        CharacterData::String(s) => Val::S(s.as_bytes().to_vec()),
        CharacterData::UnsignedInteger(n) => Val::U(*n),
        CharacterData::Float(f) => Val::F(f.to_bits()),
    }
}

pub struct Doc<'a> {
    pub ex: Exec<'a>,
    pub ops: Vec<Op>,
    counter: usize,
    pub entries: Vec<String>,
    pub skipped: Vec<String>,
}

fn hnum(r: &str) -> Option<usize> {
    r.strip_prefix("R OK h").and_then(|x| x.parse::<usize>().ok())
}

impl<'a> Doc<'a> {
    pub fn new(names: &'a Names) -> Doc<'a> {
        Doc { ex: Exec::new(names), ops: vec![], counter: 0, entries: vec![], skipped: vec![] }
    }
    pub fn push(&mut self, op: Op) -> String {
        let r = self.ex.apply(&op);
        self.ops.push(op);
        r
    }
    fn fill_required(&mut self, h: usize, v: u32) {
        let t = self.ex.handles[h].element_type();
        let specs: Vec<(AttributeName, &CharacterDataSpec, bool)> = t.attribute_spec_iter().collect();
        for (an, spec, req) in specs {
            if req && self.ex.handles[h].attribute_value(an).is_none() {
                if let Some(c) = value_for(spec, v) {
                    self.push(Op::SetAttr(h, an as u16, to_val(&c)));
                }
            }
        }
    }
    /// child `name` of handle `h`: an existing one (when `reuse`) or a new one
    fn child(&mut self, h: usize, name: ElementName, named: bool, reuse: bool, v: u32) -> Option<usize> {
        if reuse {
            if let Some(c) = self.ex.handles[h].sub_elements().find(|s| s.element_name() == name) {
                return self.ex.hidx.get(&c).copied();
            }
        }
        let r = if named {
            self.counter += 1;
            let nm = format!("n{}", self.counter);
            self.push(Op::CreateNamed(h, name as u16, nm.into_bytes()))
        } else {
            self.push(Op::CreateSub(h, name as u16))
        };
        let c = hnum(&r)?;
        self.fill_required(c, v);
        Some(c)
    }
    /// walk / create the path below `base` (a handle whose type is the type the path starts from)
    fn ensure(&mut self, base: usize, path: &[(ElementName, bool, ElementType)], v: u32, pkg: Option<usize>) -> Option<usize> {
        let mut cur = base;
        for (k, (n, named, et)) in path.iter().enumerate() {
            if k == 1 && *n == ElementName::ArPackage && pkg.is_some() {
                cur = pkg.unwrap();
            } else {
                cur = self.child(cur, *n, *named, true, v)?;
            }
            if self.ex.handles[cur].element_type() != *et {
                return None;
            }
        }
        Some(cur)
    }
    /// builds one table entry below the root handle of model `root`; v = version of the file(s) the place belongs to
    pub fn add_entry(&mut self, sp: &Spec, e: &Kind, root: usize, v: u32, pkg: Option<usize>, rng: &mut SplitMix64, populate: bool) -> bool {
        let Some(path) = sp.path(e.carrier(), v) else {
            self.skipped.push(format!("unreachable {}", e.desc()));
            return false;
        };
        let Some(h) = self.ensure(root, &path, v, pkg) else {
            self.skipped.push(format!("path {}", e.desc()));
            return false;
        };
        let ok = match e {
            Kind::Sub(t, _, n, et, _) => {
                // the entry must be the one find_sub_element selects in v
                match t.find_sub_element(*n, v) {
                    Some((et2, _)) if et2 == *et => {
                        let named = et.is_named_in_version(AutosarVersion::from_val(v).unwrap());
                        match self.child(h, *n, named, false, v) {
                            Some(c) => {
                                if populate {
                                    self.populate(c, v, rng, 2);
                                }
                                true
                            }
                            None => false,
                        }
                    }
                    _ => false,
                }
            }
            Kind::Attr(t, an, _) => match t.find_attribute_spec(*an).and_then(|a| value_for(a.spec, v)) {
                Some(c) => self.push(Op::SetAttr(h, *an as u16, to_val(&c))).starts_with("R OK"),
                None => false,
            },
            Kind::AttrVal(_, an, it, ..) => self.push(Op::SetAttr(h, *an as u16, Val::E(*it as u16))).starts_with("R OK"),
            Kind::TextVal(_, it, _) => self.push(Op::SetCData(h, Val::E(*it as u16))).starts_with("R OK"),
            Kind::Text(_, c) => self.push(Op::SetCData(h, to_val(c))).starts_with("R OK"),
            Kind::AttrText(_, an, c, _) => self.push(Op::SetAttr(h, *an as u16, to_val(c))).starts_with("R OK"),
        };
        if ok {
            self.entries.push(e.desc());
        } else {
            self.skipped.push(format!("create {}", e.desc()));
        }
        ok
    }
    /// a few random valid children / values below h (so that the walk recurses and the mask is an AND of several entries)
    pub fn populate(&mut self, h: usize, v: u32, rng: &mut SplitMix64, depth: usize) {
        let e = self.ex.handles[h].clone();
        let t = e.element_type();
        if let Some(spec) = t.chardata_spec() {
            if !t.is_ref() && e.character_data().is_none() {
                if let Some(c) = value_for(spec, v) {
                    self.push(Op::SetCData(h, to_val(&c)));
                }
            }
        }
        if depth == 0 {
            return;
        }
        let subs = subs_in(t, v);
        if subs.is_empty() {
            return;
        }
        let n = 1 + rng.below(3) as usize;
        for _ in 0..n {
            let (name, et, _, nm) = subs[rng.below(subs.len() as u64) as usize];
            if name == ElementName::ShortName {
                continue;
            }
            let _ = et;
            if let Some(c) = self.child(h, name, nm & v != 0, true, v) {
                self.populate(c, v, rng, depth - 1);
            }
        }
    }
    pub fn script(&self, k: usize, extra: &[Op]) -> String {
        let mut s = format!("SCRIPT {}\nPATHS\n", k);
        for e in &self.entries {
            s.push_str(&format!("# entry {}\n", e));
        }
        for o in self.ops.iter().chain(extra.iter()) {
            s.push_str(&o.line());
            s.push('\n');
        }
        s
    }
}

// ---------------------------------------------------------------------------------------------------- the oracle
pub struct Verdict {
    pub line: String,
    pub agree: bool,
    pub judged: bool,
    pub clean: bool,
}

fn relabel(text: &str, from: AutosarVersion, to: AutosarVersion) -> Option<String> {
    let head_end = text.len().min(400);
    let pos = text[..head_end].find(from.filename())?;
    let mut s = String::with_capacity(text.len() + 8);
    s.push_str(&text[..pos]);
    s.push_str(to.filename());
    s.push_str(&text[pos + from.filename().len()..]);
    Some(s)
}

fn strict_load(text: &str) -> Result<AutosarVersion, String> {
    let m = AutosarModel::new();
    match guard(|| m.load_buffer(text.as_bytes(), "x.arxml", true)) {
        Ok(Ok((f, _))) => Ok(f.version()),
        Ok(Err(e)) => Err(crate::tree::show_load_error(&e)),
        Err(_) => Err("PANIC".to_string()),
    }
}

fn value_fits(cd: &CharacterData, spec: &CharacterDataSpec) -> bool {
    match (spec, cd) {
        (CharacterDataSpec::Pattern { check_fn, max_length, .. }, CharacterData::String(s)) => s.len() <= max_length.unwrap_or(usize::MAX) && check_fn(s.as_bytes()),
        (CharacterDataSpec::String { max_length, .. }, CharacterData::String(s)) => s.len() <= max_length.unwrap_or(usize::MAX),
        (CharacterDataSpec::UnsignedInteger, CharacterData::String(_)) | (CharacterDataSpec::Float, CharacterData::String(_)) => false,
        _ => true,
    }
}

/// independent look at the file for the two KNOWN classes (what strict loading checks and the compatibility check does not):
/// an element that is identifiable in the target version without SHORT-NAME; a value that does not fit the specification of
/// the target version's element type.  Types are assigned top-down as strict loading does.
fn explain_walk(e: &Element, vt: ElementType, file: &WeakArxmlFile, target: AutosarVersion, why: &mut std::collections::BTreeSet<&'static str>, depth: usize) {
    if vt.is_named_in_version(target) && e.get_sub_element(ElementName::ShortName).is_none() {
        why.insert("short-name-missing");
    }
    if let Some(spec) = vt.chardata_spec() {
        for c in e.content() {
            if let ElementContent::CharacterData(cd) = c {
                if !value_fits(&cd, spec) {
                    why.insert("value-revalidation");
                }
            }
        }
    }
    for a in e.attributes() {
        if let Some(s) = vt.find_attribute_spec(a.attrname) {
            if !value_fits(&a.content, s.spec) {
                why.insert("value-revalidation");
            }
        }
    }
    if depth > 300 {
        return;
    }
    for sub in e.sub_elements() {
        let infile = match sub.file_membership() {
            Ok((_, set)) => set.contains(file),
            Err(_) => false,
        };
        if !infile {
            continue;
        }
        if let Some((t, _)) = vt.find_sub_element(sub.element_name(), target as u32) {
            explain_walk(&sub, t, file, target, why, depth + 1);
        }
    }
}
fn explain(file: &ArxmlFile, target: AutosarVersion) -> String {
    let mut why = std::collections::BTreeSet::new();
    if let Ok(model) = file.model() {
        let root = model.root_element();
        explain_walk(&root, root.element_type(), &file.downgrade(), target, &mut why, 0);
    }
    why.into_iter().collect::<Vec<_>>().join(",")
}

/// the oracle for one file and one target on the current state; `restore` rebuilds the state when set_version cannot be undone
pub fn oracle_one(file: &ArxmlFile, target: AutosarVersion) -> Verdict {
    let src = file.version();
    let text = match file.serialize() {
        Ok(t) => t,
        Err(_) => return Verdict { line: "SKIP empty-file".into(), agree: true, judged: false, clean: false },
    };
    let base = strict_load(&text);
    let rel = match relabel(&text, src, target) {
        Some(r) => r,
        None => return Verdict { line: "DISAGREE relabel: xsd name not in the header".into(), agree: false, judged: true, clean: false },
    };
    let strict = strict_load(&rel);
    let why = explain(file, target);
    let chk = guard(|| file.check_version_compatibility(target));
    let (errs, mask) = match chk {
        Ok(x) => x,
        Err(_) => {
            return Verdict { line: format!("src={} target={} strict={} check=PANIC", src as u32, target as u32, strict.is_ok()), agree: false, judged: true, clean: false }
        }
    };
    let clean = errs.is_empty();
    let inmask = mask & target as u32 != 0;
    // set_version on the live file (undone afterwards by the caller when it succeeded)
    let sv = guard(|| file.set_version(target));
    let (setok, mut post) = match sv {
        Ok(Ok(())) => (true, String::new()),
        Ok(Err(_)) => (false, String::new()),
        Err(_) => (false, "setver=PANIC".to_string()),
    };
    let mut post_ok = post.is_empty();
    if setok {
        if file.version() != target {
            post.push_str(" version-not-set");
            post_ok = false;
        }
        match file.serialize() {
            Ok(t2) => {
                if t2 != rel {
                    post.push_str(" text-changed");
                    post_ok = false;
                }
                match strict_load(&t2) {
                    Ok(v) if v == target => {}
                    Ok(_) => {
                        post.push_str(" reload-other-version");
                        post_ok = false;
                    }
                    Err(e) => {
                        post.push_str(&format!(" reload={}", e));
                        post_ok = false;
                    }
                }
            }
            Err(_) => {
                post.push_str(" serialize-failed");
                post_ok = false;
            }
        }
    } else if file.version() != src {
        post.push_str(" version-changed-on-error");
        post_ok = false;
    }
    let judged = base.is_ok();
    let s_ok = strict.is_ok();
    // the four verdicts must coincide; the consequences of a successful set_version are judged against the check
    // (text-changed / reload are implied by the first equivalence, so they are reported only when strict==clean)
    let agree_core = clean == inmask && clean == setok;
    let agree = if judged { agree_core && s_ok == clean && (post_ok || s_ok != clean) } else { agree_core };
    let line = format!(
        "src={} target={} base={} strict={} clean={} nerr={} mask={} inmask={} setver={} why={}{}",
        src as u32,
        target as u32,
        match &base { Ok(_) => "ok".to_string(), Err(e) => e.clone() },
        match &strict { Ok(_) => "ok".to_string(), Err(e) => e.clone() },
        clean as u8,
        errs.len(),
        mask,
        inmask as u8,
        setok as u8,
        if why.is_empty() { "-" } else { &why },
        if post.is_empty() { String::new() } else { format!(" post:{}", post.trim()) }
    );
    Verdict { line, agree, judged, clean }
}

/// run the oracle on every file of a built document for every target; the document is rebuilt from its operations whenever
/// a set_version could not be taken back
fn oracle_doc(names: &Names, ops: &[Op], sp_vers: &[AutosarVersion], out: &mut dyn FnMut(usize, &Verdict)) {
    let rebuild = |ops: &[Op]| -> Exec {
        let mut ex = Exec::new(names);
        for o in ops {
            ex.apply(o);
        }
        ex
    };
    let mut ex = rebuild(ops);
    let nfiles = ex.files.len();
    for fi in 0..nfiles {
        for tv in sp_vers {
            let src = ex.files[fi].version();
            let v = oracle_one(&ex.files[fi], *tv);
            out(fi, &v);
            if ex.files[fi].version() != src {
                // take the version change back; if the library refuses, start from a fresh copy
                if ex.files[fi].set_version(src).is_err() {
                    ex = rebuild(ops);
                }
            }
        }
    }
}

// ---------------------------------------------------------------------------------------------------- documents
struct Plan {
    multi: bool,
    entries: Vec<(usize, u32)>, // (entry index, source version)
}

/// build the document of a plan. single: one file of version v (all entries share it). multi: file 0 of version v0 with
/// package pA (only file 0), file 1 of version v1 with package pB (only file 1), entries alternate
fn build<'a>(names: &'a Names, sp: &Spec, plan: &Plan, rng: &mut SplitMix64, populate: bool) -> Doc<'a> {
    let mut d = Doc::new(names);
    d.push(Op::NewModel);
    if !plan.multi {
        let v = plan.entries[0].1;
        d.push(Op::CreateFile(0, b"f0.arxml".to_vec(), v));
        for (ei, _) in &plan.entries {
            d.add_entry(sp, &sp.entries[*ei], 0, v, None, rng, populate);
        }
    } else {
        let v0 = plan.entries[0].1;
        let v1 = plan.entries.get(1).map(|e| e.1).unwrap_or(v0);
        d.push(Op::CreateFile(0, b"f0.arxml".to_vec(), v0));
        d.push(Op::CreateFile(0, b"f1.arxml".to_vec(), v1));
        let pk = hnum(&d.push(Op::CreateSub(0, ElementName::ArPackages as u16)));
        if let Some(pk) = pk {
            let pa = hnum(&d.push(Op::CreateNamed(pk, ElementName::ArPackage as u16, b"pA".to_vec())));
            let pb = hnum(&d.push(Op::CreateNamed(pk, ElementName::ArPackage as u16, b"pB".to_vec())));
            if let (Some(pa), Some(pb)) = (pa, pb) {
                d.push(Op::RemoveFromFile(pa, 1));
                d.push(Op::RemoveFromFile(pb, 0));
                for (k, (ei, _)) in plan.entries.iter().enumerate() {
                    let (pkg, v) = if k % 2 == 0 { (pa, v0) } else { (pb, v1) };
                    d.add_entry(sp, &sp.entries[*ei], 0, v, Some(pkg), rng, populate);
                }
            }
        }
    }
    d
}

fn pick_source(sp: &Spec, e: &Kind, rng: &mut SplitMix64) -> Option<u32> {
    let s = sp.sources(e);
    if s.is_empty() {
        None
    } else {
        // boundaries of the mask are the interesting sources
        Some(match rng.below(4) {
            0 => s[0],
            1 => s[s.len() - 1],
            _ => s[rng.below(s.len() as u64) as usize],
        })
    }
}

/// entries that can live in a file of version v
fn entries_valid_in(sp: &Spec, v: u32) -> Vec<usize> {
    (0..sp.entries.len()).filter(|k| sp.sources(&sp.entries[*k]).contains(&v)).collect()
}

pub fn stats_main(_args: &[String]) {
    let sp = Spec::build();
    // switching: a parent lists the same name with two different types
    let mut sw: HashSet<ElementType> = HashSet::new();
    let mut npairs = 0;
    for t in &sp.types {
        let l: Vec<_> = t.sub_element_spec_iter().collect();
        for (i, a) in l.iter().enumerate() {
            for b in l.iter().skip(i + 1) {
                if a.0 == b.0 && a.1 != b.1 {
                    sw.insert(a.1);
                    sw.insert(b.1);
                    npairs += 1;
                    if npairs <= 40 {
                        println!("SWITCH parent={:?} name={} A={:?} maskA={} B={:?} maskB={}", t, a.0.to_str(), a.1, a.2, b.1, b.2);
                    }
                }
            }
        }
    }
    println!("STAT switching_pairs={} switching_types={}", npairs, sw.len());
    let spd = Spec::build();
    println!("STAT nested_group_types={} entries={}", spd.deep.len(), spd.entries.iter().filter(|e| spd.deep.contains(&e.carrier())).count());
    let mut c: BTreeMap<&str, (usize, usize)> = BTreeMap::new();
    for e in &sp.entries {
        let x = c.entry(e.tag()).or_insert((0, 0));
        x.0 += 1;
        if !sp.sources(e).is_empty() {
            x.1 += 1;
        }
    }
    println!("STAT types={} entries={}", sp.types.len(), sp.entries.len());
    for (k, (a, b)) in c {
        println!("STAT kind={} partial_entries={} constructible={}", k, a, b);
    }
    let pairs: usize = sp.entries.iter().map(|e| sp.sources(e).len()).sum();
    println!("STAT entry_source_pairs={}", pairs);
}

/// scripts for the correspondence (model vs implementation): documents + check_compat for all 21 versions + set_version
pub fn gen_main(args: &[String]) {
    let dump = &args[0];
    let seed: u64 = args[1].parse().unwrap();
    let tier = &args[2];
    let out = &args[3];
    let names = Names::load(dump);
    let sp = Spec::build();
    let mut rng = SplitMix64(seed.wrapping_mul(0x9E3779B97F4A7C15) ^ 0xC17);
    if args.len() > 4 && args[4] == "all" {
        // one single-entry document per table entry (script number = entry number), sharded
        let shard: usize = args.get(5).map(|x| x.parse().unwrap()).unwrap_or(0);
        let nshards: usize = args.get(6).map(|x| x.parse().unwrap()).unwrap_or(1);
        let mut text = String::new();
        let mut built = 0usize;
        for ei in 0..sp.entries.len() {
            if ei % nshards != shard {
                continue;
            }
            let mut r = SplitMix64(seed ^ (ei as u64).wrapping_mul(0x9E3779B97F4A7C15));
            let Some(v) = pick_source(&sp, &sp.entries[ei], &mut r) else { continue };
            let d = build(&names, &sp, &Plan { multi: false, entries: vec![(ei, v)] }, &mut r, ei % 4 == 0);
            if d.entries.is_empty() {
                continue;
            }
            built += 1;
            let mut extra_ops: Vec<Op> = sp.vers.iter().map(|t| Op::CheckCompat(0, *t as u32)).collect();
            let t = sp.vers[r.below(sp.vers.len() as u64) as usize] as u32;
            extra_ops.push(Op::SetVersion(0, t));
            extra_ops.push(Op::CheckCompat(0, v));
            text.push_str(&d.script(ei, &extra_ops));
        }
        std::fs::write(out, text).unwrap();
        println!("STAT docs={} entries_built={} ops=0", built, built);
        return;
    }
    let ndocs: usize = if args.len() > 4 { args[4].parse().unwrap() } else if tier == "thorough" { 1500 } else { 150 };
    let mut text = String::new();
    let mut nent = 0usize;
    let mut kinds: BTreeMap<&str, usize> = BTreeMap::new();
    let mut by_version: HashMap<u32, Vec<usize>> = HashMap::new();
    let mut nops = 0usize;
    for k in 0..ndocs {
        // first entry decides the version; the others are drawn from the entries valid in the same version
        let e0 = rng.below(sp.entries.len() as u64) as usize;
        let Some(v0) = pick_source(&sp, &sp.entries[e0], &mut rng) else { continue };
        let multi = k % 3 == 2;
        let mut plan = Plan { multi, entries: vec![(e0, v0)] };
        let extra = rng.below(4) as usize;
        if multi {
            let e1 = rng.below(sp.entries.len() as u64) as usize;
            if let Some(v1) = pick_source(&sp, &sp.entries[e1], &mut rng) {
                plan.entries.push((e1, v1));
            }
        }
        for j in 0..extra {
            let v = if multi && plan.entries.len() > 1 { plan.entries[(plan.entries.len()) % 2].1 } else { v0 };
            let _ = j;
            let pool = by_version.entry(v).or_insert_with(|| entries_valid_in(&sp, v));
            if !pool.is_empty() {
                let e = pool[rng.below(pool.len() as u64) as usize];
                plan.entries.push((e, v));
            }
        }
        let d = build(&names, &sp, &plan, &mut rng, k % 2 == 0);
        let nfiles = d.ex.files.len();
        let mut extra_ops = vec![];
        for f in 0..nfiles {
            for v in &sp.vers {
                extra_ops.push(Op::CheckCompat(f, *v as u32));
            }
        }
        // a few set_version operations: random targets (some succeed, some are refused), each followed by a check
        for _ in 0..3 {
            let f = rng.below(nfiles.max(1) as u64) as usize;
            let v = sp.vers[rng.below(sp.vers.len() as u64) as usize] as u32;
            extra_ops.push(Op::SetVersion(f, v));
            let v2 = sp.vers[rng.below(sp.vers.len() as u64) as usize] as u32;
            extra_ops.push(Op::CheckCompat(f, v2));
        }
        nent += d.entries.len();
        for e in &d.entries {
            *kinds.entry(if e.starts_with("S:") { "S" } else if e.starts_with("AV:") { "AV" } else if e.starts_with("AT:") { "AT" } else if e.starts_with("A:") { "A" } else if e.starts_with("TV:") { "TV" } else { "T" }).or_insert(0) += 1;
        }
        nops += d.ops.len() + extra_ops.len();
        text.push_str(&d.script(k, &extra_ops));
    }
    std::fs::write(out, text).unwrap();
    println!("STAT docs={} entries_built={} ops={}", ndocs, nent, nops);
    for (k, v) in kinds {
        println!("STAT built kind={} n={}", k, v);
    }
}

/// generated documents x 21 targets through the oracle
pub fn sweep_main(args: &[String]) {
    let dump = &args[0];
    let seed: u64 = args[1].parse().unwrap();
    let tier = &args[2];
    let shard: usize = args.get(3).map(|x| x.parse().unwrap()).unwrap_or(0);
    let nshards: usize = args.get(4).map(|x| x.parse().unwrap()).unwrap_or(1);
    let names = Names::load(dump);
    let sp = Spec::build();
    let mut rng = SplitMix64(seed.wrapping_mul(0x9E3779B97F4A7C15) ^ 0xC170 ^ (shard as u64) << 32);
    // the work list: (entry, source version)
    let mut work: Vec<(usize, u32)> = vec![];
    if tier == "thorough" {
        for (k, e) in sp.entries.iter().enumerate() {
            for v in sp.sources(e) {
                work.push((k, v));
            }
        }
    } else {
        // quick: a deterministic sample, at least one source per sampled entry, all four kinds
        let n = sp.entries.len();
        let want = 600usize;
        let mut picked: HashSet<usize> = HashSet::new();
        let mut r2 = SplitMix64(seed ^ 0x51C4);
        while picked.len() < want.min(n) {
            picked.insert(r2.below(n as u64) as usize);
        }
        // every entry of a version-switching element type is always taken: these are the only places where the type the
        // check recalculates differs from the stored one (attribute sets, sub-elements and value specs of the two types differ)
        for (k, e) in sp.entries.iter().enumerate() {
            // ... and every sub element of a type with groups nested in groups (index paths of length >= 3)
            if sp.sw.contains(&e.carrier()) || sp.deep.contains(&e.carrier()) {
                picked.insert(k);
            }
        }
        let mut p: Vec<usize> = picked.into_iter().collect();
        p.sort();
        for k in p {
            if let Some(v) = pick_source(&sp, &sp.entries[k], &mut r2) {
                work.push((k, v));
            }
        }
    }
    let mut ndocs = 0usize;
    let mut nchecks = 0usize;
    let mut njudged = 0usize;
    let mut nclean = 0usize;
    let mut nunclean = 0usize;
    let mut ndis = 0usize;
    let mut skipped = 0usize;
    let mut base_bad: BTreeMap<String, usize> = BTreeMap::new();
    let mut kinds: BTreeMap<&str, usize> = BTreeMap::new();
    let mut samples = 0;
    for (wi, (ei, v)) in work.iter().enumerate() {
        if wi % nshards != shard {
            continue;
        }
        let e = &sp.entries[*ei];
        let plan = Plan { multi: wi % 5 == 4, entries: vec![(*ei, *v), (*ei, *v)] };
        let plan = if plan.multi { plan } else { Plan { multi: false, entries: vec![(*ei, *v)] } };
        let d = build(&names, &sp, &plan, &mut rng, wi % 2 == 0);
        if d.entries.is_empty() {
            skipped += 1;
            if skipped <= 20 {
                println!("SKIPPED {}", d.skipped.join(" | "));
            }
            continue;
        }
        ndocs += 1;
        *kinds.entry(e.tag()).or_insert(0) += 1;
        let ops = d.ops.clone();
        let desc = e.desc();
        let mut dis_here = vec![];
        oracle_doc(&names, &ops, &sp.vers, &mut |fi, vd| {
            if vd.line.starts_with("SKIP") {
                return;
            }
            nchecks += 1;
            if vd.judged {
                njudged += 1;
            } else {
                let b = vd.line.split_whitespace().find(|x| x.starts_with("base=")).unwrap_or("base=?").to_string();
                let b: String = b.chars().take_while(|c| *c != '@').collect();
                *base_bad.entry(b).or_insert(0) += 1;
            }
            if vd.clean {
                nclean += 1;
            } else {
                nunclean += 1;
            }
            if !vd.agree {
                dis_here.push(format!("DISAGREE kind={} entry={} file={} {}", e.tag(), desc, fi, vd.line));
            } else if samples < 12 && vd.judged && (nchecks % 37 == 0) {
                samples += 1;
                println!("SAMPLE entry={} file={} {}", desc, fi, vd.line);
            }
        });
        if !dis_here.is_empty() {
            ndis += dis_here.len();
            for l in &dis_here {
                println!("{}", l);
            }
            println!("DOC {}", ops.iter().map(|o| o.line()).collect::<Vec<_>>().join(" ; "));
        }
    }
    println!(
        "STAT work={} docs={} skipped={} checks={} judged={} clean={} unclean={} disagree={}",
        work.len(), ndocs, skipped, nchecks, njudged, nclean, nunclean, ndis
    );
    for (k, v) in kinds {
        println!("STAT docs kind={} n={}", k, v);
    }
    for (k, v) in base_bad {
        println!("STAT baseline-invalid {} n={}", k, v);
    }
}

/// the oracle on the final state of every script of a script file (replays; the correspondence scripts)
pub fn oracle_main(args: &[String]) {
    let dump = &args[0];
    let names = Names::load(dump);
    let vers = versions();
    let verbose = args.len() > 2 && args[2] == "-v";
    let mut ndis = 0;
    let mut nchecks = 0;
    for (idx, _probes, ops) in crate::tree::read_scripts(&args[1]) {
        // the document = the operations before the first check_compat / set_version
        let cut = ops.iter().position(|o| matches!(o, Op::CheckCompat(..) | Op::SetVersion(..))).unwrap_or(ops.len());
        let doc = &ops[..cut];
        oracle_doc(&names, doc, &vers, &mut |fi, vd| {
            if vd.line.starts_with("SKIP") {
                return;
            }
            nchecks += 1;
            if !vd.agree {
                ndis += 1;
                println!("DISAGREE script={} file={} {}", idx, fi, vd.line);
            } else if verbose {
                println!("AGREE script={} file={} {}", idx, fi, vd.line);
            }
        });
    }
    println!("STAT checks={} disagree={}", nchecks, ndis);
}

/// the single-entry document of one table entry (by its description) as a script on stdout
pub fn doc_main(args: &[String]) {
    let names = Names::load(&args[0]);
    let sp = Spec::build();
    let v: u32 = args[2].parse().unwrap();
    let populate = args.get(3).map(|x| x == "populate").unwrap_or(false);
    let Some(ei) = sp.entries.iter().position(|e| e.desc() == args[1] || e.desc().starts_with(&args[1])) else {
        eprintln!("no such entry");
        std::process::exit(2)
    };
    let mut rng = SplitMix64(1);
    let d = build(&names, &sp, &Plan { multi: false, entries: vec![(ei, v)] }, &mut rng, populate);
    print!("{}", d.script(0, &[]));
    for sk in &d.skipped {
        println!("# skipped {}", sk);
    }
}


/// C17/C07 probe (public API only): an element moved / copied below a parent that lists its NAME with ANOTHER element type keeps
/// its stored type.  For pairs (P1 lists X as C1, P2 lists X as C2, C1 has a sub-element S that C2 does not list in any version):
/// create X below P1, S below X, then move (or copy) X below P2; report whether the operation succeeded, whether the file still
/// loads strictly in its OWN version and what check_version_compatibility(own version) says.
pub fn xattach_main(args: &[String]) {
    let names = Names::load(&args[0]);
    let limit: usize = args.get(1).map(|x| x.parse().unwrap()).unwrap_or(40);
    let sp = Spec::build();
    let ver = AutosarVersion::LATEST;
    let v = ver as u32;
    let vi = sp.vidx(v);
    // name -> [(parent type, child type)] among the types reachable in v
    let mut by_name: BTreeMap<u16, Vec<(ElementType, ElementType)>> = BTreeMap::new();
    let mut reachable: Vec<ElementType> = sp.reach[vi].keys().copied().collect();
    reachable.push(ElementType::ROOT);
    reachable.sort_by_key(|t| format!("{:?}", t));
    for t in &reachable {
        for (n, et, _, _) in subs_in(*t, v) {
            by_name.entry(n as u16).or_default().push((*t, et));
        }
    }
    let mut done = 0usize;
    let mut stats: BTreeMap<String, usize> = BTreeMap::new();
    'outer: for (_n, l) in &by_name {
        for (p1, c1) in l {
            for (p2, c2) in l {
                if c1 == c2 || p1 == p2 {
                    continue;
                }
                // a sub-element of c1 that c2 does not know at all, not named (keeps the probe simple)
                let Some((sname, _, _, _)) = subs_in(*c1, v).into_iter().find(|(sn, st, _, nm)| {
                    *sn != ElementName::ShortName && c2.find_sub_element(*sn, u32::MAX).is_none() && nm & v == 0 && !st.is_named_in_version(ver)
                }) else { continue };
                for kind in ["move", "copy"] {
                    let mut d = Doc::new(&names);
                    d.push(Op::NewModel);
                    d.push(Op::CreateFile(0, b"f0.arxml".to_vec(), v));
                    let Some(path1) = sp.path(*p1, v) else { continue };
                    let Some(path2) = sp.path(*p2, v) else { continue };
                    let Some(h1) = d.ensure(0, &path1, v, None) else { continue };
                    let xname = l.iter().find(|(a, b)| a == p1 && b == c1).map(|_| ()).and(Some(())).map(|_| ());
                    let _ = xname;
                    let nm = ElementName::from_str(&names.el[*_n as usize]).unwrap();
                    let named = c1.is_named_in_version(ver);
                    let Some(x) = d.child(h1, nm, named, false, v) else { continue };
                    if d.child(x, sname, false, false, v).is_none() {
                        continue;
                    }
                    // the second parent: a fresh path where possible (reuse=false for the last step would duplicate containers; reuse is fine)
                    let Some(h2) = d.ensure(0, &path2, v, None) else { continue };
                    if h2 == h1 || d.ex.handles[h2].element_type() != *p2 {
                        continue;
                    }
                    let r = if kind == "move" { d.push(Op::Move(h2, x)) } else { d.push(Op::Copy(h2, x)) };
                    let opres = if r.starts_with("R OK") { "ok" } else { "err" };
                    let file = d.ex.files[0].clone();
                    let text = file.serialize().unwrap_or_default();
                    let strict = strict_load(&text);
                    let (errs, mask) = file.check_version_compatibility(ver);
                    let key = format!("kind={} op={} strict={} clean={}", kind, opres,
                        match &strict { Ok(_) => "ok".to_string(), Err(e) => e.chars().take_while(|c| *c != '@').collect() }, errs.is_empty() as u8);
                    *stats.entry(key.clone()).or_insert(0) += 1;
                    if done < limit {
                        println!("XATTACH {} name={} p1={:?} c1={:?} p2={:?} c2={:?} child={} mask={} result={}", key, nm.to_str(), p1, c1, p2, c2, sname.to_str(), mask, r);
                        if opres == "ok" && strict.is_err() && errs.is_empty() && done < 3 {
                            println!("DOC {}", d.ops.iter().map(|o| o.line()).collect::<Vec<_>>().join(" ; "));
                        }
                    }
                    done += 1;
                    if done >= 4000 {
                        break 'outer;
                    }
                }
            }
        }
    }
    for (k, n) in stats {
        println!("STAT xattach {} n={}", k, n);
    }
}

pub fn main(args: &[String]) {
    match args[0].as_str() {
        "xattach" => xattach_main(&args[1..]),
        "stats" => stats_main(&args[1..]),
        "doc" => doc_main(&args[1..]),
        "gen" => gen_main(&args[1..]),
        "sweep" => sweep_main(&args[1..]),
        "oracle" => oracle_main(&args[1..]),
        _ => {
            eprintln!("usage: avh compat stats|gen|sweep|oracle ...");
            std::process::exit(2)
        }
    }
}
