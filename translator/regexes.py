"""regex.rs + the Pattern entries of specification.rs -> coq/Gen/RegexData.v, Gen/RegexCertNN.v, Gen/RegexAll.v.

Table-driven validators: table, accepting set (the function body must be the canonical loop).
Hand-written validators: the body must be textually the pinned Rust expression below; the pinned pair
(Rust text, vexpr term) is the hand-written model (tied additionally by correspondence).
The regex text is parsed here into a concrete syntax tree; the parser is NOT trusted: Coq checks
rx_text cst = text and rx_wf cst = true (precedence-correct shape), which determine the tree."""
import re, os
from common import *

HEX = "[(48,57); (97,102); (65,70)]"
DIG = "[(48,57)]"
ALPHA = "[(65,90); (97,122)]"
ALNUM = "[(48,57); (65,90); (97,122)]"
UPPER = "[(65,90)]"


def lit(s):
    return '(BS "%s")' % s


# n -> (normalised Rust body, vexpr)
HAND = {
    1: ('s.len() > 2 && (s.starts_with(b"0x") || s.starts_with(b"0X")) && s[2..].iter().all(u8::is_ascii_hexdigit)',
        "VAnd (VAnd (VLenGe 3) (VOr (VStarts %s) (VStarts %s))) (VSkip 2 (VAll %s))" % (lit("0x"), lit("0X"), HEX)),
    4: ('(!s.is_empty() && s.iter().all(u8::is_ascii_digit)) || s == b"ANY"',
        "VOr (VAnd VNonEmpty (VAll %s)) (VEq %s)" % (DIG, lit("ANY"))),
    5: ('(!s.is_empty() && s.iter().all(u8::is_ascii_digit)) || s == b"STRING" || s == b"ARRAY"',
        "VOr (VOr (VAnd VNonEmpty (VAll %s)) (VEq %s)) (VEq %s)" % (DIG, lit("STRING"), lit("ARRAY"))),
    6: ('s == b"0" || s == b"1" || s == b"true" || s == b"false"',
        "VOr (VOr (VOr (VEq %s) (VEq %s)) (VEq %s)) (VEq %s)" % (lit("0"), lit("1"), lit("true"), lit("false"))),
    7: ("!s.is_empty() && (s[0].is_ascii_alphabetic() || s[0] == b'_') && s.iter().all(|c| c.is_ascii_alphanumeric() || *c == b'_')",
        "VAnd (VAnd VNonEmpty (VOr (VAt 0 %s) (VAt 0 [(95,95)]))) (VAll (%s ++ [(95,95)]))" % (ALPHA, ALNUM)),
    8: ("!s.is_empty() && s[0].is_ascii_alphabetic() && s.iter().all(|c| c.is_ascii_alphanumeric() || *c == b'_')",
        "VAnd (VAnd VNonEmpty (VAt 0 %s)) (VAll (%s ++ [(95,95)]))" % (ALPHA, ALNUM)),
    10: ("!s.is_empty() && s[0].is_ascii_alphabetic() && s.iter().all(|c| c.is_ascii_alphanumeric() || *c == b'-')",
         "VAnd (VAnd VNonEmpty (VAt 0 %s)) (VAll (%s ++ [(45,45)]))" % (ALPHA, ALNUM)),
    11: ("!s.is_empty() && s.iter().all(|c| c.is_ascii_alphanumeric() || *c == b'_' || *c == b'-')",
         "VAnd VNonEmpty (VAll (%s ++ [(95,95); (45,45)]))" % ALNUM),
    15: ('s == b"ANY" || { let parts: Vec<&[u8]> = s.split(|c| *c == b\':\').collect(); parts.len() == 8 && parts .iter() '
         '.all(|part| !part.is_empty() && part.len() <= 4 && part.iter().all(u8::is_ascii_hexdigit)) }',
         "VOr (VEq %s) (VAnd (VSplitCount 58 8) (VSplitAll 58 (VAnd (VAnd VNonEmpty (VLenLe 4)) (VAll %s))))" % (lit("ANY"), HEX)),
    17: ("s.len() == 17 && s.split(|c| *c == b':') .all(|part| part.len() == 2 && part[0].is_ascii_hexdigit() && part[1].is_ascii_hexdigit())",
         "VAnd (VLenEq 17) (VSplitAll 58 (VAnd (VAnd (VLenEq 2) (VAt 0 %s)) (VAt 1 %s)))" % (HEX, HEX)),
    19: ("!s.is_empty() && s[0].is_ascii_uppercase() && s.iter().all(|c| c.is_ascii_alphanumeric() || *c == b'_')",
         "VAnd (VAnd VNonEmpty (VAt 0 %s)) (VAll (%s ++ [(95,95)]))" % (UPPER, ALNUM)),
    20: ("!s.is_empty() && s[0] != b'0' && s.iter().all(u8::is_ascii_digit)",
         "VAnd (VAnd VNonEmpty (VAt 0 (complement [(48,48)]))) (VAll %s)" % DIG),
    23: ("let mut txt = s; if !txt.is_empty() && txt[0] == b'-' { txt = &txt[1..]; } "
         '!txt.is_empty() && { txt.iter().all(u8::is_ascii_digit) || txt == b"MAX-TEXT-SIZE" || txt == b"ARRAY-SIZE" }',
         "VStripOpt [(45,45)] (VAnd VNonEmpty (VOr (VOr (VAll %s) (VEq %s)) (VEq %s)))" % (DIG, lit("MAX-TEXT-SIZE"), lit("ARRAY-SIZE"))),
    24: ("if s.is_empty() { return false; } let mut path = s; if path[0] == b'/' { path = &path[1..]; } "
         "path.split(|c| *c == b'/') .all(|part| part.len() <= 128 && validate_regex_8(part))",
         "VAnd VNonEmpty (VStripOpt [(47,47)] (VSplitAll 47 (VAnd (VLenLe 128) (VAnd (VAnd VNonEmpty (VAt 0 %s)) (VAll (%s ++ [(95,95)]))))))" % (ALPHA, ALNUM)),
    27: ("s.len() == 1 && (s[0] == b'0' || s[0] == b'1')",
         "VAnd (VLenEq 1) (VOr (VAt 0 [(48,48)]) (VAt 0 [(49,49)]))"),
}

DFA_BODY = ("let mut state = 0; for c in s { state = REGEX_@N@_TABLE[state as usize][*c as usize]; "
            "if state == 255 { return false; } } matches!(state, @ACC@)")


# ---------------------------------------------------------------- regex text -> CST (Coq term)
class RxParser:
    def __init__(self, text):
        self.t = text
        self.i = 0

    def peek(self):
        return self.t[self.i] if self.i < len(self.t) else None

    def alt(self):
        alts = [self.seq()]
        while self.peek() == "|":
            self.i += 1
            alts.append(self.seq())
        return alts[0] if len(alts) == 1 else "RAlt [%s]" % "; ".join(alts)

    def seq(self):
        items = []
        while self.peek() is not None and self.peek() not in "|)":
            a = self.atom()
            q = self.peek()
            if q == "?":
                self.i += 1
                a = "ROpt (%s)" % a
            elif q == "*":
                self.i += 1
                a = "RStar (%s)" % a
            elif q == "+":
                self.i += 1
                a = "RPlus (%s)" % a
            elif q == "{":
                m = re.match(r"\{(\d+)(,(\d+))?\}", self.t[self.i:])
                need(m, "bad counted repetition at %d in %r" % (self.i, self.t))
                self.i += m.end()
                if m.group(2):
                    a = "RRange (%s) %s %s" % (a, m.group(1), m.group(3))
                else:
                    a = "RCount (%s) %s" % (a, m.group(1))
            need(self.peek() is None or self.peek() not in "?*+{", "stacked quantifiers are not supported: %r" % self.t)
            items.append(a)
        return items[0] if len(items) == 1 else "RSeq [%s]" % "; ".join(items)

    def atom(self):
        c = self.peek()
        if c == "(":
            self.i += 1
            need(self.peek() != "?", "group flags are not supported: %r" % self.t)
            r = self.alt()
            need(self.peek() == ")", "unbalanced parenthesis in %r" % self.t)
            self.i += 1
            return "RGroup (%s)" % r
        if c == "[":
            self.i += 1
            need(self.peek() != "^", "negated classes are not supported: %r" % self.t)
            items = []
            while self.peek() != "]":
                need(self.peek() is not None, "unterminated class in %r" % self.t)
                if self.peek() == "\\":
                    e = self.t[self.i + 1]
                    self.i += 2
                    if e == "d":
                        items.append("CDigitEsc")
                        continue
                    need(not e.isalnum(), "unsupported class escape \\%s" % e)
                    lo, lo_esc = ord(e), True
                else:
                    lo, lo_esc = ord(self.peek()), False
                    self.i += 1
                if self.peek() == "-" and self.t[self.i + 1] != "]":
                    need(not lo_esc, "escaped range start is not supported")
                    hi = self.t[self.i + 1]
                    need(hi != "\\", "escaped range end is not supported")
                    self.i += 2
                    need(lo <= ord(hi), "reversed range")
                    items.append("CRange %d %d" % (lo, ord(hi)))
                else:
                    items.append(("CEsc %d" if lo_esc else "CChar %d") % lo)
            self.i += 1
            return "RClass [%s]" % "; ".join(items)
        if c == "\\":
            e = self.t[self.i + 1]
            self.i += 2
            if e == "d":
                return "RDigit"
            need(not e.isalnum(), "unsupported escape \\%s" % e)
            return "REsc %d" % ord(e)
        if c == ".":
            self.i += 1
            return "RDot"
        need(c not in "?*+{}^$", "unexpected metacharacter %r in %r" % (c, self.t))
        self.i += 1
        return "RChar %d" % ord(c)


def parse_rx(text):
    p = RxParser(text)
    r = p.alt()
    need(p.i == len(text), "trailing input in regex %r at %d" % (text, p.i))
    return r


# ---------------------------------------------------------------- regex.rs
def parse_regex_rs():
    src = read(os.path.join(SPEC_SRC, "regex.rs"))
    cut = src.find("#[cfg(test)]")
    code = src[:cut] if cut >= 0 else src
    out = {}
    fns = re.findall(r"/// validate (\^\([^\n]*\)\$)\npub\(crate\) fn validate_regex_(\d+)\(s: &\[u8\]\) -> bool \{\n(.*?)\n\}\n", code, re.S)
    need(len(fns) == len(re.findall(r"fn validate_regex_\d+", code)), "a validate_regex function does not have the expected header/doc line")
    for doc, n, body in fns:
        n = int(n)
        b = strip_ws(re.sub(r"//[^\n]*", "", body))
        ent = {"doc": doc}
        m = re.fullmatch(re.escape(DFA_BODY).replace("@N@", r"(\d+)").replace("@ACC@", r"([0-9 |.=]+)"), b)
        if m:
            need(int(m.group(1)) == n, "validate_regex_%d uses the table of another validator" % n)
            acc = []
            for part in m.group(2).split("|"):
                part = part.strip()
                mr = re.fullmatch(r"(\d+)\.\.=(\d+)", part)
                if mr:
                    acc += list(range(int(mr.group(1)), int(mr.group(2)) + 1))
                else:
                    need(re.fullmatch(r"\d+", part), "validate_regex_%d: unsupported accepting pattern %r" % (n, part))
                    acc.append(int(part))
            mt = re.search(r"static REGEX_%d_TABLE: \[\[u8; 256\]; (\d+)usize\] = \[\n(.*?)\n\];" % n, code, re.S)
            need(mt, "REGEX_%d_TABLE not found" % n)
            rows_txt = re.findall(r"\[(.*?)\]", mt.group(2), re.S)
            rows = [[int(x) for x in re.findall(r"\d+", r)] for r in rows_txt]
            rest = re.sub(r"\[(.*?)\]", "", mt.group(2), flags=re.S)
            need(re.fullmatch(r"[\s,]*", rest), "REGEX_%d_TABLE: unexpected tokens" % n)
            need(len(rows) == int(mt.group(1)), "REGEX_%d_TABLE: %d rows, declared %s" % (n, len(rows), mt.group(1)))
            for r in rows:
                need(len(r) == 256, "REGEX_%d_TABLE: a row has %d entries" % (n, len(r)))
                need(all(0 <= x < 256 for x in r), "u8 range")
            ent.update(kind="dfa", table=rows, acc=acc)
        else:
            need(n in HAND, "validate_regex_%d is neither the canonical table loop nor a known hand-written validator" % n)
            need(b == strip_ws(HAND[n][0]),
                 "validate_regex_%d: body differs from the modelled text\n  source : %s\n  modelled: %s" % (n, b, strip_ws(HAND[n][0])))
            ent.update(kind="hand", vexpr=HAND[n][1])
        out[n] = ent
    return out


def translate_regexes(spec=None):
    if spec is None:
        import spec as spec_mod
        spec = spec_mod.translate_spec()
    fns = parse_regex_rs()
    pats = {}
    for c in spec["cdata"]:
        if c[0] == "pattern":
            need(c[1] in fns, "specification uses validate_regex_%d which does not exist" % c[1])
            need(pats.get(c[1], c[2]) == c[2], "validate_regex_%d is published with two different regex texts" % c[1])
            pats[c[1]] = c[2]
    for n, text in pats.items():
        need(fns[n]["doc"] == "^(" + text + ")$", "validate_regex_%d: doc line %r differs from the published regex %r" % (n, fns[n]["doc"], text))
    ns = sorted(pats)
    need(ns == list(range(1, 29)), "the set of published pattern validators changed: %s" % ns)
    # ---- data file
    o = "(* generated by translator/regexes.py from regex.rs and specification.rs — do not edit *)\n"
    o += "From AV Require Import Base.Bytes Regex.Regex Regex.Syntax Regex.Vexpr.\nOpen Scope N_scope.\n"
    for n in ns:
        need('"' not in pats[n], "quote in regex text")
        o += "Definition text_%d : list N := BS \"^(%s)$\".\n" % (n, pats[n])
        o += "Definition rx_%d : rx := %s.\n" % (n, parse_rx(pats[n]))
        f = fns[n]
        if f["kind"] == "dfa":
            o += "Definition tbl_%d : list (list N) := [\n%s].\n" % (
                n, ";\n".join("  [" + ";".join(str(x) for x in row) + "]" for row in f["table"]))
            o += "Definition acc_%d : list N := [%s].\n" % (n, "; ".join(str(x) for x in f["acc"]))
        else:
            o += "Definition v_%d : vexpr := %s.\n" % (n, f["vexpr"])
    write_if_changed(os.path.join(GEN, "RegexData.v"), o)
    # ---- one certificate file per validator
    for n in ns:
        f = fns[n]
        c = "(* generated by translator/regexes.py — do not edit *)\n"
        c += "From AV Require Import Base.Bytes Regex.Regex Regex.Bisim Regex.Syntax Regex.SyntaxWf Regex.Vexpr.\n"
        c += "From AV.Gen Require Import RegexData.\nOpen Scope N_scope.\n"
        c += "Definition FUELN : nat := N.to_nat 400000.\n"
        c += "Lemma text_ok_%d : rx_text rx_%d = text_%d /\\ rx_wf rx_%d = true.\nProof. split; vm_compute; reflexivity. Qed.\n" % (n, n, n, n)
        if f["kind"] == "dfa":
            c += "Definition cert_%d := Eval vm_compute in explore_dfa FUELN tbl_%d (rx_sem rx_%d).\n" % (n, n, n)
            c += "Definition R_%d := match cert_%d with Some R => R | None => [] end.\n" % (n, n)
            c += "Lemma tbl_ok_%d : dfa_table_ok tbl_%d = true.\nProof. vm_cast_no_check (@eq_refl bool true). Qed.\n" % (n, n)
            c += "Lemma cert_ok_%d : bisim_dfa_ok tbl_%d acc_%d (rx_sem rx_%d) R_%d = true.\nProof. vm_cast_no_check (@eq_refl bool true). Qed.\n" % (n, n, n, n, n)
            c += ("Theorem validator_%d_correct : forall s, bytes_ok s = true ->\n"
                  "  (dfa_run tbl_%d acc_%d s = Some true <-> L (rx_sem rx_%d) s) /\\ dfa_run tbl_%d acc_%d s <> None.\n" % (n, n, n, n, n, n))
            c += "Proof.\n  intros s Hs. split.\n"
            c += "  - exact (bisim_dfa_sound tbl_%d acc_%d (rx_sem rx_%d) R_%d (wfb_true _) tbl_ok_%d cert_ok_%d s Hs).\n" % (n, n, n, n, n, n)
            c += "  - exact (dfa_run_no_panic tbl_%d acc_%d s tbl_ok_%d Hs).\nQed.\n" % (n, n, n)
        else:
            c += "Definition cert_%d := Eval vm_compute in explore_rr FUELN (rx_sem rx_%d) (vregex v_%d).\n" % (n, n, n)
            c += "Definition R_%d := match cert_%d with Some R => R | None => [] end.\n" % (n, n)
            c += "Lemma safe_%d : vsafe 0 v_%d = true.\nProof. vm_cast_no_check (@eq_refl bool true). Qed.\n" % (n, n)
            c += "Lemma cert_ok_%d : bisim_rr_ok (rx_sem rx_%d) (vregex v_%d) R_%d = true.\nProof. vm_cast_no_check (@eq_refl bool true). Qed.\n" % (n, n, n, n)
            c += ("Theorem validator_%d_correct : forall s, bytes_ok s = true ->\n"
                  "  exists b, veval v_%d s = Some b /\\ (b = true <-> L (rx_sem rx_%d) s).\n" % (n, n, n))
            c += "Proof.\n  intros s Hs.\n"
            c += "  destruct (vexpr_validator_correct v_%d safe_%d s Hs) as (b & Hv & Hb).\n" % (n, n)
            c += "  exists b. split; [exact Hv|].\n"
            c += "  pose proof (bisim_rr_sound (rx_sem rx_%d) (vregex v_%d) R_%d (wfb_true _) (vregex_wf _) cert_ok_%d s Hs) as Heq.\n" % (n, n, n, n)
            c += "  rewrite Hb. symmetry. exact Heq.\nQed.\n"
        write_if_changed(os.path.join(GEN, "RegexCert%02d.v" % n), c)
    return {"validators": ns, "kinds": {n: fns[n]["kind"] for n in ns}, "texts": pats,
            "tables": {n: fns[n].get("table") for n in ns}, "acc": {n: fns[n].get("acc") for n in ns}}


if __name__ == "__main__":
    d = translate_regexes()
    print(d["kinds"])
