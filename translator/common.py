"""Shared helpers for the rs -> Coq translators.

Every translator reads files under /repo (working tree), never a cached copy,
and writes coq/Gen/*.v only when the content changed (so make reuses .vo files).
A construct that is not recognised raises TranslatorError: the check reports it
as a broken obligation `translator:<file>` (it is never ignored).
"""
import os, re, hashlib, json

REPO = os.environ.get("VERIF_REPO", "/repo")
VERIF = os.path.dirname(os.path.dirname(os.path.abspath(__file__)))
GEN = os.path.join(VERIF, "coq", "Gen")
SPEC_SRC = os.path.join(REPO, "autosar-data-specification", "src")
DATA_SRC = os.path.join(REPO, "autosar-data", "src")


class TranslatorError(Exception):
    pass


def read(path):
    with open(path, "r", encoding="utf-8") as f:
        return f.read()


def write_if_changed(path, content):
    os.makedirs(os.path.dirname(path), exist_ok=True)
    try:
        with open(path, "r", encoding="utf-8") as f:
            if f.read() == content:
                return False
    except FileNotFoundError:
        pass
    tmp = path + ".tmp%d" % os.getpid()
    with open(tmp, "w", encoding="utf-8") as f:
        f.write(content)
    os.replace(tmp, path)
    return True


def coq_string(s):
    """Coq string literal for an ASCII text (bytes 32..126)."""
    for ch in s:
        if not (32 <= ord(ch) <= 126):
            raise TranslatorError("non-printable character in %r" % s)
    return '"' + s.replace('"', '""') + '"'


def coq_list(items, per_line=8, indent="  "):
    if not items:
        return "[]"
    lines = []
    for i in range(0, len(items), per_line):
        lines.append(indent + "; ".join(items[i:i + per_line]))
    return "[\n" + ";\n".join(lines) + "]"


def need(cond, msg):
    if not cond:
        raise TranslatorError(msg)


def sha(s):
    return hashlib.sha256(s.encode("utf-8")).hexdigest()[:16]


def strip_ws(s):
    return re.sub(r"\s+", " ", s).strip()


class atomic_open:
    """`with atomic_open(path) as f:` — writes to a temporary file and renames it into place, so that a concurrently
    running check never reads a half-written dump (the dumps are shared by all checks)."""

    def __init__(self, path):
        self.path = path
        self.tmp = path + ".tmp%d" % os.getpid()

    def __enter__(self):
        os.makedirs(os.path.dirname(self.path), exist_ok=True)
        self.f = open(self.tmp, "w", encoding="utf-8")
        return self.f

    def __exit__(self, exc_type, exc, tb):
        self.f.close()
        if exc_type is None:
            os.replace(self.tmp, self.path)
        else:
            try:
                os.remove(self.tmp)
            except OSError:
                pass
        return False
