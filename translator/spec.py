"""specification.rs tables -> coq/Gen/SpecTables.v (+ text dump for the harness)."""
import re, os
from common import *
import names as names_mod

MULT = {"ZeroOrOne": 0, "One": 1, "Any": 2}
RESTRICT = {"NotRestricted": 0, "ClassicPlatform": 1, "AdaptivePlatform": 2}
MODE = {"Sequence": 0, "Choice": 1, "Bag": 2, "Characters": 3, "Mixed": 4}


def pint(s):
    s = s.strip().replace("_", "")
    return int(s, 16) if s.lower().startswith("0x") else int(s)


def table_body(src, name, elemtype_rx):
    m = re.search(r"pub\(crate\) static %s: \[%s; (\d+)\] = \[\n(.*?)\n\];" % (name, elemtype_rx), src, re.S)
    need(m, "table %s not found" % name)
    return int(m.group(1)), m.group(2)


def parse_spec(ninfo):
    src = read(os.path.join(SPEC_SRC, "specification.rs"))
    el_id = {ident: v for (_t, ident, v) in ninfo["Element"]["variants"]}
    at_id = {ident: v for (_t, ident, v) in ninfo["Attr"]["variants"]}
    en_id = {ident: v for (_t, ident, v) in ninfo["Enum"]["variants"]}
    out = {}

    # the three macros must mean what we assume
    need(re.search(r"macro_rules! e \{\s*\(\$idx:literal\) => \{\s*SubElement::Element\(\$idx\)\s*\};\s*\}", src),
         "macro e! changed")
    need(re.search(r"macro_rules! g \{\s*\(\$idx:literal\) => \{\s*SubElement::Group\(\$idx\)\s*\};\s*\}", src),
         "macro g! changed")
    mm = re.search(r"#\[cfg\(not\(feature = \"docstrings\"\)\)\]\s*macro_rules! element \{(.*?)\n\}\n", src, re.S)
    need(mm, "macro element! not found")
    need(strip_ws(mm.group(1)) == strip_ws("""
    ($namepart:ident, $etype:literal, $mult:ident, $ordered:literal, $splittable:literal, $stdrestrict:ident, $docid:expr) => {
        ElementDefinition { name: ElementName::$namepart, elemtype: $etype, multiplicity: ElementMultiplicity::$mult,
            ordered: $ordered, splittable: $splittable, restrict_std: StdRestrict::$stdrestrict, } };"""),
         "macro element! changed")

    # CHARACTER_DATA
    n, body = table_body(src, "CHARACTER_DATA", "CharacterDataSpec")
    cdata = []
    for line in body.split("\n"):
        l = line.strip()
        if not l:
            continue
        need(l.endswith(","), "CHARACTER_DATA: line does not end with comma: %r" % l[:60])
        l = l[:-1]
        if l == "CharacterDataSpec::UnsignedInteger":
            cdata.append(("uint",))
        elif l == "CharacterDataSpec::Float":
            cdata.append(("float",))
        elif l.startswith("CharacterDataSpec::String"):
            m = re.fullmatch(r"CharacterDataSpec::String\{preserve_whitespace: (true|false), max_length: (None|Some\((\d+)\))\}", l)
            need(m, "CHARACTER_DATA: bad String %r" % l)
            cdata.append(("string", m.group(1) == "true", None if m.group(2) == "None" else int(m.group(3))))
        elif l.startswith("CharacterDataSpec::Pattern"):
            m = re.fullmatch(r'CharacterDataSpec::Pattern\{check_fn: validate_regex_(\d+), regex: r"(.*)", max_length: (None|Some\((\d+)\))\}', l)
            need(m, "CHARACTER_DATA: bad Pattern %r" % l)
            need('"' not in m.group(2), "regex text contains a quote")
            cdata.append(("pattern", int(m.group(1)), m.group(2), None if m.group(3) == "None" else int(m.group(4))))
        elif l.startswith("CharacterDataSpec::Enum"):
            m = re.fullmatch(r"CharacterDataSpec::Enum\{items: &\[(.*)\]\}", l)
            need(m, "CHARACTER_DATA: bad Enum %r" % l[:80])
            items = re.findall(r"\(EnumItem::(\w+), (0x[0-9a-fA-F]+|\d+)\)", m.group(1))
            rest = re.sub(r"\(EnumItem::(\w+), (0x[0-9a-fA-F]+|\d+)\)", "", m.group(1))
            need(re.fullmatch(r"[\s,]*", rest), "CHARACTER_DATA: bad Enum items %r" % rest[:80])
            for (i, _) in items:
                need(i in en_id, "unknown EnumItem::%s" % i)
            cdata.append(("enum", [(en_id[i], pint(v)) for (i, v) in items]))
        else:
            raise TranslatorError("CHARACTER_DATA: unknown entry %r" % l[:80])
    need(len(cdata) == n, "CHARACTER_DATA length %d != declared %d" % (len(cdata), n))
    out["cdata"] = cdata

    m = re.search(r"pub\(crate\) static REFERENCE_TYPE_IDX: u16 = (\d+);", src)
    need(m, "REFERENCE_TYPE_IDX not found")
    out["reference_type_idx"] = int(m.group(1))
    m = re.search(r"pub\(crate\) static AUTOSAR_ELEMENT: u16 = (\d+);", src)
    need(m, "AUTOSAR_ELEMENT not found")
    out["autosar_element"] = int(m.group(1))

    # ELEMENTS
    n, body = table_body(src, "ELEMENTS", "ElementDefinition")
    elements = []
    for line in body.split("\n"):
        l = line.strip()
        if not l:
            continue
        m = re.fullmatch(r"/\*\s*(\d+) \*/ element!\((\w+), (\d+), (\w+), (true|false), (0x[0-9a-fA-F]+|\d+), (\w+), (None|Some\(\d+\))\),", l)
        need(m, "ELEMENTS: bad line %r" % l[:100])
        need(int(m.group(1)) == len(elements), "ELEMENTS: index comment out of sequence at %d" % len(elements))
        need(m.group(2) in el_id, "unknown ElementName::%s" % m.group(2))
        need(m.group(4) in MULT and m.group(7) in RESTRICT, "ELEMENTS: bad enum in %r" % l[:100])
        elements.append((el_id[m.group(2)], int(m.group(3)), MULT[m.group(4)], 1 if m.group(5) == "true" else 0,
                         pint(m.group(6)), RESTRICT[m.group(7)]))
    need(len(elements) == n, "ELEMENTS length mismatch")
    out["elements"] = elements

    # SUBELEMENTS
    n, body = table_body(src, "SUBELEMENTS", "SubElement")
    subs = [(0 if k == "e" else 1, int(v)) for (k, v) in re.findall(r"\b([eg])!\((\d+)\)", body)]
    rest = re.sub(r"\b([eg])!\((\d+)\)", "", body)
    need(re.fullmatch(r"[\s,]*", rest), "SUBELEMENTS: unexpected tokens")
    need(len(subs) == n, "SUBELEMENTS length mismatch")
    out["subelements"] = subs

    # ATTRIBUTES
    n, body = table_body(src, "ATTRIBUTES", r"\(AttributeName, u16, bool\)")
    attrs = []
    for line in body.split("\n"):
        l = line.strip()
        if not l:
            continue
        m = re.fullmatch(r"\(AttributeName::(\w+), (\d+), (true|false)\),", l)
        need(m, "ATTRIBUTES: bad line %r" % l)
        need(m.group(1) in at_id, "unknown AttributeName::%s" % m.group(1))
        attrs.append((at_id[m.group(1)], int(m.group(2)), 1 if m.group(3) == "true" else 0))
    need(len(attrs) == n, "ATTRIBUTES length mismatch")
    out["attributes"] = attrs

    # VERSION_INFO
    n, body = table_body(src, "VERSION_INFO", "u32")
    vi = [pint(x) for x in re.findall(r"0x[0-9a-fA-F]+|\d+", body)]
    rest = re.sub(r"0x[0-9a-fA-F]+|\d+", "", body)
    need(re.fullmatch(r"[\s,]*", rest), "VERSION_INFO: unexpected tokens")
    need(len(vi) == n, "VERSION_INFO length mismatch")
    out["version_info"] = vi

    # DATATYPES
    n, body = table_body(src, "DATATYPES", "ElementSpec")
    dts = []
    for line in body.split("\n"):
        l = line.strip()
        if not l:
            continue
        m = re.fullmatch(r"/\*\s*(\d+) \*/ ElementSpec \{sub_elements: \((\d+), (\d+)\), sub_element_ver: (\d+), attributes: \((\d+), (\d+)\), "
                         r"attributes_ver: (\d+), character_data: (None|Some\((\d+)\)), mode: ContentMode::(\w+), ref_info: \((\d+), (\d+)\)\},( //.*)?", l)
        need(m, "DATATYPES: bad line %r" % l[:120])
        need(int(m.group(1)) == len(dts), "DATATYPES: index comment out of sequence")
        need(m.group(10) in MODE, "DATATYPES: bad mode")
        cd = 0 if m.group(8) == "None" else int(m.group(9)) + 1
        dts.append((int(m.group(2)), int(m.group(3)), int(m.group(4)), int(m.group(5)), int(m.group(6)), int(m.group(7)),
                    cd, MODE[m.group(10)], int(m.group(11)), int(m.group(12))))
    need(len(dts) == n, "DATATYPES length mismatch")
    out["datatypes"] = dts

    # REF_ITEMS
    n, body = table_body(src, "REF_ITEMS", "EnumItem")
    ri = re.findall(r"EnumItem::(\w+)", body)
    rest = re.sub(r"EnumItem::(\w+)", "", body)
    need(re.fullmatch(r"[\s,]*", rest), "REF_ITEMS: unexpected tokens")
    for i in ri:
        need(i in en_id, "unknown EnumItem::%s" % i)
    need(len(ri) == n, "REF_ITEMS length mismatch")
    out["ref_items"] = [en_id[i] for i in ri]
    out["short_name"] = el_id["ShortName"]
    out["attr_dest"] = at_id["Dest"]
    return out


def emit_spec(d):
    o = "(* generated by translator/spec.py from autosar-data-specification/src/specification.rs — do not edit *)\n"
    o += "From Coq Require Import List NArith.\nFrom AV Require Import Spec.SpecTypes.\nImport ListNotations.\nOpen Scope N_scope.\n"

    def cd(c):
        if c[0] == "enum":
            return "CEnum [%s]" % "; ".join("(%d,%d)" % p for p in c[1])
        if c[0] == "pattern":
            return "CPattern %d %s" % (c[1], "None" if c[3] is None else "(Some %d)" % c[3])
        if c[0] == "string":
            return "CString %s %s" % ("true" if c[1] else "false", "None" if c[2] is None else "(Some %d)" % c[2])
        return "CUInt" if c[0] == "uint" else "CFloat"

    o += "Definition t_cdata : list cdspec := %s.\n" % coq_list([cd(c) for c in d["cdata"]], 1)
    o += "Definition t_reference_type_idx : N := %d.\nDefinition t_autosar_element : N := %d.\n" % (
        d["reference_type_idx"], d["autosar_element"])
    o += "Definition t_short_name : N := %d.\nDefinition t_attr_dest : N := %d.\n" % (d["short_name"], d["attr_dest"])
    o += "(* ELEMENTS: (name, elemtype, multiplicity 0=ZeroOrOne 1=One 2=Any, ordered, splittable, restrict_std) *)\n"
    o += "Definition t_elements : list (N*N*N*N*N*N) := %s.\n" % coq_list(
        ["(%d,%d,%d,%d,%d,%d)" % e for e in d["elements"]], 6)
    o += "(* SUBELEMENTS: (0=Element | 1=Group, index) *)\n"
    o += "Definition t_subelements : list (N*N) := %s.\n" % coq_list(["(%d,%d)" % e for e in d["subelements"]], 16)
    o += "(* ATTRIBUTES: (name, chardata_id, required) *)\n"
    o += "Definition t_attributes : list (N*N*N) := %s.\n" % coq_list(["(%d,%d,%d)" % e for e in d["attributes"]], 10)
    o += "Definition t_version_info : list N := %s.\n" % coq_list(["%d" % e for e in d["version_info"]], 16)
    o += "(* DATATYPES: (sub_start, sub_end, sub_ver, attr_start, attr_end, attr_ver, character_data 0=None|id+1,\n"
    o += "               mode 0=Sequence 1=Choice 2=Bag 3=Characters 4=Mixed, ref_start, ref_end) *)\n"
    o += "Definition t_datatypes : list (N*N*N*N*N*N*N*N*N*N) := %s.\n" % coq_list(
        ["(%d,%d,%d,%d,%d,%d,%d,%d,%d,%d)" % e for e in d["datatypes"]], 3)
    o += "Definition t_ref_items : list N := %s.\n" % coq_list(["%d" % e for e in d["ref_items"]], 16)
    write_if_changed(os.path.join(GEN, "SpecTables.v"), o)


def dump_spec_text(d, path):
    os.makedirs(path, exist_ok=True)
    texts = {}
    for c in d["cdata"]:
        if c[0] == "pattern":
            need(texts.get(c[1], c[2]) == c[2], "validate_regex_%d is used with two different regex texts" % c[1])
            texts[c[1]] = c[2]
    with atomic_open(os.path.join(path, "regex_texts.txt")) as f:
        for k in sorted(texts):
            f.write("%d %s\n" % (k, texts[k]))
    with atomic_open(os.path.join(path, "spec_tables.txt")) as f:
        f.write("REFERENCE_TYPE_IDX %d\nAUTOSAR_ELEMENT %d\nSHORT_NAME %d\nATTR_DEST %d\n" % (
            d["reference_type_idx"], d["autosar_element"], d["short_name"], d["attr_dest"]))
        f.write("CDATA %d\n" % len(d["cdata"]))
        for c in d["cdata"]:
            if c[0] == "enum":
                f.write("E %s\n" % " ".join("%d:%d" % p for p in c[1]))
            elif c[0] == "pattern":
                f.write("P %d %d\n" % (c[1], -1 if c[3] is None else c[3]))
            elif c[0] == "string":
                f.write("S %d %d\n" % (1 if c[1] else 0, -1 if c[2] is None else c[2]))
            elif c[0] == "uint":
                f.write("U\n")
            else:
                f.write("F\n")
        for key, name in (("elements", "ELEMENTS"), ("subelements", "SUBELEMENTS"), ("attributes", "ATTRIBUTES"),
                          ("datatypes", "DATATYPES")):
            f.write("%s %d\n" % (name, len(d[key])))
            for e in d[key]:
                f.write(" ".join(str(x) for x in e) + "\n")
        for key, name in (("version_info", "VERSION_INFO"), ("ref_items", "REF_ITEMS")):
            f.write("%s %d\n" % (name, len(d[key])))
            f.write(" ".join(str(x) for x in d[key]) + "\n")


def emit_sweeps(d, shards=16):
    """Gen/SpecSweepNN.v: the C18 listing-vs-lookup checker evaluated on a slice of the datatypes;
    Gen/SpecSweepAll.v: the slices glued to `forall ty < n`. Shard bounds depend on the table size."""
    n = len(d["datatypes"])
    bounds = [n * k // shards for k in range(shards + 1)]
    hdr = ("(* generated by translator/spec.py — do not edit *)\n"
           "From AV Require Import Base.Bytes Base.Outcome Spec.SpecOps Spec.SpecProofs Spec.SpecReal.\n"
           "From AV.Gen Require Import Versions.\nOpen Scope N_scope.\n")
    for k in range(shards):
        o = hdr
        o += "Lemma sweep_%d : forallb (check_ty RT (map snd ver_enum)) (rangeN %d %d) = true.\n" % (k, bounds[k], bounds[k + 1])
        o += "Proof. vm_cast_no_check (@eq_refl bool true). Qed.\n"
        write_if_changed(os.path.join(GEN, "SpecSweep%02d.v" % k), o)
    o = "(* generated by translator/spec.py — do not edit *)\n"
    o += "From AV Require Import Base.Bytes Base.Outcome Spec.SpecOps Spec.SpecProofs Spec.SpecReal.\n"
    o += "From AV.Gen Require Import Versions " + " ".join("SpecSweep%02d" % k for k in range(shards)) + ".\n"
    o += "Open Scope N_scope.\n"
    o += "Theorem sweep_all : forall ty, ty < %d -> check_ty RT (map snd ver_enum) ty = true.\nProof.\n  intros ty Hty.\n" % n
    for k in range(shards):
        o += "  destruct (N.ltb_spec ty %d) as [H%d|H%d].\n" % (bounds[k + 1], k, k)
        o += "  { pose proof sweep_%d as S. rewrite forallb_forall in S. apply S. apply rangeN_spec. lia. }\n" % k
    o += "  lia.\nQed.\n"
    o += "Lemma sweep_n_datatypes : n_datatypes RT = %d.\nProof. reflexivity. Qed.\n" % n
    write_if_changed(os.path.join(GEN, "SpecSweepAll.v"), o)


def translate_spec(ninfo=None):
    if ninfo is None:
        ninfo = {k: names_mod.parse_names(k, f, t) for (k, f, t) in names_mod.KINDS}
    d = parse_spec(ninfo)
    emit_spec(d)
    emit_sweeps(d)
    return d


if __name__ == "__main__":
    d = translate_spec()
    print({k: (len(v) if isinstance(v, list) else v) for k, v in d.items()})
