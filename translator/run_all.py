"""Run every translator; used by ./check and by setup. Prints one JSON line of what was extracted."""
import sys, os, json
sys.path.insert(0, os.path.dirname(os.path.abspath(__file__)))
from common import *
import names, versions, spec


def dump_all(dumpdir):
    os.makedirs(dumpdir, exist_ok=True)
    h = names.translate_hashfunc()
    info = names.translate_names()
    names.dump_text(info, dumpdir)
    v = versions.translate_versions()
    with atomic_open(os.path.join(dumpdir, "versions.txt")) as f:
        fn = dict(v["filename"])
        for (ident, val) in v["enum"]:
            f.write("%d %s\n" % (val, fn.get(ident, "?")))
    d = spec.translate_spec(info)
    spec.dump_spec_text(d, dumpdir)
    return {"hash": h, "names": {k: len(x["strs"]) for k, x in info.items()}, "versions": len(v["enum"]),
            "datatypes": len(d["datatypes"]), "elements": len(d["elements"])}


if __name__ == "__main__":
    print(json.dumps(dump_all(sys.argv[1] if len(sys.argv) > 1 else os.path.join(VERIF, "work", "dump"))))
