"""C12 — Single-threaded use never panics, hangs or reports a spurious lock conflict.

PANIC / LOOP half (this file's own part)
  * Coq: coq/Properties/C12.v over the tree model (Tree/NoPanic*.v): every `Pan` / `Fuel` site reachable from run_op is
    excluded under PanicFree + op_wf for all 26 operations (pending classes: Float set_character_data, cross-model moves),
    recursion depth = tree height; tables_ok12 evaluated on the regenerated tables.
  * tie: the generic tree correspondence (implementation vs extracted model: an `R PANIC` / `R HANG` of either side is an
    observation) + the implementation oracle stream (`FAIL C12 kind=panic|hang|spurious-parent-locked`).
  * implementation-only fuzzer `avh panics fuzz` (harness/src/panics.rs): histories of the generic generator, models grown
    with version-foreign content, lenient loads, small-scope sweeps, then a battery of every public method with boundary
    arguments on live / stale / foreign handles; deep-nesting probes in child processes; replays of the fixed findings.
LOCK half: checks/locks_common.py `lock_half` (agent-conc): Properties/C12Locks.v + hook traces evaluated in Coq."""
import os, re, json, hashlib, shutil
import concurrent.futures as cf
import lib, treecommon
from lib import VERIF, WORK

PID = "C12"
DUMP = treecommon.DUMP
PW = os.path.join(WORK, os.environ.get("C12_WORKDIR", "panics"))
NPROC = 8


def parse_fail(l):
    d = {"raw": l}
    for x in l.split()[2:]:
        if "=" in x:
            k, v = x.split("=", 1)
            d[k] = v
    return d


def panics_known_match(entry, f):
    m = entry.get("match", {})
    if m.get("stream") != "panics":
        return False
    for k in ("kind", "op", "site", "method"):
        if k in m and not re.fullmatch(m[k], f.get(k, "")):
            return False
    if "min_depth" in m and int(f.get("depth", "0")) < m["min_depth"]:
        return False
    return True


def replay_fails(avh, path):
    rc, out, _ = lib.run([avh, "panics", "replay", DUMP, path], cwd=PW, timeout=120)
    return [parse_fail(l) for l in out.split("\n") if l.startswith("FAIL C12 ")]


def same_failure(a, b):
    return a.get("kind") == b.get("kind") and a.get("site") == b.get("site")


def minimise(avh, f, lines, budget=60):
    """greedy removal of steps while the same (kind, site) is still reported"""
    head = [l for l in lines if not (l.startswith("OP") or l.startswith("CALL"))]
    steps = [l for l in lines if l.startswith("OP") or l.startswith("CALL")]
    p = os.path.join(PW, "min.txt")

    def fails(st):
        open(p, "w").write("\n".join(head + st) + "\n")
        return any(same_failure(f, g) for g in replay_fails(avh, p))

    if not fails(steps):
        return None
    # the failing step is the last one that ran: everything after it is noise already cut by the fuzzer
    j = len(steps) - 2
    chunk = max(1, len(steps) // 4)
    while chunk >= 1 and budget > 0:
        j = len(steps) - 1 - chunk
        while j >= 0 and budget > 0:
            cand = steps[:j] + steps[j + chunk:]
            budget -= 1
            if cand and fails(cand):
                steps = cand
            j -= chunk
        chunk //= 2
    return head + steps


def fuzz_batch(ctx, avh, tier, seed, scripts):
    """runs the fuzzer in NPROC processes; returns (fail dicts, stat lines)"""
    os.makedirs(PW, exist_ok=True)
    for d in os.listdir(PW):
        if d.startswith("out"):
            shutil.rmtree(os.path.join(PW, d), ignore_errors=True)
    ncases = 2500 if tier == "thorough" else 260

    def one(i):
        out = os.path.join(PW, "out%d" % i)
        args = [avh, "panics", "fuzz", DUMP, str(seed * 1000 + i), tier, out]
        if scripts:
            args.append(scripts[i % len(scripts)])
        return lib.run(args, cwd=PW, timeout=3000, env={"AVH_PANICS_CASES": str(ncases)})

    with cf.ThreadPoolExecutor(max_workers=NPROC) as ex:
        res = list(ex.map(one, range(NPROC)))
    fails, stats, errs = [], [], []
    for rc, out, _ in res:
        if rc != 0 or "STAT cases=" not in out:
            errs.append(out[-300:])
        for l in out.split("\n"):
            if l.startswith("FAIL C12 "):
                fails.append(parse_fail(l))
            elif l.startswith("STAT "):
                stats.append(l)
    return fails, stats, errs


def extra(ctx, avh, avm, tier, seed):
    # ------------------------------------------------------------------ lock half
    try:
        import locks_common
        have_locks = hasattr(locks_common, "lock_half")
    except Exception as ex:  # the module exists but does not import: that is a broken obligation
        have_locks = False
        if os.path.exists(os.path.join(VERIF, "checks", "locks_common.py")):
            ctx.oblige("locks:checks/locks_common.py imports", False, repr(ex))
    if have_locks:
        for v in locks_common.lock_half(ctx, tier, seed):
            ctx.violation(v, found_input=v.get("found_input", True), tag="lock")
    else:
        ctx.notes.append("lock half skipped: checks/locks_common.lock_half not available")

    # ------------------------------------------------------------------ tables_ok12 on the regenerated tables
    ok, out, dt = lib.coq_make(["Tree/NoPanicReal.vo"])
    ctx.oblige("coq:tables_ok12 holds on the regenerated specification tables (Tree/NoPanicReal.v, vm_compute)", ok, out[-600:] if not ok else "")

    # ------------------------------------------------------------------ fuzzer
    known = [e for e in lib.load_known(PID) if e.get("match", {}).get("stream") == "panics"]
    res = treecommon.gen_and_run(ctx, avh, avm, seed, tier, "serialize", 4000 if tier == "thorough" else 640, "generic")
    scripts = [s["script_file"] for s in res["shards"] if os.path.exists(s.get("script_file", ""))]
    fails, stats, errs = fuzz_batch(ctx, avh, tier, seed, scripts)
    ctx.oblige("fuzzer:avh panics fuzz ran to completion in every process", not errs, "; ".join(errs)[:600])
    ncase = sum(int(m.group(1)) for l in stats for m in [re.match(r"STAT cases=(\d+) steps=(\d+)", l)] if m)
    nstep = sum(int(m.group(2)) for l in stats for m in [re.match(r"STAT cases=(\d+) steps=(\d+)", l)] if m)
    mix = {}
    for l in stats:
        m = re.match(r"STAT op=(\S+) ok=(\d+) err=(\d+)", l)
        if m:
            a = mix.setdefault(m.group(1), [0, 0])
            a[0] += int(m.group(2))
            a[1] += int(m.group(3))
    ctx.coverage["fuzzer_cases"] = ncase
    ctx.coverage["fuzzer_calls"] = nstep
    ctx.coverage["fuzzer_call_mix_ok_err"] = mix
    ctx.coverage["evaluations"] = ctx.coverage.get("evaluations", 0) + nstep
    unknown, hit = [], {}
    for f in fails:
        if f.get("kind") == "harness-panic":
            unknown.append(f)
            continue
        k = next((e for e in known if e.get("status") == "known" and panics_known_match(e, f)), None)
        if k:
            hit.setdefault(k["key"], (k, f))
        else:
            unknown.append(f)
    ctx.coverage["fuzzer_failures_total"] = len(fails)
    ctx.coverage["fuzzer_failures_unknown"] = len(unknown)

    # ------------------------------------------------------------------ deep nesting (child processes)
    depths = "1000,3000,10000" if tier == "thorough" else "1000,3000"
    rc, out, dt = lib.run([avh, "panics", "deep", DUMP, depths], cwd=PW, timeout=3000)
    deep_ok = [l for l in out.split("\n") if l.startswith("DEEP ok")]
    deep_fail = [parse_fail(l) for l in out.split("\n") if l.startswith("FAIL C12 ")]
    ctx.coverage["deep_probes_ok"] = len(deep_ok)
    ctx.oblige("deep:probes ran (%d ok)" % len(deep_ok), rc == 0 and len(deep_ok) + len(deep_fail) > 0, out[-300:])
    for f in deep_fail:
        k = next((e for e in known if e.get("status") == "known" and panics_known_match(e, f)), None)
        if k:
            hit.setdefault(k["key"], (k, f))
        else:
            f["deep"] = True
            unknown.append(f)

    # ------------------------------------------------------------------ type mix-up probe (check_version_compatibility after move / copy)
    mxdir = os.path.join(PW, "mixup")
    os.makedirs(mxdir, exist_ok=True)
    rc, out, dt = lib.run([avh, "panics", "mixup", DUMP, "0", mxdir], cwd=PW, timeout=1500)
    m = re.search(r"STAT mixup dynamic: scenarios tried=(\d+) panics confirmed=(\d+)", out)
    ctx.oblige("mixup:probe ran (static search over the specification + scenarios through the public API)", rc == 0 and bool(m), out[-300:])
    if m:
        ctx.coverage["mixup_scenarios"] = int(m.group(1))
        ctx.coverage["mixup_panics"] = int(m.group(2))
        ctx.oblige("mixup:no panic after a move / copy between parents that list the element's name with different types: sort of the "
                   "attached element / its new parent / the model, serialize, check_references, check_version_compatibility (all "
                   "versions), duplicate, lenient load of the file's own text into the same model "
                   "(regression of C12-panic-check-compat-mixup; %s scenarios through the public API)" % m.group(1),
                   int(m.group(2)) == 0 and int(m.group(1)) > 0, out[-600:])
        ctx.coverage["evaluations"] = ctx.coverage.get("evaluations", 0) + int(m.group(1))
    for l in out.split("\n"):
        if l.startswith("MIXUP-SCRIPT "):
            spath = l.split(None, 1)[1].strip()
            for f in replay_fails(avh, spath):
                f.setdefault("script", spath)
                k = next((e for e in known if e.get("status") == "known" and panics_known_match(e, f)), None)
                if k:
                    hit.setdefault(k["key"], (k, f))
                else:
                    unknown.append(f)

    # ------------------------------------------------------------------ fixed findings stay fixed
    for e in lib.load_known(PID):
        if e.get("status") != "fixed" or e.get("match", {}).get("stream") != "panics":
            continue
        r = json.load(open(os.path.join(VERIF, e["replay"])))
        p = os.path.join(PW, "regr_%s.txt" % e["key"])
        open(p, "w").write("\n".join(r["script"]) + "\n")
        back = [g for g in replay_fails(avh, p) if not any(panics_known_match(k, g) for k in known if k.get("status") == "known")]
        ctx.oblige("regression:%s" % e["key"], not back, "failure is back: %s" % [g["raw"] for g in back[:2]])
        if back:
            ctx.violation({"property": PID, "kind": "failing-history", "what": "regression of fixed finding %s" % e["key"],
                           "oracle_line": back[0]["raw"], "script": r["script"],
                           "how_to_replay": "save `script` (one line each) to f.txt; harness/target/debug/avh panics replay work/dump f.txt -v"},
                          tag="regr")

    # ------------------------------------------------------------------ confirm + minimise + report the unknown ones
    confirmed, seen = [], set()
    for f in unknown:
        key = (f.get("kind"), f.get("site"), f.get("op"))
        if key in seen or len(confirmed) >= 6:
            continue
        seen.add(key)
        if f.get("deep"):
            confirmed.append((f, ["avh panics deep %s %s  (action %s)" % (DUMP, f.get("depth"), f.get("op"))]))
            continue
        sp = f.get("script", "")
        if not os.path.exists(sp):
            confirmed.append((f, ["(script file missing) " + f["raw"]]))
            continue
        lines = [l for l in open(sp).read().split("\n") if l]
        again = [g for g in replay_fails(avh, sp) if same_failure(f, g)]
        if not again and f.get("kind") != "hang":
            ctx.notes.append("fuzzer failure did not reproduce in isolation: " + f["raw"])
            continue
        small = minimise(avh, f, lines) or lines
        confirmed.append((f, small))
    ctx.oblige("fuzzer:C12 no panic / hang / spurious ParentElementLocked / stack overflow on the implementation (modulo recorded findings; "
               "%d cases, %d calls)" % (ncase, nstep), not confirmed, "; ".join(c[0]["raw"] for c in confirmed)[:900])
    for k, f in hit.values():
        ctx.known(k["what"])
    for f, small in confirmed:
        ctx.violation({"property": PID, "kind": "failing-history", "oracle_line": f["raw"], "script": small,
                       "broken_obligations": ctx.broken,
                       "how_to_replay": "save `script` (one line each) to f.txt; harness/target/debug/avh panics replay work/dump f.txt -v "
                                        "(OP lines alone also run with avh tree run)"}, tag="fuzz")
    if stats:
        ctx.samples.append({"fuzzer_stat": [l for l in stats if l.startswith("STAT family") or l.startswith("STAT cases")][:8]})


def _use_mutant_binaries():
    """mutation self-test (tools/c12_mutants.py): run the whole check on pre-built binaries of a privately mutated copy of
    /repo instead of building the shared harness"""
    a, b = os.environ.get("C12_MUTANT_AVH"), os.environ.get("C12_MUTANT_AVH_HOOKS")
    if not a:
        return

    def hb(ctx, hooks=False, timeout=1800):
        p = b if hooks else a
        ctx.oblige("build:harness%s (MUTANT binary %s)" % ("+hooks" if hooks else "", p), bool(p) and os.path.exists(p))
        return p if p and os.path.exists(p) else None

    lib.harness_build = hb


FAST = {"on": False}
_orig_gen_and_run = treecommon.gen_and_run


def _gen_and_run(ctx, avh, avm, seed, tier, enable, nscripts, tag, **kw):
    """when the pre-flight already found a call that never returns, the generic streams (3 s watchdog per script, the hung
    threads keep spinning) are cut down: the run ends in VIOLATION anyway, this only bounds its duration"""
    if FAST["on"]:
        nscripts = min(nscripts, 64)
        tag = tag + "-reduced"
        if not any("generic streams reduced" in str(n) for n in ctx.notes):
            ctx.notes.append("generic streams reduced to %d scripts: the pre-flight fuzzer found a hang" % nscripts)
    return _orig_gen_and_run(ctx, avh, avm, seed, tier, enable, nscripts, tag, **kw)


treecommon.gen_and_run = _gen_and_run


def preflight(tier, seed):
    """a few hundred fuzzer cases before anything else; returns the unknown hang failures"""
    import xmlcommon
    ctx0 = lib.Ctx(PID + "-preflight", tier, seed)
    try:
        xmlcommon.translate_all(ctx0)
        avh = lib.harness_build(ctx0)
        if not avh:
            return []
        os.makedirs(PW, exist_ok=True)
        known = [e for e in lib.load_known(PID) if e.get("match", {}).get("stream") == "panics" and e.get("status") == "known"]

        def one(i):
            return lib.run([avh, "panics", "fuzz", DUMP, str(seed * 1000 + 500 + i), "quick", os.path.join(PW, "pre%d" % i)], cwd=PW,
                           timeout=600, env={"AVH_PANICS_CASES": "40"})

        with cf.ThreadPoolExecutor(max_workers=4) as ex:
            res = list(ex.map(one, range(4)))
        fails = [parse_fail(l) for rc, out, _ in res for l in out.split("\n") if l.startswith("FAIL C12 ")]
        return [f for f in fails if f.get("kind") == "hang" and not any(panics_known_match(k, f) for k in known)]
    except Exception as ex:  # the pre-flight only steers the time budget
        print("[check C12] preflight skipped: %r" % ex)
        return []
    finally:
        p = os.path.join(lib.EVID, "%s-preflight.json" % PID)
        if os.path.exists(p):
            os.remove(p)


def run(tier, seed):
    _use_mutant_binaries()
    hangs = preflight(tier, seed)
    if hangs:
        FAST["on"] = True
        print("[check C12] pre-flight: %d hanging call(s), e.g. %s" % (len(hangs), hangs[0]["raw"][:200]), flush=True)
        # report the failing input NOW: the generic streams that follow replay hanging scripts for a long time
        f = hangs[0]
        sp = f.get("script", "")
        if os.path.exists(sp):
            lines = [l for l in open(sp).read().split("\n") if l]
            path = os.path.join(lib.REPLAYS, "%s-preflight0.json" % PID)
            os.makedirs(lib.REPLAYS, exist_ok=True)
            json.dump({"property": PID, "kind": "failing-history", "oracle_line": f["raw"], "script": lines,
                       "what": "a public call that never returns (3 s watchdog) in single-threaded use",
                       "how_to_replay": "save `script` (one line each) to f.txt; harness/target/debug/avh panics replay work/dump f.txt -v"},
                      open(path, "w"), indent=1, sort_keys=True)
            print("VIOLATION property=%s replay=%s" % (PID, path), flush=True)
    return treecommon.run_tree_property(
        PID, tier, seed, "Properties/C12.v", enable="serialize", extra_check=extra,
        rule_extra="C12 adds: (1) lock half = Coq verdict self_ok/balanced on hook traces (locks_common.lock_half); (2) avh panics fuzz: "
                   "8 processes x {generic-generator histories, grown models with version-foreign children, lenient loads of hand-written and "
                   "re-versioned documents, small-scope sweeps of move/copy/set_reference_target/rename/remove/sort/set_character_data over all "
                   "handle pairs} followed by a battery of every public Element/AutosarModel/ArxmlFile method with boundary arguments on live, "
                   "stale and foreign handles (fuzzer_calls = library calls made, each under catch_unwind + 3 s watchdog); (3) deep-nesting "
                   "probes (1000 / 3000 [/ 10000] nested packages x 15 actions) in child processes; (4) replays of the fixed findings.",
        assumptions=["C12_no_panic_all / C12_no_panic_histories cover all 26 constructors of the operation alphabet with every argument "
                     "(cross-model moves included); the Float case of set_character_data is stated over run_opF: f64::to_string is an ORACLE "
                     "(any function from the 64 bits to a byte string), its digits are not modelled",
                     "C12_no_panic2_histories: histories over the large alphabet op2 are covered for Op1, OpSort, OpSortModel, OpSetVersion, "
                     "OpCheckCompat, OpSerializeFile, OpSerializeElem; C12_no_panic3_histories adds OpDuplicate as a step when the call returns Ok (with "
                     "SizeOk at each of its copies); a FAILING duplicate is covered as a call only (it returns; the state after it is outside the "
                     "invariant); C12_no_panic4_histories adds OpLoad as a step for loads REJECTED before anything is installed (file name taken / the parser "
                     "raises; C12_load_front_total); a load whose buffer the parser accepts (load_parsed) is PENDING (correspondence + fuzzer only)",
                     "op_wfv / ver_ok: version arguments are values of AutosarVersion discriminants",
                     "SizeOk: every identifiables map has fewer than 10^39 entries (injectivity of format!(\"{counter}\") in make_unique_item_name)",
                     "check_fn (the regex validators) is total: C19",
                     "RootOK: the attribute list AutosarModel::new gives the root element uses attribute names / enum values of the tables",
                     "op_wf: handles are handles (allocated elements - removed and foreign ones included -, existing models / files); element names "
                     "and enum values are discriminants of the Rust enums; positions, strings, numbers, versions are arbitrary"])


def replay(path):
    """a violation file of this check: re-run its script on the implementation"""
    r = json.load(open(path))
    os.makedirs(PW, exist_ok=True)
    ctx = lib.Ctx(PID, "quick", 1)
    avh = lib.harness_build(ctx)
    if not avh:
        return 1
    sc = r.get("script") or []
    p = os.path.join(PW, "replay.txt")
    open(p, "w").write("\n".join(sc) + "\n")
    if any(l.startswith("CALL") for l in sc) or "panics" in r.get("how_to_replay", ""):
        rc, out, _ = lib.run([avh, "panics", "replay", DUMP, p, "-v"], cwd=PW, timeout=300)
    else:
        rc, out, _ = lib.run([avh, "tree", "oracle", DUMP, p], cwd=PW, timeout=300)
    print(out[-3000:])
    bad = [l for l in out.split("\n") if l.startswith("FAIL C12 ")]
    if bad:
        print("VIOLATION property=C12 replay=%s" % path)
        return 1
    return 0
