"""C09 — merging files keeps each file's content and yields their union in any load order (+ the load half of C11).

Coq: Properties/C09.v — theorems about the model Tree/Load.v of load_buffer_internal / merge_element (autosarmodel.rs)
against the specification side Tree/MergeSpec.v.
Tie: correspondence of the hand-written model with the real library on (a) the generic element-tree history stream with
loads, (b) the merge stream (MASTER models split into 2-4 partial files, every load order, conflicting files):
`avh tree run` vs the extracted model `avm_tree`, full canonical observation after every load.
Direct property oracle on the implementation (`avh merge oracle`): every element of every file exactly once, membership =
the files that contained it, every file serialized from the merged model = the file on its own, independent of the load
order, conflicting files rejected; C11-load: a rejected load leaves the canonical observation unchanged."""
import os, json, re, time
import concurrent.futures as cf
import lib
from lib import Ctx, WORK, VERIF

SHARED_DUMP = os.path.join(WORK, "dump")
CW = os.path.join(WORK, "c09")
DUMP = os.path.join(CW, "dump")      # private snapshot: other checks rewrite work/dump (non-atomically) while we run
AVM = os.path.join(VERIF, "ocaml", "_build", "avm_tree")
NSHARDS = 16
CONTENT_KEYED = re.compile(r"=[0-9]+:[0-9a-f]{16}")


# ------------------------------------------------------------------------------------------ helpers
def split_scripts(path):
    """script file -> list of (index, text)"""
    res, cur, idx = [], [], None
    for l in open(path):
        if l.startswith("SCRIPT "):
            if idx is not None:
                res.append((idx, "".join(cur)))
            idx, cur = int(l.split()[1]), [l]
        elif idx is not None:
            cur.append(l)
    if idx is not None:
        res.append((idx, "".join(cur)))
    return res


def run_both(avh, label, scripts):
    """run every script on the implementation and on the extracted model (sharded); returns (impl, model, errors)
    as dicts script index -> 'lines=.. hash'"""
    os.makedirs(CW, exist_ok=True)
    shards = [[] for _ in range(NSHARDS)]
    for i, (idx, text) in enumerate(scripts):
        shards[i % NSHARDS].append(text)
    cmds = []
    for k, sh in enumerate(shards):
        if not sh:
            continue
        p = os.path.join(CW, "%s_shard_%d.txt" % (label, k))
        open(p, "w").write("".join(sh))
        cmds.append(("impl", [avh, "tree", "run", DUMP, p]))
        cmds.append(("model", [AVM, DUMP, p]))
    impl, model, errs = {}, {}, []
    with cf.ThreadPoolExecutor(max_workers=16) as ex:
        futs = [(side, ex.submit(lib.run, c, WORK, 1500)) for side, c in cmds]
        for side, f in futs:
            rc, out, _ = f.result()
            if rc != 0:
                errs.append("%s rc=%d %s" % (side, rc, out[-300:]))
            for l in out.split("\n"):
                w = l.split()
                if len(w) == 4 and w[0] == "S":
                    (impl if side == "impl" else model)[int(w[1])] = w[2] + " " + w[3]
    return impl, model, errs


def first_diff_of_script(avh, text):
    """verbose run of one script on both sides: the first differing observation lines"""
    p = os.path.join(CW, "one_script.txt")
    open(p, "w").write(text)
    _, a, _ = lib.run([avh, "tree", "run", DUMP, p, "-v"], WORK, 300)
    _, b, _ = lib.run([AVM, DUMP, p, "-v"], WORK, 300)
    la = [l for l in a.split("\n") if not l.startswith("  ")]
    lb = [l for l in b.split("\n") if not l.startswith("  ")]
    for i in range(max(len(la), len(lb))):
        x = la[i] if i < len(la) else "<end>"
        y = lb[i] if i < len(lb) else "<end>"
        if x != y:
            return {"line": i, "implementation": x[:400], "model": y[:400]}
    return None


def shrink_script(avh, text):
    """drop trailing operations while the two sides still differ (the hashes are per script)"""
    lines = text.split("\n")
    head = [l for l in lines if not l.startswith("OP")]
    ops = [l for l in lines if l.startswith("OP")]

    def differs(k):
        t = "\n".join(head[:-1] if head and head[-1] == "" else head) + "\n" + "\n".join(ops[:k]) + "\n"
        p = os.path.join(CW, "shrink.txt")
        open(p, "w").write(t)
        _, a, _ = lib.run([avh, "tree", "run", DUMP, p], WORK, 300)
        _, b, _ = lib.run([AVM, DUMP, p], WORK, 300)
        sa = [l for l in a.split("\n") if l.startswith("S ")]
        sb = [l for l in b.split("\n") if l.startswith("S ")]
        return sa != sb, t
    lo, hi = 1, len(ops)
    best = text
    while lo < hi:
        mid = (lo + hi) // 2
        d, t = differs(mid)
        if d:
            hi, best = mid, t
        else:
            lo = mid + 1
    return best


def parse_oracle(out):
    fails, stats = [], {}
    for l in out.split("\n"):
        if l.startswith("FAIL "):
            w = l.split()
            fails.append({"case": int(w[1]), "kind": w[2], "line": l})
        elif l.startswith("STAT "):
            for kv in l.split()[1:]:
                if "=" in kv:
                    k, v = kv.rsplit("=", 1)
                    if v.isdigit():
                        stats[k] = stats.get(k, 0) + int(v)
    return fails, stats


EXTRA_PROPS = [("Properties/C09Load.v", "pins/C09Load.json")]


def known_class(f):
    """key of the known-finding class an oracle FAIL line belongs to (matched narrowly), or None"""
    # the known rollback class: ONLY memberships that were made explicit (the oracle names the classes of changes:
    # elements, values, order, membership, index, local) — elements left behind or attributes changed are not in it
    if f["kind"] == "c11-load" and " R ERR InvalidFileMerge " in f["line"] and " changed=local " in f["line"]:
        return "C11-load-merge-rollback"
    if f["kind"] in ("missing", "extra", "duplicate", "membership", "values", "file-content", "file-dfs", "order-dependent") \
            and CONTENT_KEYED.search(f["line"]):
        return "C09-unnamed-below-splittable"
    # multi-valued BSW parameters (several siblings with one DEFINITION-REF) whose sibling lists are not aligned in the
    # two files (the oracle computes the tag from the files alone): later values pair with the FIRST value again
    if f["kind"] in ("missing", "extra", "duplicate", "membership", "values", "file-content", "file-dfs", "order-dependent", "merge-rejected") \
            and f["line"].endswith(" tag=multikey-misaligned"):
        return "C09-multivalued-defref-misaligned"
    # two files give one (non-splittable) parameter value different character data: the second file is accepted
    if f["kind"] == "not-rejected" and re.search(r"\(conflict-multi-(swapped|text)\) was accepted$", f["line"]):
        return "C09-character-data-conflict-accepted"
    # shared elements that carry different attributes in different files: the attributes of the file loaded first win
    if f["kind"] in ("attrs", "file-attrs", "order-attrs"):
        return "C09-attributes-first-loaded-wins"
    return None


def case_text(cases_path, cid):
    txt = open(cases_path).read()
    for c in txt.split("CASE ")[1:]:
        if c.startswith("%d " % cid):
            return "CASE " + c
    return ""


def minimise_case(avh, cases_path, cid):
    out_p = os.path.join(CW, "min_%d.txt" % cid)
    rc, out, _ = lib.harness_run(avh, ["merge", "min", DUMP, cases_path, str(cid), out_p], timeout=600)
    if rc == 0 and os.path.exists(out_p):
        return open(out_p).read(), out[:6000]
    return case_text(cases_path, cid), out[-800:]


def files_of_case(text):
    res = []
    for l in text.split("\n"):
        w = l.split()
        if w and w[0] == "FILE":
            res.append({"name": bytes.fromhex(w[1]).decode("utf-8", "replace"), "strict": w[2] == "1",
                        "text": bytes.fromhex(w[3] if len(w) > 3 else "").decode("utf-8", "replace")})
    return res


def private_binaries(avh):
    """private copies of the two runners: other checks rebuild harness/target/debug/avh and ocaml/_build/avm_tree
    while this one runs"""
    import shutil
    global AVM
    os.makedirs(CW, exist_ok=True)
    out = []
    for src, name in ((avh, "avh_c09"), (os.path.join(VERIF, "ocaml", "_build", "avm_tree"), "avm_tree_c09")):
        dst = os.path.join(CW, name)
        for attempt in range(5):
            try:
                tmp = dst + ".tmp%d" % os.getpid()
                shutil.copy2(src, tmp)
                os.replace(tmp, dst)
                break
            except OSError:
                time.sleep(0.5)
        out.append(dst if os.path.exists(dst) else src)
    AVM = out[1]
    return out[0]


def snapshot_dump(ctx, avh):
    """copy the translator's text dump into a private directory and make sure the copy is complete (both runners can
    load it); retried, because a concurrently running check may be rewriting the shared files"""
    import shutil
    os.makedirs(DUMP, exist_ok=True)
    probe = os.path.join(CW, "probe_script.txt")
    open(probe, "w").write("SCRIPT 0\nPATHS-EMPTY\nOP new_model\n")
    last = ""
    for attempt in range(8):
        try:
            for f in os.listdir(SHARED_DUMP):
                if f.endswith(".txt"):
                    shutil.copyfile(os.path.join(SHARED_DUMP, f), os.path.join(DUMP, f))
        except OSError as ex:
            last = str(ex)
            time.sleep(0.5)
            continue
        rc1, o1, _ = lib.run([AVM, DUMP, probe], WORK, 120)
        rc2, o2, _ = lib.run([avh, "tree", "run", DUMP, probe], WORK, 120)
        a = [l for l in o1.split("\n") if l.startswith("S ")]
        b = [l for l in o2.split("\n") if l.startswith("S ")]
        if rc1 == 0 and rc2 == 0 and a and a == b:
            return True
        last = (o1[-200:] + " | " + o2[-200:])
        time.sleep(0.7)
    ctx.oblige("setup:dump-snapshot", False, "the table dump could not be read consistently: " + last)
    return False


# ------------------------------------------------------------------------------------------ streams
def gen_streams(ctx, avh, tier, seed):
    """generic load stream + merge cases/scripts; returns paths and generator statistics"""
    os.makedirs(CW, exist_ok=True)
    g_script = os.path.join(CW, "generic_%s_%d.txt" % (tier, seed))
    n = 1500 if tier == "thorough" else 260
    rc, out, _ = lib.harness_run(avh, ["tree", "gen", DUMP, str(seed), tier, g_script, str(n)],
                                 env={"AVH_TREE_ENABLE": "load,load,serialize"}, timeout=1500)
    gstats = [l for l in out.split("\n") if l.startswith("STAT")]
    ok1 = rc == 0 and os.path.exists(g_script)
    cases = os.path.join(CW, "cases_%s_%d.txt" % (tier, seed))
    m_script = os.path.join(CW, "merge_%s_%d.txt" % (tier, seed))
    rc, out, _ = lib.harness_run(avh, ["merge", "gen", str(seed), tier, cases, m_script], timeout=1500)
    mstats = [l for l in out.split("\n") if l.startswith("STAT")]
    ok2 = rc == 0 and os.path.exists(cases)
    ctx.oblige("generator:streams(generic histories with loads; masters split into 2-4 files, conflicts)", ok1 and ok2, out[-400:])
    return g_script, cases, m_script, gstats, mstats


def correspondence(ctx, avh, label, script_path, prop_fail):
    scripts = split_scripts(script_path)
    impl, model, errs = run_both(avh, label, scripts)
    bad = [idx for idx, _ in scripts if impl.get(idx) is None or impl.get(idx) != model.get(idx)]
    ctx.oblige("correspondence:%s(implementation vs extracted Coq model, canonical observation after every operation, %d scripts)"
               % (label, len(scripts)), not bad and not errs, "differing scripts: %s %s" % (bad[:8], errs[:2]))
    ctx.coverage["traces_validated_against_impl"] = ctx.coverage.get("traces_validated_against_impl", 0) + len(scripts) - len(bad)
    details = []
    for idx in bad[:3]:
        text = dict(scripts)[idx]
        small = shrink_script(avh, text)
        d = first_diff_of_script(avh, small)
        details.append({"script": idx, "first_difference": d, "script_text": small if len(small) < 200000 else small[:200000]})
    return len(scripts), bad, details


def oracle(ctx, avh, cases_path):
    rc, out, dt = lib.harness_run(avh, ["merge", "oracle", DUMP, cases_path], timeout=2400)
    fails, stats = parse_oracle(out)
    return rc, fails, stats, out


def classify(ctx, fails, pid):
    """split oracle failures into known classes (status known, matched narrowly) and unknown ones"""
    known = {e["key"]: e for e in lib.load_known("C09") + lib.load_known("C11")}
    unknown, hits = [], {}
    for f in fails:
        kc = known_class(f)
        if kc and kc in known and known[kc]["status"] == "known":
            hits.setdefault(kc, []).append(f)
        else:
            unknown.append(f)
    return unknown, hits, known


def replay_findings(ctx, avh, props, prop_fail):
    """replays of recorded findings: a fixed one must pass (its failure coming back is a violation), a known one prints
    KNOWN-FINDING while it still reproduces"""
    for e in lib.load_known("C09") + lib.load_known("C11"):
        if e["property"] not in props or not e.get("replay", "").startswith("findings/C"):
            continue
        rp = os.path.join(VERIF, e["replay"])
        if not os.path.exists(rp):
            continue
        rj = json.load(open(rp))
        if rj.get("kind") != "merge-cases":
            continue
        p = os.path.join(CW, "known_%s.txt" % e["key"])
        open(p, "w").write(rj["cases"])
        rc, fails, stats, out = oracle(ctx, avh, p)
        other = [f for f in fails if known_class(f) is None]
        mine = [f for f in fails if known_class(f) == e["key"]]
        if e["status"] == "fixed":
            # failures of a still-known class may accompany the case (e.g. the C11 rollback trace of a rejected merge)
            ctx.oblige("regression:%s" % e["key"], rc == 0 and not other and stats.get("cases", 0) >= 1,
                       "failure is back: %s" % [f["line"][:300] for f in other[:3]])
            if other:
                prop_fail.append({"kind": "regression", "key": e["key"], "fails": [f["line"] for f in other[:5]],
                                  "files": files_of_case(rj["cases"])})
        else:
            if mine:
                if not any(k.startswith(e["what"]) for k in ctx.known_printed):
                    ctx.known(e["what"])
            else:
                ctx.notes.append("known finding %s no longer reproduces" % e["key"])
            if other:
                prop_fail.append({"kind": "known-replay-other-failure", "key": e["key"], "fails": [f["line"] for f in other[:5]]})


# ------------------------------------------------------------------------------------------ C11, load half
def load_half(ctx, tier, seed, avh=None, streams=None, oracle_result=None):
    """The load part of C11 ("a load rejected for a syntax error, a merge conflict or overlapping paths leaves every
    observable aspect of the model unchanged"), callable from checks/c11.py.
    Runs the C11-load oracle of the harness on the generic history stream (every load that returns Err: canonical
    observation before == after) and takes the c11-load verdicts of the merge cases.  Uses ctx.oblige / ctx.known;
    failures outside the known class are returned in 'violations' (the caller reports them) and, when `ctx.pid` is C11,
    reported with ctx.violation here.  Returns a summary dict."""
    if avh is None:
        avh = lib.harness_build(ctx)
    if not avh:
        return {"ok": False, "checked": 0, "violations": [], "known": {}}
    if streams is None:
        # called from another check (C11): build what is needed, work on private copies
        rcb, bo, _ = lib.run([os.path.join(VERIF, "ocaml", "build_tree.sh")], timeout=1800)
        ctx.oblige("build:tree-model-runner(for the dump probe)", rcb == 0, bo[-800:] if rcb else "")
        if rcb != 0:
            return {"ok": False, "checked": 0, "violations": [], "known": {}}
        avh = private_binaries(avh)
        if not snapshot_dump(ctx, avh):
            return {"ok": False, "checked": 0, "violations": [], "known": {}}
        streams = gen_streams(ctx, avh, tier, seed)
    g_script, cases, m_script, gstats, mstats = streams
    rc, out, _ = lib.harness_run(avh, ["merge", "c11", DUMP, g_script], timeout=1500)
    gen_fails = []
    checked = 0
    per_err = {}
    for l in out.split("\n"):
        if l.startswith("C11FAIL") or l.startswith("C11PANIC"):
            m = re.search(r"script=(\d+) op=(\d+) (\S+)", l)
            gen_fails.append({"case": -1, "kind": "c11-load", "script": int(m.group(1)) if m else -1,
                              "line": l.replace("R_ERR_", "R ERR ").replace("C11FAIL", "FAIL -1 c11-load") + " "})
        elif l.startswith("STAT c11_failed_loads_checked="):
            checked += int(l.split("=")[1])
        elif l.startswith("STAT c11 "):
            k, v = l[len("STAT c11 "):].rsplit("=", 1)
            per_err[k] = per_err.get(k, 0) + int(v)
    if oracle_result is None:
        oracle_result = oracle(ctx, avh, cases)
    rc2, fails, stats, _ = oracle_result
    c11_fails = [f for f in fails if f["kind"] == "c11-load"] + gen_fails
    checked += stats.get("c11_checked", 0)
    unknown, hits, known = classify(ctx, c11_fails, "C11")
    ctx.oblige("oracle:C11-load(a rejected load leaves the canonical observation unchanged; %d rejected loads: lexer/parser "
               "errors, duplicate file name, overlapping paths, merge conflicts)" % checked,
               rc == 0 and rc2 == 0 and not unknown and checked > 0,
               "\n".join(f["line"][:400] for f in unknown[:5]))
    for k, v in hits.items():
        ctx.known("%s  [%d rejected loads in this run]" % (known[k]["what"], len(v)))
    violations = []
    for f in unknown[:3]:
        if f["case"] >= 0:
            txt, log = minimise_case(avh, cases, f["case"])
            violations.append({"kind": "c11-load", "fail": f["line"][:1000], "cases": txt, "files": files_of_case(txt)})
        else:
            sc = dict(split_scripts(g_script)).get(f.get("script", -1), "")
            violations.append({"kind": "c11-load", "fail": f["line"][:1000], "tree_script": sc[:200000]})
    if ctx.pid == "C11":
        for v in violations:
            ctx.violation({"property": "C11", "part": "load", **v,
                           "how_to_replay": "./check C09 --replay <this file>  (harness: avh merge oracle work/dump <cases> | avh merge c11 work/dump <script>)"},
                          tag="load")
    return {"ok": not unknown, "checked": checked, "rejected_by_error": per_err, "violations": violations,
            "known": {k: len(v) for k, v in hits.items()}, "merge_rejected": {k: v for k, v in stats.items() if k.startswith("R_")}}


# ------------------------------------------------------------------------------------------ the check
def run(tier, seed, replay_obj=None):
    ctx = Ctx("C09", tier, seed)
    import xmlcommon
    ok_tr, info = xmlcommon.translate_all(ctx)

    ctx.log("building Properties/C09.vo")
    ok, out, dt = lib.coq_make(["Properties/C09.vo"])
    if not ok:
        ctx.oblige("coq:build-closure", False, "failed files: %s\n%s" % (lib.coq_failed_files(out), out[-1200:]))
    else:
        ctx.oblige("coq:build-closure", True)
        lib.coq_hygiene(ctx, lib.closure_of("Properties/C09.vo"))
        lib.check_theorems(ctx, "Properties/C09.v", "pins/C09.json")
        # the theorems that use the real parser state (closure: + the Xml development) live in a property file of their own
        for (xf, xpins) in EXTRA_PROPS:
            ok2, out2, dt2 = lib.coq_make([xf + "o"])
            if not ok2:
                ctx.oblige("coq:build-closure(%s)" % xf, False, "failed files: %s\n%s" % (lib.coq_failed_files(out2), out2[-1200:]))
            else:
                ctx.oblige("coq:build-closure(%s)" % xf, True)
                lib.coq_hygiene(ctx, lib.closure_of(xf + "o"))
                lib.check_theorems(ctx, xf, xpins)
    ctx.log("coq done (%.0fs)" % dt)

    avh = lib.harness_build(ctx)
    rc, bout, _ = lib.run([os.path.join(VERIF, "ocaml", "build_tree.sh")], timeout=1800)
    ctx.oblige("build:tree-model-runner(extraction of Tree/*.v incl. Load.v, ocaml)", rc == 0, bout[-1500:] if rc else "")
    prop_fail = []
    corr_details = []
    if avh and rc == 0:
        avh = private_binaries(avh)
    if avh and rc == 0 and os.path.isdir(SHARED_DUMP) and snapshot_dump(ctx, avh):
        if replay_obj is not None:
            return run_replay(ctx, avh, replay_obj)
        streams = gen_streams(ctx, avh, tier, seed)
        g_script, cases, m_script, gstats, mstats = streams
        ctx.coverage["generator_generic"] = [s for s in gstats if "op=load" in s or "scripts=" in s]
        ctx.coverage["generator_merge"] = mstats
        # ---- correspondence
        n1, bad1, d1 = correspondence(ctx, avh, "generic-load-stream", g_script, prop_fail)
        ctx.log("correspondence generic stream done")
        # the shared regression scripts (incl. the late SHORT-NAME document of fix f86b268: rejected strictly on both sides)
        reg = os.path.join(VERIF, "corpus", "tree_regressions.txt")
        if os.path.exists(reg):
            n0, bad0, d0 = correspondence(ctx, avh, "tree-regressions", reg, prop_fail)
            corr_details += d0
        n2, bad2, d2 = correspondence(ctx, avh, "merge-stream", m_script, prop_fail)
        ctx.log("correspondence merge stream done")
        corr_details = d1 + d2
        # ---- direct oracle on the implementation
        ores = oracle(ctx, avh, cases)
        rc3, fails, stats, oout = ores
        c09_fails = [f for f in fails if f["kind"] != "c11-load"]
        unknown, hits, known = classify(ctx, c09_fails, "C09")
        ctx.coverage["evaluations"] = stats.get("loads_ok", 0) + sum(v for k, v in stats.items() if k.startswith("R_"))
        ctx.coverage["distinct_nontrivial"] = stats.get("orders", 0)
        ctx.coverage["oracle"] = {k: v for k, v in stats.items()}
        ctx.coverage["oracle_failures_in_known_classes"] = {k: len(v) for k, v in hits.items()}
        ctx.oblige("oracle:C09(every element once, membership = containing files, per-file content, load-order independence, "
                   "conflicts rejected; %d cases, %d load orders, %d merged elements)"
                   % (stats.get("cases", 0), stats.get("orders", 0), stats.get("merged_elements", 0)),
                   rc3 == 0 and not unknown and stats.get("orders", 0) > 100, "\n".join(f["line"][:400] for f in unknown[:6]))
        for k, v in hits.items():
            ctx.known("%s  [%d oracle failures in %d cases of this run]" % (known[k]["what"], len(v), len(set(f["case"] for f in v))))
        seen_cases = []
        for f in unknown:
            if f["case"] not in seen_cases:
                seen_cases.append(f["case"])
        for cid in seen_cases[:3]:
            txt, log = minimise_case(avh, cases, cid)
            first = [f["line"] for f in unknown if f["case"] == cid][:4]
            prop_fail.append({"kind": "oracle", "case": cid, "fails": [x[:1000] for x in first], "cases": txt, "files": files_of_case(txt)})
        ctx.samples += [{"case": c, "files": [x["name"] for x in files_of_case(case_text(cases, c))],
                         "bytes": sum(len(x["text"]) for x in files_of_case(case_text(cases, c)))} for c in (0, 1, 2, 3)]
        # ---- C11, load half (own obligation; the known class is printed)
        lh = load_half(ctx, tier, seed, avh=avh, streams=streams, oracle_result=ores)
        ctx.coverage["c11_load"] = {k: v for k, v in lh.items() if k != "violations"}
        for v in lh["violations"]:
            prop_fail.append(v)
        # ---- recorded findings
        replay_findings(ctx, avh, ("C09", "C11"), prop_fail)

    return conclude(ctx, prop_fail, corr_details)


def conclude(ctx, prop_fail, corr_details, is_replay=False):
    if is_replay:
        # a replay does not overwrite the evidence of the last full run
        for o in ctx.obligations:
            if not o[1]:
                print("[replay] FAILED: %s %s" % (o[0], o[2][:1500]))
        print("[replay] %s" % ("the failure reproduces" if ctx.broken else "passes: the failure does not reproduce"))
        return 1 if ctx.broken else 0
    if ctx.broken:
        if prop_fail:
            for pf in prop_fail[:3]:
                ctx.violation({"property": "C09", "kind": "failing-input", **pf, "broken_obligations": ctx.broken,
                               "how_to_replay": "./check C09 --replay <this file>   (or: write the `cases` text to a file and run "
                                                "harness/target/debug/avh merge oracle work/dump <file>)"})
        else:
            ctx.violation({"property": "C09", "kind": "obligation", "broken_obligations": ctx.broken,
                           "correspondence": corr_details,
                           "detail": [o for o in ctx.obligations if not o[1]],
                           "how_to_replay": "./check C09 --replay <this file>  (re-runs the differing script on both sides)"},
                          found_input=False)
    return ctx.finish(
        level="proof",
        rule="masters of <= 8 (quick) / 12 (thorough) elements (packages nested 3 deep, 8 element kinds incl. ECUC values keyed by "
             "DEFINITION-REF, references, name-prefix siblings), every ancestor-closed assignment drawn at random to 2-4 files that splits "
             "only below parents whose ElementType is splittable, permuted siblings in unordered containers, ALL load orders for <= 3 files "
             "(8 sampled for 4), mixed AUTOSAR versions, 6 kinds of conflicting file pairs; plus the generic element-tree history stream "
             "with loads; distinct_nontrivial = load orders whose merged model went through the oracle",
        trusted_base=["Coq 8.16.1 kernel incl. vm_compute", "extraction to OCaml + ocaml/tree_driver.ml (glue: table loading, printing)",
                      "harness/src/tree.rs canonical observation, harness/src/merge.rs oracle (structural keys: item name, DEFINITION-REF, "
                      "ordinal, content digest)", "Xml/Parser.v as the model of the parser (tied by C01/C02/C08)",
                      "ElementType::splittable_in / is_ordered of the specification crate as the meaning of 'splittable' / 'ordered' (C18)"],
        checker_cmd="make -C coq Properties/C09.vo && Print Assumptions per theorem; avh tree run / avm_tree; avh merge oracle",
        assumptions=["every handle ever obtained is kept (weak references upgrade) except load-temporary elements, which the model marks dead",
                     "fewer than 65535 ArxmlFile objects per world (encoding of dead file ids)",
                     "the files of a master are consistent (equal values for shared elements)"])


def run_replay(ctx, avh, obj):
    prop_fail = []
    if obj.get("cases"):
        p = os.path.join(CW, "replay_cases.txt")
        open(p, "w").write(obj["cases"])
        rc, fails, stats, out = oracle(ctx, avh, p)
        print(out[-6000:])
        unknown = [f for f in fails if known_class(f) is None]
        ctx.oblige("replay:oracle", rc == 0 and not unknown, "\n".join(f["line"][:400] for f in unknown[:6]))
        if unknown:
            prop_fail.append({"kind": "oracle", "fails": [f["line"][:1000] for f in unknown[:4]], "cases": obj["cases"]})
    for d in obj.get("correspondence", []) + ([obj] if obj.get("tree_script") else []):
        text = d.get("script_text") or d.get("tree_script")
        if not text:
            continue
        p = os.path.join(CW, "replay_script.txt")
        open(p, "w").write(text)
        impl, model, errs = run_both(avh, "replay", split_scripts(p))
        print("implementation:", impl, "\nmodel:", model)
        ctx.oblige("replay:correspondence", impl == model and impl, str(first_diff_of_script(avh, text)))
        rc, out, _ = lib.harness_run(avh, ["merge", "c11", DUMP, p])
        bad = [l for l in out.split("\n") if l.startswith("C11FAIL") and not ("InvalidFileMerge" in l and " changed=local " in l)]
        ctx.oblige("replay:c11-load", not bad, "\n".join(bad[:4]))
    return conclude(ctx, prop_fail, [], is_replay=True)


def replay(path):
    obj = json.load(open(path))
    print(json.dumps({k: v for k, v in obj.items() if k not in ("cases", "correspondence", "tree_script")}, indent=1)[:3000])
    return run("quick", 1, replay_obj=obj)
