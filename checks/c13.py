"""C13 — deep copy and model duplication are faithful and independent.
Theorems: coq/Properties/C13.v (for every table set).  Tie: the copy / duplicate models (coq/Tree/Ops.v, Copy.v) run
on operation scripts generated online against the real library (`AVH_TREE_ENABLE=dup,serialize`: copy scenarios of
harness/src/copy.rs) and must produce the same result and canonical observation after every operation.  Property oracle
on the implementation: `avh copy oracle` (text equality, findability, freshness of all element objects, version filter
computed from the specification tables, reload of the copy, per-file text of a duplicate, independence of every model
an operation has no handle into)."""
import os, re, json, hashlib, shutil
import concurrent.futures as cf
import lib, xmlcommon, treecommon
from lib import Ctx, WORK, VERIF
from treecommon import DUMP, split_scripts, file_digest

CW = os.path.join(WORK, "c13")
NSHARDS = 8
PID = "C13"

# oracle kinds that are explained by a recorded finding: (kind regex, classes regex) -> key in known_findings.json
KNOWN_RULES = [
    (r"TYPE-KEPT|FILTER-BY-SOURCE-TYPE", None, "C13-copy-keeps-source-type"),
    (r"VALIDATE", r"(.*,)?type-by-parent(,.*)?", "C13-copy-keeps-source-type"),
    (r"VALIDATE", r"(.*,)?enum-text(,.*)?", "C13-copy-enum-text-unfiltered"),
    (r"DUP-TEXT|DUP-ERR", r"(.*,)?version-filter(,.*)?", "C13-dup-version-filter"),
    (r"DUP-TEXT", r"(.*,)?foreign-membership(,.*)?", "C13-dup-foreign-membership"),
    (r"NOT-FINDABLE", r"nameless", "C13-copy-nameless-shortname"),
    (r"VALIDATE", r"(.*,)?name-too-long(,.*)?", "C13-copy-name-too-long"),
    (r"NOT-FINDABLE", r"duplicate-path", "C13-copy-duplicate-path-inherited"),
]


def parse_fail(l):
    d = {"raw": l[:700]}
    m = re.match(r"ORACLE-FAIL script=(\d+) op=(\d+) kind=(\S+)(?: classes=(\S+))?", l)
    if m:
        d["script"], d["op"], d["kind"], d["classes"] = int(m.group(1)), int(m.group(2)), m.group(3), m.group(4)
    return d


def classify(f):
    for kind_re, cls_re, key in KNOWN_RULES:
        if re.fullmatch(kind_re, f.get("kind", "")):
            if cls_re is None:
                return key
            if f.get("classes") and f["classes"] != "-" and re.fullmatch(cls_re, f["classes"]):
                return key
    return None


def batch(avh, avm, seed, tier, enable, nscripts, tag, with_model):
    """generate `nscripts` scripts in shards; run implementation (+ model) and the C13 oracle; cached by binary digests"""
    os.makedirs(CW, exist_ok=True)
    key = hashlib.sha256(("%s|%s|%s|%s|%s|%d|%s|%s" % (file_digest([avh] + ([avm] if with_model else [])),
                                                         file_digest([os.path.join(DUMP, "spec_tables.txt")]),
                                                         seed, tier, enable, nscripts, tag, with_model)).encode()).hexdigest()[:24]
    cdir = os.path.join(CW, "cache-" + key)
    meta = os.path.join(cdir, "result.json")
    if os.path.exists(meta):
        return json.load(open(meta))
    olds = sorted((d for d in os.listdir(CW) if d.startswith("cache-")), key=lambda d: os.path.getmtime(os.path.join(CW, d)))
    for d in olds[:-6]:
        shutil.rmtree(os.path.join(CW, d), ignore_errors=True)
    os.makedirs(cdir, exist_ok=True)
    per = max(1, nscripts // NSHARDS)
    env = {"AVH_TREE_ENABLE": enable}

    def shard(i):
        sf = os.path.join(cdir, "s%d.txt" % i)
        r = {"shard": i, "script_file": sf}
        rc, out, _ = lib.run([avh, "tree", "gen", DUMP, str(seed * 1000 + i), tier, sf, str(per)], cwd=cdir, env=env, timeout=1500)
        r["gen_stats"] = [l for l in out.split("\n") if l.startswith("STAT")]
        if rc != 0 or not os.path.exists(sf):
            r["error"] = "generator failed: " + out[-400:]
            return r
        if with_model:
            rc1, o1, _ = lib.run([avh, "tree", "run", DUMP, sf], cwd=cdir, timeout=2400)
            rc2, o2, _ = lib.run([avm, DUMP, sf], cwd=cdir, timeout=2400)
            a = [l for l in o1.split("\n") if l.startswith("S ")]
            b = [l for l in o2.split("\n") if l.startswith("S ")]
            r["n"] = len(a)
            r["lines"] = sum(int(re.search(r"lines=(\d+)", l).group(1)) for l in a)
            bm = {l.split()[1]: l for l in b}
            r["mismatch"] = [int(l.split()[1]) for l in a if bm.get(l.split()[1]) != l]
            if len(a) != len(b) or not a:
                r["error"] = "model runner produced %d script results, implementation %d: %s" % (len(b), len(a), o2[-300:])
        rc3, o3, _ = lib.run([avh, "copy", "oracle", DUMP, sf], cwd=cdir, timeout=2400)
        r["fails"] = [l for l in o3.split("\n") if l.startswith("ORACLE-FAIL")]
        r["oracle_stat"] = [l for l in o3.split("\n") if l.startswith("STAT")]
        if rc3 != 0 or not r["oracle_stat"]:
            r["error"] = "oracle run failed: " + o3[-300:]
        return r

    with cf.ThreadPoolExecutor(max_workers=NSHARDS) as ex:
        shards = list(ex.map(shard, range(NSHARDS)))
    res = {"cdir": cdir, "shards": shards}
    json.dump(res, open(meta, "w"))
    return res


def oracle_on(avh, script_text, name):
    os.makedirs(CW, exist_ok=True)
    p = os.path.join(CW, name)
    open(p, "w").write(script_text)
    _, o, _ = lib.run([avh, "copy", "oracle", DUMP, p], cwd=CW, timeout=600)
    return [parse_fail(l) for l in o.split("\n") if l.startswith("ORACLE-FAIL")], o


def minimise(avh, kind, script_text, budget=40):
    """greedy removal of operations while the oracle still reports an unexplained failure of this kind"""
    lines = script_text.split("\n")
    head = [l for l in lines if l and not l.startswith("OP")]
    ops = [l for l in lines if l.startswith("OP")]

    def fails(ops_):
        fl, _ = oracle_on(avh, "\n".join(head + ops_) + "\n", "min.txt")
        return any(f.get("kind") == kind and classify(f) is None for f in fl)

    if not fails(ops):
        return None
    i = len(ops)
    while i > 1 and budget > 0 and fails(ops[:i - 1]):
        i -= 1
        budget -= 1
    ops = ops[:i]
    j = len(ops) - 2
    while j >= 0 and budget > 0:
        cand = ops[:j] + ops[j + 1:]
        budget -= 1
        if fails(cand):
            ops = cand
        j -= 1
    return "\n".join(head + ops) + "\n"


def sum_stats(shards, field="oracle_stat"):
    tot = {}
    for s in shards:
        for l in s.get(field, []):
            m = re.match(r"STAT (\w+)=(\d+)$", l)
            if m:
                tot[m.group(1)] = tot.get(m.group(1), 0) + int(m.group(2))
    return tot


def run(tier, seed):
    ctx = Ctx(PID, tier, seed)
    translated, info = xmlcommon.translate_all(ctx)
    # ---------------------------------------------------------------- theorems
    ctx.log("building Properties/C13.vo")
    ok, out, dt = lib.coq_make(["Properties/C13.vo"])
    if not ok:
        ctx.oblige("coq:build-closure", False, "failed files: %s\n%s" % (lib.coq_failed_files(out), out[-1200:]))
    else:
        ctx.oblige("coq:build-closure", True)
        lib.coq_hygiene(ctx, lib.closure_of("Properties/C13.vo"))
        lib.check_theorems(ctx, "Properties/C13.v", "pins/C13.json")
    ctx.log("coq done (%.0fs)" % dt)
    # ---------------------------------------------------------------- binaries
    avh = lib.harness_build(ctx)
    avm = treecommon.build_model_runner(ctx) if translated else None
    unknown, known_hit, candidates = [], {}, []
    known_entries = {e["key"]: e for e in lib.load_known(PID)}
    if avh and avm:
        # ------------------------------------------------------------ correspondence + oracle on the copy / duplicate stream
        n1 = 4000 if tier == "thorough" else 560
        ctx.log("binaries ready; correspondence batch (%d scripts)" % n1)
        res = batch(avh, avm, seed, tier, "dup,serialize", n1, "corr", True)
        ctx.log("correspondence batch done")
        shards = res["shards"]
        errs = [s["error"] for s in shards if s.get("error")]
        nscr = sum(s.get("n", 0) for s in shards)
        nlines = sum(s.get("lines", 0) for s in shards)
        mism = [(s["shard"], k) for s in shards for k in s.get("mismatch", [])]
        detail = ""
        if mism:
            sh, k = mism[0]
            txt = split_scripts(shards[sh]["script_file"]).get(k, "")
            d = treecommon.first_diff(avh, avm, txt, "diff_C13.txt")
            detail = "script %d of shard %d: %s" % (k, sh, json.dumps(d))
            ctx.notes.append({"first_model_vs_impl_difference": d, "script": txt[:6000]})
            candidates += [("correspondence", split_scripts(shards[s_]["script_file"]).get(k_, "")) for s_, k_ in mism[:4]]
        ctx.oblige("correspondence:copy+duplicate histories (implementation vs extracted Coq model, %d scripts, %d observation lines, "
                   "per-file serialized text included)" % (nscr, nlines), not errs and not mism and nscr > 0, ("; ".join(errs))[:600] + detail)
        # ------------------------------------------------------------ oracle-only stream with loaded documents (nameless SHORT-NAME)
        n2 = 1600 if tier == "thorough" else 240
        # when the first stream already shows an unexplained failure (or blocks), go straight to the report
        early = [f for s in shards for f in map(parse_fail, s.get("fails", [])) if classify(f) is None]
        blocked = any(re.match(r"STAT hung_(generations|scripts)=[1-9]", l) for s in shards for l in s.get("gen_stats", []) + s.get("oracle_stat", []))
        if early or mism or blocked:
            res2 = {"shards": []}
            ctx.notes.append("second (load) stream skipped: the first stream already fails")
        else:
            res2 = batch(avh, avm, seed + 17, tier, "dup,serialize,load", n2, "oracle", False)
        ctx.log("oracle batch done")
        errs2 = [s["error"] for s in res2["shards"] if s.get("error")]
        all_shards = [(s, "corr") for s in shards] + [(s, "oracle") for s in res2["shards"]]
        fails = []
        for s, tag in all_shards:
            for l in s.get("fails", []):
                f = parse_fail(l)
                f["shard_file"] = s["script_file"]
                fails.append(f)
        for f in fails:
            key = classify(f)
            if key and key in known_entries and known_entries[key]["status"] == "known":
                known_hit.setdefault(key, f)
            else:
                unknown.append(f)
        ost = sum_stats([s for s, _ in all_shards])
        opstats = {}
        for s, _ in all_shards:
            for l in s.get("gen_stats", []):
                m = re.match(r"STAT op=(\S+) ok=(\d+) err=(\d+)", l)
                if m:
                    a = opstats.setdefault(m.group(1), [0, 0])
                    a[0] += int(m.group(2))
                    a[1] += int(m.group(3))
        ctx.coverage["operation_mix_ok_err"] = opstats
        ctx.coverage["oracle_counts"] = ost
        ctx.coverage["evaluations"] = ost.get("independence_checks", 0) + ost.get("copies_ok", 0) + ost.get("copies_err", 0) + ost.get("duplicates_ok", 0)
        ctx.coverage["distinct_nontrivial"] = ost.get("copies_ok", 0) + ost.get("duplicates_ok", 0)
        ctx.coverage["traces_validated_against_impl"] = nscr
        ctx.coverage["observation_lines_compared"] = nlines
        ctx.coverage["oracle_failures_total"] = len(fails)
        ctx.coverage["oracle_failures_explained_by_known_findings"] = len(fails) - len(unknown)
        ctx.oblige("oracle:streams ran (%d scripts, %d successful copies, %d duplicates, %d cross-version copies, %d reload checks, "
                   "%d copy-is-in-the-destination's-files checks, copies of sources with an own file set: %d inside the model, %d into another model, %d copies inside one model between files of different versions)"
                   % (ost.get("scripts", 0), ost.get("copies_ok", 0), ost.get("duplicates_ok", 0), ost.get("cross_version_copies", 0),
                      ost.get("validation_checks", 0), ost.get("copy_in_file_checks", 0),
                      ost.get("copies_of_restricted_source_same_model", 0), ost.get("copies_of_restricted_source_other_model", 0),
                      ost.get("copies_same_model_other_version", 0)),
                   not errs2 and ost.get("copies_ok", 0) > 50 and ost.get("duplicates_ok", 0) > 20 and ost.get("cross_version_copies", 0) > 10
                   and (bool(early or mism or blocked) or (ost.get("copies_of_restricted_source_same_model", 0) > 5
                                                           and ost.get("copies_of_restricted_source_other_model", 0) > 5
                                                           and ost.get("copies_same_model_other_version", 0) > 5)),
                   "; ".join(errs2)[:400])
        hung_gen = sum(int(m.group(1)) for s, _ in all_shards for l in s.get("gen_stats", []) for m in [re.match(r"STAT hung_generations=(\d+)", l)] if m)
        ctx.oblige("oracle:no copy / duplicate history blocks (hung generations %d, hung oracle scripts %d)" % (hung_gen, ost.get("hung_scripts", 0)),
                   hung_gen == 0 and ost.get("hung_scripts", 0) == 0)
        sc0 = split_scripts(shards[0]["script_file"]) if os.path.exists(shards[0]["script_file"]) else {}
        for k0 in sorted(sc0)[1:3]:
            ctx.samples.append({"script": [l for l in sc0[k0].split("\n") if l.startswith("OP")][:16]})
        # ------------------------------------------------------------ known findings: replay
        fs = os.path.join(CW, "findings_stream.txt")
        rc, o, _ = lib.run([avh, "copy", "findings", DUMP, fs], cwd=CW, timeout=300)
        constructible = rc == 0 and "NOT-CONSTRUCTIBLE" not in o
        ctx.oblige("findings:scripts of the recorded findings can be built against the current tables", constructible, o[-400:])
        if rc == 0:
            fl, oo = oracle_on(avh, open(fs).read(), "findings_run.txt")
            # the model follows the implementation on them too
            _, o1, _ = lib.run([avh, "tree", "run", DUMP, fs], cwd=CW, timeout=300)
            _, o2, _ = lib.run([avm, DUMP, fs], cwd=CW, timeout=300)
            a = [l for l in o1.split("\n") if l.startswith("S ")]
            b = [l for l in o2.split("\n") if l.startswith("S ")]
            ctx.oblige("correspondence:finding scripts (%d)" % len(a), a == b and len(a) > 0, str([(x, y) for x, y in zip(a, b) if x != y][:2]))
            for key, e in sorted(known_entries.items()):
                k = e.get("match", {}).get("script")
                mine = [f for f in fl if f.get("script") == k]
                if e["status"] == "fixed":
                    ctx.oblige("regression:%s stays fixed" % key, not mine, "; ".join(f["raw"] for f in mine)[:500])
                    if mine:
                        candidates.append(("regression of " + key, split_scripts(fs).get(k, "")))
                else:
                    still = [f for f in mine if classify(f) == key]
                    if still:
                        known_hit.setdefault(key, still[0])
                    else:
                        ctx.notes.append("known finding %s no longer reproduces (a fix landed?)" % key)
                    # anything else the finding script shows is not covered by the finding
                    unknown += [dict(f, shard_file=fs) for f in mine if classify(f) is None]
        ctx.log("known findings replayed")
        # ------------------------------------------------------------ unexplained oracle failures: confirm, minimise
        confirmed, seen = [], set()
        for f in unknown:
            kk = (f.get("kind"), f.get("classes"))
            if kk in seen or len(confirmed) >= 5:
                continue
            seen.add(kk)
            txt = split_scripts(f["shard_file"]).get(f.get("script", -1), "")
            if not txt:
                continue
            again, _ = oracle_on(avh, txt, "confirm.txt")
            again = [g for g in again if g.get("kind") == f.get("kind") and classify(g) is None]
            if again:
                # no minimisation when histories block: every probe would cost a timeout
                small = txt if blocked else (minimise(avh, f["kind"], txt) or txt)
                confirmed.append((f, small, again[0]["raw"]))
        # a broken correspondence: look for a property failure on the disagreeing scripts first
        for why, txt in candidates:
            if not txt or len(confirmed) >= 5:
                continue
            fl, _ = oracle_on(avh, txt, "cand.txt")
            bad = [g for g in fl if classify(g) is None]
            if bad and (bad[0].get("kind"), bad[0].get("classes")) not in seen:
                seen.add((bad[0].get("kind"), bad[0].get("classes")))
                confirmed.append((bad[0], txt if blocked else (minimise(avh, bad[0]["kind"], txt) or txt), bad[0]["raw"]))
        ctx.oblige("oracle:C13 holds on the implementation for every generated history (modulo known findings)", not confirmed,
                   "; ".join(c[2] for c in confirmed)[:900])
        ctx.coverage["oracle_failures_unknown"] = len(unknown)
        for key in sorted(known_hit):
            ctx.known(known_entries[key]["what"][:300] + "  [" + key + "]")
        for f, small, line in confirmed:
            ctx.violation({"property": PID, "kind": "failing-history", "oracle_line": line, "script": small.split("\n"),
                           "broken_obligations": ctx.broken,
                           "how_to_replay": "./check C13 --replay <this file>   (or: save `script` one line each to f.txt; "
                                            "harness/target/debug/avh copy oracle work/dump f.txt ; avh tree run work/dump f.txt -v)"}, tag="hist")
    if ctx.broken and not ctx.violations:
        ctx.violation({"property": PID, "kind": "obligation", "broken_obligations": ctx.broken,
                       "detail": [o for o in ctx.obligations if not o[1]][:6], "notes": ctx.notes[:3]}, found_input=False)
    return ctx.finish(
        level="proof",
        rule="operation scripts generated online against the real library (seeded SplitMix64): the generic element-tree operations plus, in "
             "every second script, one of 8 copy/duplicate scenarios (cross-version copies new->old and old->new of elements grown with "
             "version-dependent sub-elements / attributes / enum values, name clashes with pre-occupied suffixes, packages with internal and "
             "external references copied within and across models, copies of ancestors / of the element itself / into text elements, comments "
             "and mixed content, an element name whose type depends on the parent, multi-file models of equal and different versions with "
             "explicit file membership, duplicates followed by random edits of either side); a second stream adds loaded documents "
             "(<SHORT-NAME/>). evaluations = oracle judgements (independence of every untouched model after every operation + copies + "
             "duplicates); distinct_nontrivial = successful copies + duplicates; traces_validated_against_impl = scripts whose every "
             "observation line (incl. per-file serialized text) agrees between implementation and extracted Coq model.",
        trusted_base=["Coq 8.16.1 kernel incl. vm_compute", "translator (spec tables, names, regex tables copied; lengths asserted)",
                      "extraction (ExtrOcamlBasic only) + ocaml/tree_driver.ml (script parsing, printing)",
                      "harness/src/tree.rs + copy.rs (implementation side; the oracle states the property on public API observations and "
                      "computes the version filter from the specification crate's tables independently of deep_copy)",
                      "hand-written models coq/Tree/{Heap,Ops,Script,Script2,Serialize,Copy}.v tied by this correspondence",
                      "Closed w (allocation discipline) is a hypothesis of the theorems; it follows from C03's Core (C13_closed_of_core)"],
        checker_cmd="make -C coq Properties/C13.vo && Print Assumptions per theorem (checks/lib.py:check_theorems)",
        assumptions=["all handles are retained by the client (no Weak reference ever fails to upgrade)",
                     "single-threaded execution (locks are a separate layer, C12/C15/C16)",
                     "known findings (type kept from the source parent, enum text unfiltered, nameless SHORT-NAME, duplicate filters by "
                     "the smallest file version, foreign file membership) are excluded by the hypotheses AllValidIn / TypeAgrees of the "
                     "positive theorems and witnessed by the _refuted theorems"])


def replay(path):
    """re-runs a recorded failing history (or a recorded finding) on the implementation oracle and on the model"""
    obj = json.load(open(path))
    ctx = Ctx(PID, "quick", 1)
    xmlcommon.translate_all(ctx)
    avh = lib.harness_build(ctx)
    avm = treecommon.build_model_runner(ctx)
    if not avh:
        print("harness does not build")
        return 1
    os.makedirs(CW, exist_ok=True)
    if "script" in obj:
        txt = "\n".join(obj["script"]) + "\n"
        want = None
    else:
        fs = os.path.join(CW, "findings_stream.txt")
        lib.run([avh, "copy", "findings", DUMP, fs], cwd=CW, timeout=300)
        txt = split_scripts(fs).get(obj.get("script_index_in_findings_stream", -1), "")
        want = obj.get("key")
    fl, out = oracle_on(avh, txt, "replay.txt")
    for f in fl:
        print(f["raw"])
    if avm:
        p = os.path.join(CW, "replay.txt")
        _, o1, _ = lib.run([avh, "tree", "run", DUMP, p], cwd=CW, timeout=300)
        _, o2, _ = lib.run([avm, DUMP, p], cwd=CW, timeout=300)
        a = [l for l in o1.split("\n") if l.startswith("S ")]
        b = [l for l in o2.split("\n") if l.startswith("S ")]
        print("correspondence: %s" % ("agrees" if a == b else "DIFFERS %s" % json.dumps(treecommon.first_diff(avh, avm, txt, "replay_diff.txt"))))
    else:
        a = b = []
    bad = [f for f in fl if (classify(f) is None if want is None else classify(f) == want)]
    print("replay: %d oracle failures, %d %s" % (len(fl), len(bad), "unexplained" if want is None else "of the recorded class"))
    return 1 if (bad or a != b) else 0
