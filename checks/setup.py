"""MANIFEST.setup_cmd: build everything the checks need from files on disk (offline)."""
import os, sys, glob
sys.path.insert(0, os.path.dirname(os.path.abspath(__file__)))
sys.path.insert(0, os.path.join(os.path.dirname(os.path.dirname(os.path.abspath(__file__))), "translator"))
import lib


def main():
    ctx = lib.Ctx("SETUP", "quick", 0)
    import run_all
    try:
        print(run_all.dump_all(os.path.join(lib.WORK, "dump")))
    except Exception as ex:
        print("translator failed during setup: %r (the checks will report it)" % ex)
    try:
        import xmlcommon
        xmlcommon.translate_all(ctx)      # also writes Gen/XmlVexprs.v and the regex DFA dump the model runners load
    except Exception as ex:
        print("xml translator step failed during setup: %r (the checks will report it)" % ex)
    props = sorted(os.path.relpath(p, lib.COQ)[:-2] + ".vo" for p in glob.glob(os.path.join(lib.COQ, "Properties", "C*.v")))
    ok, out, dt = lib.coq_make(props, timeout=3400)
    print("coq build ok=%s in %.0fs" % (ok, dt))
    if not ok:
        print(out[-3000:])
    avh = lib.harness_build(ctx, hooks=False)
    print("harness:", avh)
    for sh in sorted(glob.glob(os.path.join(lib.VERIF, "ocaml", "build*.sh"))):
        rc, out, dt = lib.run([sh], timeout=1800)
        print("model runner %s rc=%d (%.0fs) %s" % (os.path.basename(sh), rc, dt, out[-500:] if rc else ""))
    # the hook build of the harness (lock shim, index dumps) is needed by C12/C15/C16
    if os.path.exists(os.path.join(lib.VERIF, "checks", "locks_common.py")):
        avh2 = lib.harness_build(ctx, hooks=True)
        print("harness+hooks:", avh2)
    return 0


if __name__ == "__main__":
    sys.exit(main())
