"""MANIFEST.setup_cmd: build everything the checks need from files on disk (offline)."""
import os, sys, glob
sys.path.insert(0, os.path.dirname(os.path.abspath(__file__)))
sys.path.insert(0, os.path.join(os.path.dirname(os.path.dirname(os.path.abspath(__file__))), "translator"))
import lib


def main():
    ctx = lib.Ctx("SETUP", "quick", 0)
    import run_all
    try:
        print(run_all.dump_all(os.path.join(lib.WORK, "dump")))
    except Exception as ex:
        print("translator failed during setup: %r (the checks will report it)" % ex)
    props = sorted(os.path.relpath(p, lib.COQ)[:-2] + ".vo" for p in glob.glob(os.path.join(lib.COQ, "Properties", "C*.v")))
    ok, out, dt = lib.coq_make(props, timeout=3400)
    print("coq build ok=%s in %.0fs" % (ok, dt))
    if not ok:
        print(out[-3000:])
    avh = lib.harness_build(ctx, hooks=False)
    print("harness:", avh)
    rc, out, dt = lib.run([os.path.join(lib.VERIF, "ocaml", "build.sh")], timeout=900)
    print("model runner rc=%d %s" % (rc, out[-500:] if rc else ""))
    return 0


if __name__ == "__main__":
    sys.exit(main())
