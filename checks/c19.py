"""C19 — pattern validators accept exactly the language of their published regex."""
import os, json, re
import lib
from lib import Ctx, WORK, VERIF


def model_eval(ctx, kinds, cases):
    """cases: list of (n, bytes). Evaluates the validator model AND matchb of the regex inside Coq (vm_compute).
    returns dict (n, hex) -> (model verdict '0'|'1'|'P', regex verdict '0'|'1')"""
    by_n = {}
    for n, b in cases:
        by_n.setdefault(n, []).append(b)
    ns = sorted(by_n)
    shards = [ns[i::8] for i in range(8)]
    res = {}
    import concurrent.futures as cf

    def one(k, group):
        if not group:
            return {}
        t = "From AV Require Import Base.Bytes Regex.Regex Regex.Bisim Regex.Syntax Regex.Vexpr.\nFrom AV.Gen Require Import RegexData.\nOpen Scope N_scope.\n"
        t += "Set Printing Depth 1000000.\nSet Printing Width 200.\n"
        t += "Definition o2n (o : option bool) : N := match o with Some true => 1 | Some false => 0 | None => 2 end.\n"
        t += "Definition b2n (b : bool) : N := if b then 1 else 0.\n"
        for n in group:
            f = ("dfa_run tbl_%d acc_%d s" % (n, n)) if kinds[n] == "dfa" else ("veval v_%d s" % n)
            t += 'Goal True. idtac "@@N %d". Abort.\n' % n
            # several Evals of at most 800 strings / 250 kB each: one list literal of some MB overflows coqc's stack
            items = ["[" + ";".join(str(x) for x in b) + "]" for b in by_n[n]]
            i = 0
            while i < len(items):
                j, size = i, 0
                while j < len(items) and j - i < 800 and (j == i or size + len(items[j]) < 250000):
                    size += len(items[j]) + 2
                    j += 1
                t += "Eval vm_compute in map (fun s => (o2n (%s), b2n (matchb (rx_sem rx_%d) s))) [%s].\n" % (f, n, "; ".join(items[i:j]))
                i = j
        rc, out, dt = lib.coq_eval("c19_cases_%d" % k, t, timeout=900)
        r = {}
        if rc != 0:
            return {"error": out[-600:]}
        for chunk in out.split("@@N ")[1:]:
            n = int(chunk.split("\n", 1)[0])
            pairs = re.findall(r"\(\s*(\d+),\s*(\d+)\)", chunk)
            if len(pairs) != len(by_n[n]):
                return {"error": "validator %d: %d results for %d cases" % (n, len(pairs), len(by_n[n]))}
            for b, (m, x) in zip(by_n[n], pairs):
                r[(n, bytes(b).hex())] = ({"0": "0", "1": "1", "2": "P"}[m], x)
        return r

    with cf.ThreadPoolExecutor(max_workers=8) as ex:
        futs = [ex.submit(one, k, g) for k, g in enumerate(shards)]
        for f in futs:
            r = f.result()
            if "error" in r:
                return None, r["error"]
            res.update(r)
    return res, ""


def coq_counterexample(ctx, n, kind):
    """shortest string on which validator model and regex differ, computed by the (untrusted) explorer"""
    t = "From AV Require Import Base.Bytes Regex.Regex Regex.Bisim Regex.Syntax Regex.Vexpr.\nFrom AV.Gen Require Import RegexData.\n"
    if kind == "dfa":
        t += "Eval vm_compute in cex_dfa (N.to_nat 400000) tbl_%d acc_%d (rx_sem rx_%d).\n" % (n, n, n)
    else:
        t += "Eval vm_compute in cex_rr (N.to_nat 400000) (rx_sem rx_%d) (vregex v_%d).\n" % (n, n)
    rc, out, dt = lib.coq_eval("c19_cex_%d" % n, t, timeout=600)
    m = re.search(r"Some \(Some\s*\[([0-9;\s]*)\]\)", out)
    if rc == 0 and m:
        return [int(x) for x in re.findall(r"\d+", m.group(1))]
    return None


def run(tier, seed):
    ctx = Ctx("C19", tier, seed)
    dump = os.path.join(WORK, "dump")
    import names, spec, regexes
    info = {}

    def t_spec():
        ninfo = names.translate_names()
        names.dump_text(ninfo, dump)
        d = spec.translate_spec(ninfo)
        spec.dump_spec_text(d, dump)
        info["spec"] = d
        return True

    def t_regex():
        info["rx"] = regexes.translate_regexes(info["spec"])
        return True

    tr = lib.translate(ctx, [("spec-tables(pattern entries)", t_spec), ("regex.rs(tables, accepting sets, bodies, texts)", t_regex)])
    rx = info.get("rx")
    kinds = rx["kinds"] if rx else {}

    ctx.log("building Properties/C19.vo")
    ok, out, dt = lib.coq_make(["Properties/C19.vo"])
    failed_validators = []
    if not ok:
        failed = lib.coq_failed_files(out)
        failed_validators = sorted(set(int(m) for f in failed for m in re.findall(r"RegexCert(\d+)", f)))
        ctx.oblige("coq:build-closure", False, "failed files: %s\n%s" % (failed, out[-800:]))
    else:
        ctx.oblige("coq:build-closure", True)
        lib.coq_hygiene(ctx, lib.closure_of("Properties/C19.vo"))
        lib.check_theorems(ctx, "Properties/C19.v", "pins/C19.json")
    ctx.log("coq done (%.0fs)" % dt)

    avh = lib.harness_build(ctx)
    prop_fail = []
    if avh and os.path.exists(os.path.join(dump, "regex_texts.txt")):
        # ---- direct oracle on the implementation: check_fn vs the published text under the regex crate
        rc, out, dt = lib.harness_run(avh, ["regex", "sweep", dump, str(seed), tier, os.path.join(VERIF, "corpus", "regex_members.txt")])
        stats = [l for l in out.split("\n") if l.startswith("STAT")]
        dis = [l for l in out.split("\n") if l.startswith("DISAGREE")]
        samples = [l.split() for l in out.split("\n") if l.startswith("SAMPLE")]
        evals = sum(int(re.search(r"evaluations=(\d+)", l).group(1)) for l in stats)
        accepted = sum(int(re.search(r"accepted=(\d+)", l).group(1)) for l in stats)
        ctx.coverage["evaluations"] = evals
        ctx.coverage["accepted_by_regex"] = accepted
        ctx.coverage["per_validator"] = stats
        ctx.oblige("oracle:check_fn vs published regex (regex crate, bytes mode) on exhaustive short strings + grown members",
                   rc == 0 and len(stats) >= 28 and not dis, "\n".join(dis[:6]) or out[-400:])
        prop_fail += dis
        # ---- correspondence: implementation vs Coq model (and vs matchb of the regex) on the sampled strings
        if ok and rx:
            cases = []
            impl = {}
            for s in samples:
                n = int(s[1])
                hx = s[2] if len(s) >= 4 else ""
                verdict = s[-1]
                impl[(n, hx)] = verdict
            cases = [(n, list(bytes.fromhex(hx))) for (n, hx) in impl]
            # the replays of every recorded finding run through the model too
            for e in lib.load_known("C19"):
                r = json.load(open(os.path.join(VERIF, e["replay"])))
                for hx in r["inputs_hex"]:
                    cases.append((r["validator"], list(bytes.fromhex(hx))))
            res, err = model_eval(ctx, kinds, cases)
            if res is None:
                ctx.oblige("correspondence:validators(model evaluation)", False, err)
            else:
                diff = [(k, impl[k], res[k]) for k in impl if impl[k] != res[k][0]]
                ctx.oblige("correspondence:validators(impl check_fn vs Coq model by vm_compute, %d strings)" % len(impl),
                           not diff, str(diff[:5]))
                ctx.coverage["traces_validated_against_impl"] = len(impl)
                ctx.coverage["distinct_nontrivial"] = len([k for k in impl if impl[k] == "1"])
                ctx.samples += [{"validator": k[0], "input_hex": k[1], "impl": impl[k], "model": res[k][0], "regex": res[k][1]}
                                for k in list(impl)[:8]]
                for k, a, b in diff[:5]:
                    if b[1] != a:   # implementation differs from the regex itself: a property failure
                        prop_fail.append("DISAGREE %d %s validator=%s regex(matchb)=%s" % (k[0], k[1], a, b[1]))
        # ---- known findings: replay (fixed entries must pass; a returning failure is a violation)
        for e in lib.load_known("C19"):
            r = json.load(open(os.path.join(VERIF, e["replay"])))
            p = os.path.join(WORK, "c19_replay.txt")
            open(p, "w").write("".join("%d %s\n" % (r["validator"], hx) for hx in r["inputs_hex"]))
            rc, out, _ = lib.harness_run(avh, ["regex", "eval", dump, p])
            bad = [l for l in out.split("\n") if l and l.split()[-2:][0] != l.split()[-1]]
            if e["status"] == "fixed":
                ctx.oblige("regression:%s" % e["key"], rc == 0 and not bad, "failure is back: %s" % bad[:3])
                if bad:
                    prop_fail.append("DISAGREE (regression of %s) %s" % (e["key"], bad[0]))
            elif bad:
                ctx.known(e["what"])
        # ---- failing-input search for broken certificates: shortest witness from the model, confirmed on the implementation
        for n in failed_validators:
            if n in kinds:
                w = coq_counterexample(ctx, n, kinds[n])
                if w is not None:
                    p = os.path.join(WORK, "c19_cex.txt")
                    open(p, "w").write("%d %s\n" % (n, bytes(w).hex()))
                    rc, out, _ = lib.harness_run(avh, ["regex", "eval", dump, p])
                    f = out.split()
                    if rc == 0 and len(f) >= 4 and f[-2] != f[-1]:
                        prop_fail.append("DISAGREE %d %s validator=%s regex=%s (witness from the Coq model)" % (n, bytes(w).hex(), f[-2], f[-1]))

    if ctx.broken:
        if prop_fail:
            ctx.violation({"property": "C19", "kind": "failing-input", "what": prop_fail[:20],
                           "format": "DISAGREE <validator n> <input hex> validator=<verdict> regex=<verdict>",
                           "broken_obligations": ctx.broken,
                           "how_to_replay": "echo '<n> <hex>' > f; harness/target/debug/avh regex eval work/dump f   (columns: n hex impl regex)"})
        else:
            ctx.violation({"property": "C19", "kind": "obligation", "broken_obligations": ctx.broken,
                           "detail": [o for o in ctx.obligations if not o[1]]}, found_input=False)
    return ctx.finish(
        level="proof",
        rule="per validator: all strings up to the printed length over one representative byte per block of the partition induced by the "
             "regex's literals and classes (+1 outsider block), corpus members, and 30k (quick) random edits of members incl. length-boundary "
             "repeats; distinct_nontrivial = sampled strings accepted by the implementation that went through the Coq model",
        trusted_base=["Coq 8.16.1 kernel incl. vm_compute", "Regex/Syntax.v rx_sem as the meaning of the published text (Rust regex, bytes mode)",
                      "translator/regexes.py (tables/accepting sets copied; hand-written bodies pinned textually; regex parser NOT trusted: printer check in Coq)",
                      "regex crate 1.x as oracle for the failing-input search only"],
        checker_cmd="make -C coq Properties/C19.vo && Print Assumptions per theorem",
        assumptions=["validators are reached through CharacterDataSpec::Pattern{check_fn} of element and attribute specs",
                     "hand-written validators: the vexpr model mirrors the pinned Rust text (tied by correspondence)"])


def replay(path):
    print(open(path).read())
    return run("quick", 1)
