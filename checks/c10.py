"""C10 — file membership is consistent: nothing lost on write, files self-contained.
Coq theorems over the tree model (coq/Properties/C10.v: filter = effective membership, nothing lost, invariant preserved
by the operations, refutations of the defect classes), tied to the code by
  * the generic tree-history correspondence with per-file serialized text digests (checks/treecommon.py),
  * a file-heavy correspondence batch (harness/src/files.rs `gen`): 1-4 files of equal/different versions, packages and
    elements spread over files, removal of files in every order, re-adding removed files, cross-model moves,
  * the direct oracle on the implementation (harness/src/files.rs `oracle`, public API only, after EVERY operation):
    membership within model.files() and within the parent's set, every element in >= 1 file, per file
    elements_dfs() = attributed elements = element tags of serialize() and the text loads on its own, remove_file exact."""
import os, re, json
import lib, treecommon
from lib import WORK, VERIF
from treecommon import DUMP, TW


def parse_oracle(out):
    """-> (stats dict, list of (word, header line, script text))"""
    stats, events = {}, []
    lines = out.split("\n")
    i = 0
    scripts = {}
    while i < len(lines):
        l = lines[i]
        if l.startswith("STAT "):
            for kv in l[5:].split():
                if "=" in kv:
                    k, v = kv.split("=", 1)
                    try:
                        stats[k] = stats.get(k, 0) + int(v)
                    except ValueError:
                        pass
        elif l.startswith(("VIOLATIONLINE", "KNOWNLINE", "PANICLINE", "HANGLINE")):
            events.append(l)
        elif l.startswith("SCRIPTBEGIN "):
            k = l.split()[1]
            j = i + 1
            body = []
            while j < len(lines) and not lines[j].startswith("SCRIPTEND"):
                body.append(lines[j])
                j += 1
            scripts[k] = "\n".join(body) + "\n"
            i = j
        i += 1
    res = []
    for e in events:
        m = re.search(r"script=(\d+)", e)
        res.append((e.split()[0], e, scripts.get(m.group(1), "") if m else ""))
    return stats, res


def field(line, name):
    m = re.search(r"\b%s=(\S+)" % name, line)
    return m.group(1) if m else ""


def replay_script(avh, text, name):
    p = os.path.join(TW, name)
    open(p, "w").write(text)
    rc, out, _ = lib.run([avh, "files", "replay", DUMP, p], cwd=TW, timeout=300)
    return [l for l in out.split("\n") if l.startswith(("VIOLATIONLINE", "KNOWNLINE", "PANICLINE", "HANGLINE", "PASSLINE"))]


def minimise(avh, text, kind, budget=60):
    """greedy removal of operations (handles are renumbered by a removal: a candidate is kept only if the same check fails)"""
    head = [l for l in text.split("\n") if l and not l.startswith("OP")]
    ops = [l for l in text.split("\n") if l.startswith("OP")]

    def fails(ops_):
        ls = replay_script(avh, "\n".join(head + ops_) + "\n", "c10_min.txt")
        return any(l.startswith("VIOLATIONLINE") and ("kind=%s " % kind) in l + " " for l in ls)

    if not fails(ops):
        return text
    j = len(ops) - 2
    while j >= 0 and budget > 0:
        cand = ops[:j] + ops[j + 1:]
        budget -= 1
        if fails(cand):
            ops = cand
        j -= 1
    return "\n".join(head + ops) + "\n"


def extra(ctx, avh, avm, tier, seed):
    os.makedirs(TW, exist_ok=True)
    known = {e["match"].get("oracle_key"): e for e in lib.load_known("C10") if e.get("match", {}).get("stream") == "files"}
    # ---- 1. file-heavy correspondence: implementation vs extracted Coq model (no load / duplicate: not modelled here)
    n = 400 if tier == "thorough" else 64
    sf = os.path.join(TW, "c10_files_scripts.txt")
    rc, out, _ = lib.run([avh, "files", "gen", DUMP, str(seed), tier, sf, str(n)], cwd=TW, timeout=1800, env={"AVH_FILES_ENABLE": ""})
    ok_gen = rc == 0 and os.path.exists(sf)
    if ok_gen:
        rc1, o1, _ = lib.run([avh, "tree", "run", DUMP, sf], cwd=TW, timeout=3000)
        rc2, o2, _ = lib.run([avm, DUMP, sf], cwd=TW, timeout=3000)
        a = [l for l in o1.split("\n") if l.startswith("S ")]
        b = [l for l in o2.split("\n") if l.startswith("S ")]
        bm = {l.split()[1]: l for l in b}
        mism = [int(l.split()[1]) for l in a if bm.get(l.split()[1]) != l]
        # a difference counts only if it is reproduced by an isolated run of that script (operations that take longer than
        # the harness' per-line timeout on a loaded machine are reported as HANG by one side only)
        if mism:
            scripts = treecommon.split_scripts(sf)
            still = []
            for k in mism[:12]:
                p1 = os.path.join(TW, "c10_one.txt")
                open(p1, "w").write(scripts.get(k, ""))
                _, x1, _ = lib.run([avh, "tree", "run", DUMP, p1], cwd=TW, timeout=600)
                _, x2, _ = lib.run([avm, DUMP, p1], cwd=TW, timeout=600)
                s1 = [l for l in x1.split("\n") if l.startswith("S ")]
                s2 = [l for l in x2.split("\n") if l.startswith("S ")]
                if s1 != s2 or not s1:
                    still.append(k)
            ctx.coverage["file_heavy_flaky_differences_not_reproduced"] = len(mism[:12]) - len(still)
            mism = still + mism[12:]
        detail = ""
        if mism:
            txt = treecommon.split_scripts(sf).get(mism[0], "")
            d = treecommon.first_diff(avh, avm, txt, "diff_C10_files.txt")
            detail = "script %d: %s" % (mism[0], json.dumps(d))
            ctx.notes.append({"first_model_vs_impl_difference(file-heavy)": d, "script": txt[:4000]})
        nlines = sum(int(re.search(r"lines=(\d+)", l).group(1)) for l in a)
        ctx.oblige("correspondence:file-heavy-histories(implementation vs extracted Coq model, %d scripts, %d observation lines incl. per-file text digests)"
                   % (len(a), nlines), len(a) == len(b) and len(a) > 0 and not mism, detail or (o2[-300:] if len(a) != len(b) else ""))
        ctx.coverage["file_heavy_scripts_compared"] = len(a)
        ctx.coverage["file_heavy_observation_lines"] = nlines
    else:
        ctx.oblige("correspondence:file-heavy-histories(generator)", False, out[-600:])
    # ---- 2. the oracle batch (with load / duplicate)
    rc, out, _ = lib.run([avh, "files", "oracle", DUMP, str(seed), tier], cwd=TW, timeout=3000, env={"AVH_FILES_ENABLE": "load,dup,conflict,merge3,rename"})
    stats, events = parse_oracle(out)
    ctx.coverage["oracle_files"] = {k: v for k, v in sorted(stats.items())}
    ctx.coverage["evaluations"] = ctx.coverage.get("evaluations", 0) + stats.get("ops", 0)
    ctx.coverage["distinct_nontrivial"] = ctx.coverage.get("distinct_nontrivial", 0) + sum(v for k, v in stats.items() if k.startswith("op_") and k.endswith("_ok"))
    ctx.oblige("oracle:file-oracle-ran(%d scripts, %d operations, %d file texts checked)" % (stats.get("scripts", 0), stats.get("ops", 0), stats.get("texts_checked", 0)),
               rc == 0 and stats.get("scripts", 0) > 0 and stats.get("texts_checked", 0) > 0 and stats.get("remove_one_of_many", 0) > 0, out[-400:])
    bad = []
    hit = {}
    for word, line, script in events:
        if word == "KNOWNLINE" and field(line, "key") in known:
            hit.setdefault(field(line, "key"), (line, script))
        else:
            bad.append((word, line, script))
    # confirm by isolated replay, minimise, report
    confirmed = []
    seen = set()
    for word, line, script in bad:
        kind = field(line, "kind") or word
        if kind in seen or len(confirmed) >= 4:
            continue
        seen.add(kind)
        again = replay_script(avh, script, "c10_confirm.txt") if script else []
        again = [l for l in again if not l.startswith("PASSLINE")]
        if again and not all(l.startswith("KNOWNLINE") and field(l, "key") in known for l in again):
            small = minimise(avh, script, kind) if word == "VIOLATIONLINE" else script
            confirmed.append((line, small, again[0]))
        elif not script:
            confirmed.append((line, "", line))
    ctx.oblige("oracle:C10 holds on the implementation after every operation of every generated history (modulo known findings)",
               not confirmed, "; ".join(c[2] for c in confirmed)[:900])
    for key, (line, script) in sorted(hit.items()):
        ctx.known(known[key]["what"])
    ctx.coverage["known_classes_hit"] = sorted(hit)
    if events:
        ctx.samples.append({"oracle_event": events[0][1][:300]})
    # ---- 3. recorded findings: the replays still behave as recorded
    for key, e in sorted(known.items()):
        p = os.path.join(VERIF, e["replay"])
        if not os.path.exists(p):
            ctx.oblige("known:%s replay file present" % key, False, p)
            continue
        r = json.load(open(p))
        ls = replay_script(avh, "\n".join(r["script"]) + "\n", "c10_known.txt")
        if e["status"] == "fixed":
            back = [l for l in ls if not l.startswith("PASSLINE")]
            ctx.oblige("regression:%s" % e["key"], not back, "failure is back: %s" % back[:2])
            if back:
                confirmed.append((back[0], "\n".join(r["script"]) + "\n", back[0]))
        else:
            mine = [l for l in ls if l.startswith("KNOWNLINE") and field(l, "key") == key]
            other = [l for l in ls if l.startswith(("VIOLATIONLINE", "PANICLINE", "HANGLINE"))]
            if mine and key not in hit:
                ctx.known(e["what"])
            if other:
                confirmed.append((other[0], "\n".join(r["script"]) + "\n", other[0]))
            if not mine and not other:
                ctx.notes.append({"known_finding_no_longer_reproduces": key})
    for line, small, again in confirmed:
        ctx.violation({"property": "C10", "kind": "failing-history", "oracle_line": again, "first_seen": line,
                       "script": small.split("\n"), "broken_obligations": ctx.broken,
                       "format": "VIOLATIONLINE kind=<check> script=<k> step=<index of the failing operation> detail=<what> | <operation>",
                       "how_to_replay": "save `script` (one line each) to f.txt; harness/target/debug/avh files replay work/dump f.txt ; "
                                        "harness/target/debug/avh tree run work/dump f.txt -v prints every observation"}, tag="files")


def run(tier, seed):
    return treecommon.run_tree_property(
        "C10", tier, seed, "Properties/C10.v", enable="serialize", extra_check=extra, oracle_props=["C10"],
        rule_extra="C10 adds: (a) file-heavy scripts (harness/src/files.rs: 1-4 files per model, equal/different versions, spread of packages and "
                   "elements over files by add_to_file/remove_from_file on split points, on arbitrary elements, on the root and with removed or foreign "
                   "files, create_file with reused names, remove_file in every order incl. the last file, same- and cross-model moves, copies, removals, "
                   "renames; the generator steers around the recorded defect shapes 85% of the time so that histories stay long) executed on both sides; "
                   "(b) the same generator plus load_buffer/duplicate under the implementation oracle, which checks after EVERY operation: local sets "
                   "within model.files() and within the parent's set, own sets only below splittable parents (API-only histories), every element in "
                   ">= 1 file, per file elements_dfs() == attributed elements == start tags of serialize() (tag scanner) and the text loads alone "
                   "(lenient, only RequiredAttributeMissing warnings) into the same element sequence; for remove_file: removed == attributed to the file "
                   "alone, index and reference-origin entries of removed elements gone and of kept ones intact, element lists of the other files identical.",
        assumptions=["C10_self_contained is stated under the XML round-trip hypothesis (C01) and checked by the oracle (every file text is re-loaded)",
                     "set_filename is not part of the histories (it cannot change any membership)",
                     "all 26 operation constructors are covered by C10_inv; excluded shapes: Known10 (3 finding classes with witnesses), Unowned (remove_file of a file registered in a model it does not refer to: unreachable), RootNamedLast (table sets whose root type is a named type: none)"])


def replay(path):
    txt = open(path).read()
    print(txt)
    try:
        r = json.loads(txt)
    except ValueError:
        r = None
    if r and isinstance(r.get("script"), list):
        avh = os.path.join(VERIF, "harness", "target", "debug", "avh")
        if os.path.exists(avh) and os.path.exists(DUMP):
            os.makedirs(TW, exist_ok=True)
            for l in replay_script(avh, "\n".join(r["script"]) + "\n", "c10_replay.txt"):
                print(l)
    return run("quick", 1)
