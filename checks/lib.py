"""Shared machinery of ./check : translator driver, Coq build, hygiene, assumptions, harness build,
verdicts, evidence.  See DESIGN.md section 4 for the verdict logic."""
import os, sys, re, json, time, subprocess, fcntl, glob, shutil, hashlib

VERIF = os.path.dirname(os.path.dirname(os.path.abspath(__file__)))
REPO = os.environ.get("VERIF_REPO", "/repo")
COQ = os.path.join(VERIF, "coq")
HARNESS = os.path.join(VERIF, "harness")
WORK = os.path.join(VERIF, "work")
REPLAYS = os.path.join(VERIF, "replays")
EVID = os.path.join(VERIF, "evidence")
sys.path.insert(0, os.path.join(VERIF, "translator"))

COQ_WARN = "-notation-overridden,-deprecated,-undeclared-scope,-abstract-large-number,-deprecated-syntactic-definition"

# axioms a theorem may depend on (DESIGN.md section 9); anything else breaks the obligation
AXIOM_ALLOW = {
    "FunctionalExtensionality.functional_extensionality_dep",
    "functional_extensionality_dep",
    "Eqdep.Eq_rect_eq.eq_rect_eq",
    "JMeq.JMeq_eq", "JMeq_eq",
    "ClassicalDedekindReals.sig_forall_dec", "ClassicalDedekindReals.sig_not_dec",
    "Classical_Prop.classic",
}

FORBIDDEN = re.compile(
    r"\b(Admitted|admit|Axiom|Axioms|Parameter|Parameters|Conjecture|Conjectures|Admit Obligations|"
    r"Unset Guard Checking|Unset Positivity Checking|Unset Universe Checking|bypass_check|"
    r"type-in-type|impredicative-set|native_compute|give_up)\b")


class Ctx:
    """one run of one property check"""

    def __init__(self, pid, tier, seed):
        self.pid = pid
        self.tier = tier
        self.seed = seed
        self.t0 = time.time()
        self.obligations = []      # (name, ok:bool, detail)
        self.broken = []           # names of broken obligations
        self.violations = []       # (replay_path, suffix)
        self.known_printed = []
        self.coverage = {}
        self.assumptions = []
        self.samples = []
        self.notes = []
        os.makedirs(WORK, exist_ok=True)
        os.makedirs(REPLAYS, exist_ok=True)
        os.makedirs(EVID, exist_ok=True)

    def oblige(self, name, ok, detail=""):
        self.obligations.append((name, bool(ok), detail))
        if not ok:
            self.broken.append(name)
            print("[check %s] obligation BROKEN: %s %s" % (self.pid, name, detail[:2000]), flush=True)
        return ok

    def log(self, msg):
        print("[check %s %6.1fs] %s" % (self.pid, time.time() - self.t0, msg), flush=True)

    def violation(self, replay_obj, found_input=True, tag=""):
        n = len(self.violations)
        path = os.path.join(REPLAYS, "%s-%s%d.json" % (self.pid, tag, n))
        with open(path, "w") as f:
            json.dump(replay_obj, f, indent=1, sort_keys=True)
        suffix = "" if found_input else " no-failing-input-found"
        self.violations.append((path, suffix))
        print("VIOLATION property=%s replay=%s%s" % (self.pid, path, suffix), flush=True)

    def known(self, what):
        self.known_printed.append(what)
        print("KNOWN-FINDING: property=%s %s" % (self.pid, what), flush=True)

    def finish(self, level, rule, trusted_base, checker_cmd, assumptions, extra=None):
        n_ob = len(self.obligations)
        n_ok = sum(1 for o in self.obligations if o[1])
        cov = dict(self.coverage)
        cov.setdefault("evaluations", 0)
        cov.setdefault("distinct_nontrivial", 0)
        cov["rule"] = rule
        cov["samples"] = self.samples[:12] if self.samples else ["(none)"]
        cov["obligations"] = n_ob
        cov["discharged"] = n_ok
        cov["checker_cmd"] = checker_cmd
        cov["trusted_base"] = trusted_base
        cov["obligation_list"] = [{"name": o[0], "ok": o[1]} for o in self.obligations]
        cov["broken"] = self.broken
        cov["known_findings_printed"] = self.known_printed
        cov["axioms_reported"] = self.assumptions
        if self.notes:
            cov["notes"] = self.notes
        if extra:
            cov.update(extra)
        ev = {
            "property_id": self.pid, "tier": self.tier, "seed": self.seed, "level": level,
            "coverage": cov, "assumptions": assumptions,
            "wall_s": round(time.time() - self.t0, 2), "violations": len(self.violations),
        }
        with open(os.path.join(EVID, "%s.json" % self.pid), "w") as f:
            json.dump(ev, f, indent=1, sort_keys=True)
        self.log("evidence written; obligations %d/%d; violations %d" % (n_ok, n_ob, len(self.violations)))
        return 1 if self.violations else 0


# ----------------------------------------------------------------------------- locking
class BuildLock:
    """serialises Coq / cargo builds of parallel check runs"""

    def __init__(self, name):
        self.path = os.path.join(VERIF, ".lock." + name)

    def __enter__(self):
        self.f = open(self.path, "w")
        fcntl.flock(self.f, fcntl.LOCK_EX)
        return self

    def __exit__(self, *a):
        fcntl.flock(self.f, fcntl.LOCK_UN)
        self.f.close()


def _big_stack():
    # coqc's vm_compute recurses once per byte of a long string (matchb, lexers): give the child the largest stack allowed
    import resource
    try:
        soft, hard = resource.getrlimit(resource.RLIMIT_STACK)
        resource.setrlimit(resource.RLIMIT_STACK, (hard, hard))
    except Exception:
        pass


def run(cmd, cwd=None, timeout=1800, env=None, stdin=None, big_stack=False):
    e = dict(os.environ)
    e["CARGO_NET_OFFLINE"] = "true"
    if env:
        e.update(env)
    t0 = time.time()
    try:
        p = subprocess.run(cmd, cwd=cwd, env=e, timeout=timeout, input=stdin, preexec_fn=_big_stack if big_stack else None,
                           stdout=subprocess.PIPE, stderr=subprocess.STDOUT, text=True, errors="replace")
        return p.returncode, p.stdout, time.time() - t0
    except subprocess.TimeoutExpired as ex:
        out = ex.stdout if isinstance(ex.stdout, str) else (ex.stdout or b"").decode("utf-8", "replace")
        return 124, (out or "") + "\n[timeout after %ds]" % timeout, time.time() - t0


# ----------------------------------------------------------------------------- translator
def translate(ctx, parts):
    """parts: list of (obligation-name, callable). Returns dict name->result (None when broken)."""
    from common import TranslatorError
    res = {}
    for name, fn in parts:
        try:
            res[name] = fn()
            ctx.oblige("translator:" + name, True)
        except TranslatorError as ex:
            res[name] = None
            ctx.oblige("translator:" + name, False, str(ex))
        except Exception as ex:  # a crash of the translator is a broken obligation too
            res[name] = None
            ctx.oblige("translator:" + name, False, "translator crashed: %r" % ex)
    return res


# ----------------------------------------------------------------------------- Coq
def coq_project():
    files = []
    for root, dirs, fs in os.walk(COQ):
        dirs[:] = [d for d in dirs if not d.startswith(".")]
        for f in fs:
            if f.endswith(".v") and not f.startswith("."):
                files.append(os.path.relpath(os.path.join(root, f), COQ))
    files.sort()
    content = "-Q . AV\n-arg -w -arg %s\n" % COQ_WARN + "\n".join(files) + "\n"
    p = os.path.join(COQ, "_CoqProject")
    old = open(p).read() if os.path.exists(p) else None
    if old != content or not os.path.exists(os.path.join(COQ, "Makefile")):
        with open(p, "w") as f:
            f.write(content)
        rc, out, _ = run(["coq_makefile", "-f", "_CoqProject", "-o", "Makefile"], cwd=COQ, timeout=120)
        if rc != 0:
            raise RuntimeError("coq_makefile failed: " + out)


def coq_make(targets, timeout=2400, jobs=16, lock_build=True):
    """full .vo build of the given targets (closure). returns (ok, output)"""
    if lock_build:
        with BuildLock("coq"):
            coq_project()
            rc, out, dt = run(["make", "-j%d" % jobs, "-k"] + targets, cwd=COQ, timeout=timeout)
    else:
        with BuildLock("coq"):
            coq_project()
        rc, out, dt = run(["make", "-j%d" % jobs, "-k"] + targets, cwd=COQ, timeout=timeout)
    return rc == 0, out, dt


def coq_failed_files(out):
    return sorted(set(re.findall(r'File "\./([^"]+)", line', out)))


def coq_eval(name, text, timeout=900):
    """compile a scratch .v under work/ against the built library; returns (rc, output)"""
    d = os.path.join(WORK, "coq")
    os.makedirs(d, exist_ok=True)
    p = os.path.join(d, name + ".v")
    with open(p, "w") as f:
        f.write(text)
    rc, out, dt = run(["coqc", "-noglob", "-w", COQ_WARN, "-Q", COQ, "AV", p], cwd=d, timeout=timeout, big_stack=True)
    return rc, out, dt


def theorem_names(vfile):
    src = open(os.path.join(COQ, vfile)).read()
    src = re.sub(r"\(\*.*?\*\)", "", src, flags=re.S)
    return re.findall(r"^\s*(?:Theorem|Corollary)\s+([A-Za-z0-9_']+)", src, flags=re.M)


def coq_hygiene(ctx, closure_files):
    """no Admitted/admit/Axiom/... in any file of the property's closure"""
    bad = []
    for rel in closure_files:
        p = os.path.join(COQ, rel)
        if not os.path.exists(p):
            continue
        src = open(p).read()
        src_nc = re.sub(r"\(\*.*?\*\)", " ", src, flags=re.S)
        for m in FORBIDDEN.finditer(src_nc):
            bad.append("%s: %s" % (rel, m.group(1)))
        # Variable/Hypothesis outside a section
        depth = 0
        for line in src_nc.split("\n"):
            if re.match(r"\s*Section\b", line):
                depth += 1
            elif re.match(r"\s*End\b", line) and depth > 0:
                depth -= 1
            elif depth == 0 and re.match(r"\s*(Variable|Variables|Hypothesis|Hypotheses|Context)\b", line):
                bad.append("%s: %s outside a section" % (rel, line.strip()[:40]))
    ctx.oblige("hygiene:no-admitted-axiom-parameter", not bad, "; ".join(bad[:10]))


def closure_of(vo_target):
    """source files in the dependency closure of a .vo target, from .Makefile.d"""
    dep = os.path.join(COQ, ".Makefile.d")
    deps = {}
    if os.path.exists(dep):
        for line in open(dep):
            if ":" not in line:
                continue
            lhs, rhs = line.split(":", 1)
            outs = lhs.split()
            ins = [x for x in rhs.split() if x.endswith(".vo") or x.endswith(".v")]
            for o in outs:
                if o.endswith(".vo"):
                    deps[o] = ins
    seen, stack = set(), [vo_target]
    while stack:
        t = stack.pop()
        if t in seen:
            continue
        seen.add(t)
        for i in deps.get(t, []):
            if i.endswith(".vo") and not i.startswith("/"):
                stack.append(i)
    return sorted(s[:-1] for s in seen)  # .vo -> .v


def check_theorems(ctx, prop_vfile, pins_file=None):
    """every Theorem of Properties/<id>.v exists in the compiled library, its assumptions are allowed"""
    names = theorem_names(prop_vfile)
    mod = "AV." + prop_vfile[:-2].replace("/", ".")
    text = "Require Import %s.\n" % mod
    for n in names:
        text += 'Goal True. idtac "@@THM %s". Abort.\nCheck %s.%s.\nPrint Assumptions %s.%s.\n' % (n, mod, n, mod, n)
    rc, out, dt = coq_eval("assum_" + ctx.pid, text)
    if rc != 0:
        for n in names:
            ctx.oblige("theorem:" + n, False, "not available in the compiled library")
        ctx.notes.append("assumption check failed to compile: " + out[-800:])
        return names
    chunks = out.split("@@THM ")[1:]
    seen = {}
    for ch in chunks:
        n, rest = ch.split("\n", 1)
        seen[n.strip()] = rest
    stmts = {}
    for n in names:
        rest = seen.get(n)
        if rest is None:
            ctx.oblige("theorem:" + n, False, "no output")
            continue
        ax = []
        if "Closed under the global context" not in rest:
            m = re.search(r"Axioms:\n(.*)", rest, re.S)
            body = m.group(1) if m else rest
            for line in body.split("\n"):
                mm = re.match(r"^([A-Za-z_][\w.']*)\s*(:|$)", line)
                if mm:
                    ax.append(mm.group(1))
        notallowed = [a for a in ax if a not in AXIOM_ALLOW]
        for a in ax:
            if a not in ctx.assumptions:
                ctx.assumptions.append(a)
        ctx.oblige("theorem:" + n, not notallowed,
                   "" if not notallowed else "depends on axioms outside the allowlist: %s" % notallowed)
        st = rest.split("Closed under")[0].split("Axioms:")[0]
        stmts[n] = re.sub(r"\s+", " ", st).strip()
    if pins_file:
        pins_path = os.path.join(VERIF, pins_file)
        if os.path.exists(pins_path):
            pins = json.load(open(pins_path))
            for n, st in pins.items():
                ctx.oblige("pin:" + n, stmts.get(n) == st,
                           "statement of %s differs from the pinned one" % n if stmts.get(n) != st else "")
        if os.environ.get("VERIF_WRITE_PINS") == "1":
            with open(pins_path, "w") as f:
                json.dump(stmts, f, indent=1, sort_keys=True)
    return names


# ----------------------------------------------------------------------------- harness
def harness_build(ctx, hooks=False, timeout=1800):
    env = {}
    tdir = os.path.join(HARNESS, "target-hooks" if hooks else "target")
    if hooks:
        env["RUSTFLAGS"] = "--cfg autosar_data_verif"
    cargo = ["cargo"]
    if os.environ.get("VERIF_COV"):
        # tools/coverage.sh: source-based coverage of /repo under the harness streams (nightly: its llvm-tools read the profiles)
        tdir += "-cov"
        env["RUSTFLAGS"] = (env.get("RUSTFLAGS", "") + " -C instrument-coverage").strip()
        cargo = ["cargo", "+nightly"]
    env["CARGO_TARGET_DIR"] = tdir
    with BuildLock("cargo-hooks" if hooks else "cargo"):
        if not os.path.exists(os.path.join(HARNESS, "Cargo.lock")):
            shutil.copy(os.path.join(REPO, "Cargo.lock"), os.path.join(HARNESS, "Cargo.lock"))
        rc, out, dt = run(cargo + ["build", "--offline", "--quiet"], cwd=HARNESS, timeout=timeout, env=env)
    ok = rc == 0
    ctx.oblige("build:harness" + ("+hooks" if hooks else ""), ok, out[-1500:] if not ok else "")
    return os.path.join(tdir, "debug", "avh") if ok else None


def harness_run(binpath, args, timeout=1800, stdin=None, env=None):
    return run([binpath] + args, cwd=WORK, timeout=timeout, stdin=stdin, env=env)


# ----------------------------------------------------------------------------- known findings
def load_known(pid):
    p = os.path.join(VERIF, "known_findings.json")
    if not os.path.exists(p):
        return []
    return [e for e in json.load(open(p)).get("findings", []) if e.get("property") == pid]


def hexs(b):
    return bytes(b).hex()


class SplitMix64:
    def __init__(self, seed):
        self.s = seed & 0xFFFFFFFFFFFFFFFF

    def next(self):
        self.s = (self.s + 0x9E3779B97F4A7C15) & 0xFFFFFFFFFFFFFFFF
        z = self.s
        z = ((z ^ (z >> 30)) * 0xBF58476D1CE4E5B9) & 0xFFFFFFFFFFFFFFFF
        z = ((z ^ (z >> 27)) * 0x94D049BB133111EB) & 0xFFFFFFFFFFFFFFFF
        return z ^ (z >> 31)

    def below(self, n):
        return self.next() % n

    def choice(self, l):
        return l[self.below(len(l))]
