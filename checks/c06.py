"""C06 — element-tree history property: Coq theorems over the tree model (coq/Properties/C06.v), tied to the code by the
history correspondence and checked directly on the implementation by the oracle (checks/treecommon.py).
Extra: the witness of C06_rename_skips_dead (coq/Tree/FollowWitnessLoad.v) is replayed on the implementation and on the
extracted Coq model: after two merging loads a dead WeakElement stands in front of a live referrer, the rename rewrites
the live ones."""
import os, json, re
import lib, treecommon
from lib import VERIF

WITNESS = ["C06-rename-behind-dead"]


def _witness_replays(ctx, avh, avm, tier, seed):
    if not (avh and avm):
        return
    tw = treecommon.TW
    os.makedirs(tw, exist_ok=True)
    for key in WITNESS:
        fp = os.path.join(VERIF, "checks", "witness", key + ".json")
        if not os.path.exists(fp):
            ctx.oblige("witness:%s present" % key, False, "missing " + fp)
            continue
        obj = json.load(open(fp))
        sp = os.path.join(tw, "c06_%s.txt" % key)
        open(sp, "w").write("\n".join(obj["script"]) + "\n")
        env = {"AVH_TREE_ENABLE": "load"}
        _, o1, _ = lib.run([avh, "tree", "run", treecommon.DUMP, sp, "-v"], cwd=tw, timeout=300, env=env)
        _, o2, _ = lib.run([avm, treecommon.DUMP, sp], cwd=tw, timeout=300, env=env)
        a = [l for l in o1.split("\n") if l.startswith("S ")]
        b = [l for l in o2.split("\n") if l.startswith("S ")]
        ctx.oblige("correspondence:witness-replay(%s: implementation vs extracted Coq model)" % key, a == b and len(a) == 1,
                   "impl %s model %s" % (a, b))
        # the last observation of each expected handle
        last = {}
        for l in o1.split("\n"):
            m = re.match(r"H (\d+) .* cd=(\S+)", l)
            if m:
                last[m.group(1)] = m.group(2)
        bad = {h: last.get(h) for h, cd in obj["expect_cd"].items() if last.get(h) != cd}
        ctx.oblige("witness:%s (live referrers behind a dead entry are rewritten on the implementation)" % key, not bad,
                   "handles with another text: %s" % bad)
        _, o3, _ = lib.run([avh, "tree", "oracle", treecommon.DUMP, sp], cwd=tw, timeout=300, env=env)
        fails = [l for l in o3.split("\n") if l.startswith("FAIL C06 ")]
        ctx.oblige("oracle:witness-replay(%s: no C06 failure)" % key, not fails, "; ".join(fails)[:400])


def run(tier, seed):
    return treecommon.run_tree_property("C06", tier, seed, "Properties/C06.v", extra_check=_witness_replays,
                                          extra_props=[("Properties/C06Load.v", "pins/C06Load.json")])


def replay(path):
    print(open(path).read())
    return run("quick", 1)
