"""C06 — element-tree history property: Coq theorems over the tree model (coq/Properties/C06.v), tied to the code by the
history correspondence and checked directly on the implementation by the oracle (checks/treecommon.py)."""
import treecommon


def run(tier, seed):
    return treecommon.run_tree_property("C06", tier, seed, "Properties/C06.v")


def replay(path):
    print(open(path).read())
    return run("quick", 1)
