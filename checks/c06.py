"""C06 — element-tree history property: Coq theorems over the tree model (coq/Properties/C06.v), tied to the code by the
history correspondence and checked directly on the implementation by the oracle (checks/treecommon.py).
Extra: the witness of C06_rename_skips_dead (coq/Tree/FollowWitnessLoad.v) is replayed on the implementation and on the
extracted Coq model: after two merging loads a dead WeakElement stands in front of a live referrer, the rename rewrites
the live ones."""
import os, json, re
import lib, treecommon
from lib import VERIF

WITNESS = ["C06-rename-behind-dead"]


def _witness_replays(ctx, avh, avm, tier, seed):
    if not (avh and avm):
        return
    tw = treecommon.TW
    os.makedirs(tw, exist_ok=True)
    for key in WITNESS:
        fp = os.path.join(VERIF, "checks", "witness", key + ".json")
        if not os.path.exists(fp):
            ctx.oblige("witness:%s present" % key, False, "missing " + fp)
            continue
        obj = json.load(open(fp))
        sp = os.path.join(tw, "c06_%s.txt" % key)
        open(sp, "w").write("\n".join(obj["script"]) + "\n")
        env = {"AVH_TREE_ENABLE": "load"}
        _, o1, _ = lib.run([avh, "tree", "run", treecommon.DUMP, sp, "-v"], cwd=tw, timeout=300, env=env)
        _, o2, _ = lib.run([avm, treecommon.DUMP, sp], cwd=tw, timeout=300, env=env)
        a = [l for l in o1.split("\n") if l.startswith("S ")]
        b = [l for l in o2.split("\n") if l.startswith("S ")]
        ctx.oblige("correspondence:witness-replay(%s: implementation vs extracted Coq model)" % key, a == b and len(a) == 1,
                   "impl %s model %s" % (a, b))
        # the last observation of each expected handle
        last = {}
        for l in o1.split("\n"):
            m = re.match(r"H (\d+) .* cd=(\S+)", l)
            if m:
                last[m.group(1)] = m.group(2)
        bad = {h: last.get(h) for h, cd in obj["expect_cd"].items() if last.get(h) != cd}
        ctx.oblige("witness:%s (live referrers behind a dead entry are rewritten on the implementation)" % key, not bad,
                   "handles with another text: %s" % bad)
        _, o3, _ = lib.run([avh, "tree", "oracle", treecommon.DUMP, sp], cwd=tw, timeout=300, env=env)
        fails = [l for l in o3.split("\n") if l.startswith("FAIL C06 ")]
        ctx.oblige("oracle:witness-replay(%s: no C06 failure)" % key, not fails, "; ".join(fails)[:400])


# ---------------------------------------------------------------------------------------------------------------------
# C06 scenarios: histories the generic generator does not reach by chance.  "index order": AutosarModel keeps the path index
# in an IndexMap; remove_identifiable (swap_remove) moves the LAST entry into the freed slot, so after removing an
# unrelated identifiable that was registered before a package, an element nested in that package can stand IN FRONT of
# its ancestor in the index.  A rename / move of the ancestor must still re-key it: the references to the nested element
# are rewritten (they come from reference_origins), and must still resolve to the same element object.
HDR = ('<?xml version="1.0" encoding="utf-8"?>\n<AUTOSAR xsi:schemaLocation="http://autosar.org/schema/r4.0 AUTOSAR_00050.xsd" '
       'xmlns="http://autosar.org/schema/r4.0" xmlns:xsi="http://www.w3.org/2001/XMLSchema-instance">\n')


class _El:
    def __init__(self, tag, name=None, kids=(), text=None, attrs=""):
        self.tag, self.name, self.kids, self.text, self.attrs, self.h = tag, name, list(kids), text, attrs, None

    def number(self, k):
        """handles in the order the harness gives them: pre-order, every element (SHORT-NAME included)"""
        self.h = k
        k += 1
        if self.name is not None:
            k += 1
        for c in self.kids:
            k = c.number(k)
        return k

    def xml(self):
        sn = "<SHORT-NAME>%s</SHORT-NAME>" % self.name if self.name is not None else ""
        return "<%s%s>%s%s%s</%s>" % (self.tag, self.attrs, sn, self.text or "", "".join(c.xml() for c in self.kids), self.tag)


def _xh(sv):
    return "x" + sv.encode().hex()


def _scenario_scripts():
    out = []
    for depth in (1, 2):
        for n_before in (1, 2):
            for removed in range(n_before):
                for action in ("rename_outer", "rename_inner", "move", "move_at"):
                    if action == "rename_inner" and depth == 1:
                        continue
                    target = _El("SYSTEM-SIGNAL", "S")
                    if depth == 1:
                        inner = None
                        pkg = _El("AR-PACKAGE", "p", [_El("ELEMENTS", None, [target])])
                        tpath = "/p/S"
                    else:
                        inner = _El("AR-PACKAGE", "i", [_El("ELEMENTS", None, [target])])
                        pkg = _El("AR-PACKAGE", "p", [_El("AR-PACKAGES", None, [inner])])
                        tpath = "/p/i/S"
                    unrelated = [_El("SYSTEM-SIGNAL", "u%d" % k) for k in range(n_before)]
                    ref = _El("I-SIGNAL", "r", [_El("SYSTEM-SIGNAL-REF", None, [], tpath, ' DEST="SYSTEM-SIGNAL"')])
                    elems_a = _El("ELEMENTS", None, unrelated + [ref])
                    dest = _El("AR-PACKAGES")
                    root = _El("AUTOSAR", None, [_El("AR-PACKAGES", None, [
                        _El("AR-PACKAGE", "b", [dest]), _El("AR-PACKAGE", "a", [elems_a]), pkg])])
                    root.number(1)
                    doc = HDR + root.kids[0].xml() + "</AUTOSAR>\n"
                    ops = ["OP new_model", "OP2 load 0 %s %s 1" % (_xh(doc), _xh("a.arxml")),
                           "OP remove %d %d" % (elems_a.h, unrelated[removed].h)]
                    if action == "rename_outer":
                        ops.append("OP set_item_name %d %s" % (pkg.h, _xh("q")))
                    elif action == "rename_inner":
                        ops.append("OP set_item_name %d %s" % (inner.h, _xh("q")))
                    elif action == "move":
                        ops.append("OP move %d %d" % (dest.h, pkg.h))
                    else:
                        ops.append("OP move_at %d %d 0" % (dest.h, pkg.h))
                    # a second rename afterwards: the state a wrong re-keying leaves must not be repaired silently
                    ops.append("OP set_item_name %d %s" % (target.h, _xh("T")))
                    out.append((("depth=%d before=%d removed=%d %s" % (depth, n_before, removed, action)), ops))
    return out


def _scenarios(ctx, avh, avm):
    tw = treecommon.TW
    os.makedirs(tw, exist_ok=True)
    scen = _scenario_scripts()
    sp = os.path.join(tw, "c06_scenarios.txt")
    with open(sp, "w") as fh:
        for k, (_, ops) in enumerate(scen):
            fh.write("SCRIPT %d\nPATHS 2f70 2f71 2f702f53 2f712f53 2f622f70 2f622f702f53\n%s\n" % (k, "\n".join(ops)))
    env = {"AVH_TREE_ENABLE": "load"}
    _, o1, _ = lib.run([avh, "tree", "run", treecommon.DUMP, sp], cwd=tw, timeout=600, env=env)
    _, o2, _ = lib.run([avm, treecommon.DUMP, sp], cwd=tw, timeout=600, env=env)
    a = [l for l in o1.split("\n") if l.startswith("S ")]
    b = [l for l in o2.split("\n") if l.startswith("S ")]
    ctx.oblige("correspondence:C06-index-order-scenarios(%d scripts: implementation vs extracted Coq model)" % len(scen),
               a == b and len(a) == len(scen), str([(x, y) for x, y in zip(a, b) if x != y][:2]) + " impl=%d model=%d" % (len(a), len(b)))
    _, o3, _ = lib.run([avh, "tree", "oracle", treecommon.DUMP, sp], cwd=tw, timeout=600, env=env)
    known = [e for e in lib.load_known("C06") if e.get("status") == "known"]
    fails = [treecommon.parse_fail(l) for l in o3.split("\n") if l.startswith("FAIL C06 ")]
    bad = [f for f in fails if not any(treecommon.known_match(e, f) for e in known)]
    ctx.coverage["c06_index_order_scenarios"] = len(scen)
    ctx.oblige("oracle:C06 holds on the index-order scenarios (an identifiable removed before a rename / move of a package "
               "whose nested element is referenced; %d histories)" % len(scen), not bad, "; ".join(f["raw"] for f in bad)[:600])
    if bad:
        f = bad[0]
        k = int(f.get("script", "0"))
        name, ops = scen[k] if 0 <= k < len(scen) else scen[0]
        ctx.violation({"property": "C06", "kind": "failing-history",
                       "what": "reference no longer resolves to the same element after rename/move: the reference text and the "
                               "referrer map were rewritten to the new path, but get_element_by_path(new path) does not give "
                               "the element the reference designated before (scenario %s)" % name,
                       "oracle_line": f["raw"], "script": ["SCRIPT 0"] + ops,
                       "how_to_replay": "save `script` (one line each) to f.txt; AVH_TREE_ENABLE=load harness/target/debug/avh tree "
                                        "oracle work/dump f.txt ; `avh tree run work/dump f.txt -v` shows every observation"}, tag="scn")


def _extra(ctx, avh, avm, tier, seed):
    _witness_replays(ctx, avh, avm, tier, seed)
    if avh and avm:
        _scenarios(ctx, avh, avm)


def run(tier, seed):
    return treecommon.run_tree_property("C06", tier, seed, "Properties/C06.v", extra_check=_extra,
                                          extra_props=[("Properties/C06Load.v", "pins/C06Load.json")])


def replay(path):
    print(open(path).read())
    return run("quick", 1)
