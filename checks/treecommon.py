"""Shared machinery of the element-tree history checks (C03, C04, C05, C06, C11, C12 and users of the same streams):
translator dump, Coq build of the property file, harness + extracted model runner, script generation (online against
the real library), sharded correspondence (implementation vs extracted Coq model: result of every operation and the
full canonical observation after it), direct property oracles on the implementation, known findings, failing-input
search with confirmation by isolated replay and script minimisation, evidence.  See DESIGN.md sections 3.2, 4, 7."""
import os, sys, json, re, hashlib, subprocess, shutil
import concurrent.futures as cf
import lib, xmlcommon
from lib import Ctx, WORK, VERIF, REPO

DUMP = os.path.join(WORK, "dump")
TW = os.path.join(WORK, "tree")
AVM = os.path.join(VERIF, "ocaml", "_build", "avm_tree")
NSHARDS = 8


def build_model_runner(ctx):
    rc, out, dt = lib.run([os.path.join(VERIF, "ocaml", "build_tree.sh")], timeout=1500)
    ctx.oblige("build:tree-model-runner(extraction of Tree/*.v + ocaml)", rc == 0 and os.path.exists(AVM), out[-1500:] if rc else "")
    return AVM if rc == 0 and os.path.exists(AVM) else None


def file_digest(paths):
    h = hashlib.sha256()
    for p in paths:
        with open(p, "rb") as f:
            h.update(f.read())
    return h.hexdigest()[:20]


def split_scripts(path):
    """script file -> {k: text}"""
    res, cur, k = {}, [], None
    for line in open(path):
        if line.startswith("SCRIPT "):
            if k is not None:
                res[k] = "".join(cur)
            k, cur = int(line.split()[1]), [line]
        else:
            cur.append(line)
    if k is not None:
        res[k] = "".join(cur)
    return res


def gen_and_run(ctx, avh, avm, seed, tier, enable, nscripts, tag, avh_oracle=None):
    """generates `nscripts` scripts in NSHARDS shards, runs implementation, model and oracle on each.
    returns dict with per-shard file names, S-line mismatches, oracle FAIL lines, stats.  Cached by the digests of both
    binaries (a deterministic function of them, the dump, the seed and the parameters)."""
    os.makedirs(TW, exist_ok=True)
    avh_oracle = avh_oracle or avh
    key = hashlib.sha256(("%s|%s|%s|%s|%s|%d|%s" % (file_digest([avh, avm, avh_oracle]), file_digest([os.path.join(DUMP, "spec_tables.txt")]),
                                                      seed, tier, enable, nscripts, tag)).encode()).hexdigest()[:24]
    cdir = os.path.join(TW, "cache-" + key)
    meta = os.path.join(cdir, "result.json")
    if os.path.exists(meta):
        return json.load(open(meta))
    # keep at most 8 older caches (disk)
    olds = sorted((d for d in os.listdir(TW) if d.startswith("cache-")), key=lambda d: os.path.getmtime(os.path.join(TW, d)))
    for d in olds[:-8]:
        shutil.rmtree(os.path.join(TW, d), ignore_errors=True)
    os.makedirs(cdir, exist_ok=True)
    open(os.path.join(cdir, "tag"), "w").write(tag)
    per = max(1, nscripts // NSHARDS)
    env = {"AVH_TREE_ENABLE": enable}

    def shard(i):
        sf = os.path.join(cdir, "s%d.txt" % i)
        r = {"shard": i, "script_file": sf}
        rc, out, _ = lib.run([avh, "tree", "gen", DUMP, str(seed * 1000 + i), tier, sf, str(per)], cwd=cdir, env=env, timeout=1500)
        r["gen_rc"] = rc
        r["gen_stats"] = [l for l in out.split("\n") if l.startswith("STAT")]
        if rc != 0 or not os.path.exists(sf):
            r["error"] = "generator failed: " + out[-400:]
            return r
        rc1, o1, _ = lib.run([avh, "tree", "run", DUMP, sf], cwd=cdir, timeout=2400)
        rc2, o2, _ = lib.run([avm, DUMP, sf], cwd=cdir, timeout=2400)
        a = [l for l in o1.split("\n") if l.startswith("S ")]
        b = [l for l in o2.split("\n") if l.startswith("S ")]
        r["impl_rc"], r["model_rc"] = rc1, rc2
        r["n"] = len(a)
        r["lines"] = sum(int(re.search(r"lines=(\d+)", l).group(1)) for l in a)
        mism = []
        bm = {l.split()[1]: l for l in b}
        for l in a:
            k = l.split()[1]
            if bm.get(k) != l:
                mism.append(int(k))
        if len(a) != len(b):
            r["error"] = "model runner produced %d script results, implementation %d: %s" % (len(b), len(a), o2[-300:])
        r["mismatch"] = mism
        rc3, o3, _ = lib.run([avh_oracle, "tree", "oracle", DUMP, sf], cwd=cdir, timeout=2400)
        r["oracle_rc"] = rc3
        r["fails"] = [l for l in o3.split("\n") if l.startswith("FAIL ")]
        r["oracle_stat"] = [l for l in o3.split("\n") if l.startswith("STAT")]
        return r

    with cf.ThreadPoolExecutor(max_workers=NSHARDS) as ex:
        shards = list(ex.map(shard, range(NSHARDS)))
    res = {"cdir": cdir, "shards": shards}
    # only clean results are cached: a mismatch or an oracle failure is always recomputed (and then confirmed in isolation)
    if not any(s.get("mismatch") or s.get("error") for s in shards):
        json.dump(res, open(meta, "w"))
    return res


def merge_stream(ctx, avh, avm, seed, tier, avh_oracle):
    """third stream: agent-c09's merge scripts (masters split into 2-4 files, every load order, seven kinds of conflicting
    files that are REJECTED at the merge stage) run through the same correspondence and the same state oracle.  Returns one
    shard record in the format of gen_and_run."""
    os.makedirs(TW, exist_ok=True)
    key = hashlib.sha256(("merge|%s|%s|%s|%s" % (file_digest([avh, avm, avh_oracle]), file_digest([os.path.join(DUMP, "spec_tables.txt")]),
                                                 seed, tier)).encode()).hexdigest()[:24]
    cdir = os.path.join(TW, "cache-" + key)
    meta = os.path.join(cdir, "result.json")
    if os.path.exists(meta):
        return json.load(open(meta))
    os.makedirs(cdir, exist_ok=True)
    open(os.path.join(cdir, "tag"), "w").write("merge")
    sf = os.path.join(cdir, "m.txt")
    r = {"shard": 0, "script_file": sf}
    rc, out, _ = lib.run([avh, "merge", "gen", str(seed), tier, os.path.join(cdir, "cases.txt"), sf], cwd=cdir, timeout=1500)
    r["gen_stats"] = []
    if rc != 0 or not os.path.exists(sf):
        r["error"] = "merge generator failed: " + out[-400:]
        return r
    rc1, o1, _ = lib.run([avh, "tree", "run", DUMP, sf], cwd=cdir, timeout=2400)
    rc2, o2, _ = lib.run([avm, DUMP, sf], cwd=cdir, timeout=2400)
    a = [l for l in o1.split("\n") if l.startswith("S ")]
    b = [l for l in o2.split("\n") if l.startswith("S ")]
    r["n"] = len(a)
    r["lines"] = sum(int(re.search(r"lines=(\d+)", l).group(1)) for l in a)
    bm = {l.split()[1]: l for l in b}
    r["mismatch"] = [int(l.split()[1]) for l in a if bm.get(l.split()[1]) != l]
    if len(a) != len(b):
        r["error"] = "model runner produced %d script results, implementation %d: %s" % (len(b), len(a), o2[-300:])
    rc3, o3, _ = lib.run([avh_oracle, "tree", "oracle", DUMP, sf], cwd=cdir, timeout=2400)
    r["fails"] = [l for l in o3.split("\n") if l.startswith("FAIL ")]
    r["oracle_stat"] = [l for l in o3.split("\n") if l.startswith("STAT")]
    if not r.get("mismatch") and not r.get("error"):
        json.dump(r, open(meta, "w"))
    return r


def first_diff(avh, avm, script_text, tmpname):
    """verbose run of one script on both sides; returns the first differing lines"""
    p = os.path.join(TW, tmpname)
    open(p, "w").write(script_text)
    _, o1, _ = lib.run([avh, "tree", "run", DUMP, p, "-v"], cwd=TW, timeout=300)
    _, o2, _ = lib.run([avm, DUMP, p, "-v"], cwd=TW, timeout=300)
    a, b = o1.split("\n"), [l for l in o2.split("\n") if not l.startswith("  ")]
    a = [l for l in a if not l.startswith("  ")]
    last_op = ""
    nres = 0
    ops = [l for l in script_text.split("\n") if l.startswith("OP")]
    for i, (x, y) in enumerate(zip(a, b)):
        if x.startswith("R "):
            nres += 1
        if x != y:
            return {"line": i, "impl": x, "model": y, "after_op_index": nres - 1,
                    "op": ops[nres - 1] if 0 < nres <= len(ops) else last_op}
    return {"line": min(len(a), len(b)), "impl": "(%d lines)" % len(a), "model": "(%d lines)" % len(b), "after_op_index": nres - 1}


def parse_fail(l):
    w = l.split()
    d = {"prop": w[1], "raw": l}
    for x in w[2:]:
        if "=" in x and x.split("=")[0] in ("step", "op", "kind", "script", "taint"):
            d[x.split("=")[0]] = x.split("=", 1)[1]
    return d


def known_match(entry, f):
    m = entry.get("match", {})
    if m.get("stream") != "tree":
        return False
    if "kind" in m and not re.fullmatch(m["kind"], f.get("kind", "")):
        return False
    if "op" in m and not re.fullmatch(m["op"], f.get("op", "")):
        return False
    if "detail" in m and not re.search(m["detail"], f.get("raw", "")):
        # optional: a regex the whole oracle line has to contain (e.g. the error variant of the failing call)
        return False
    if "taint" in m:
        if not re.search(m["taint"], f.get("taint", "-")):
            return False
    elif m.get("taint_free", True) and f.get("taint", "-") != "-":
        # a known class only matches its own first-hand failure unless it says which earlier events it tolerates
        tol = m.get("tolerated_taints")
        if tol is None or not all(re.fullmatch(tol, t) for t in f["taint"].split(",")):
            return False
    return True


def minimise(avh, prop, kind, script_text, budget=40):
    """greedy removal of operations while the oracle still reports (prop, kind)"""
    lines = script_text.split("\n")
    head = [l for l in lines if not l.startswith("OP")]
    ops = [l for l in lines if l.startswith("OP")]

    def fails(ops_):
        p = os.path.join(TW, "min_%s.txt" % prop)
        open(p, "w").write("\n".join([l for l in head if l] + ops_) + "\n")
        _, o, _ = lib.run([avh, "tree", "oracle", DUMP, p], cwd=TW, timeout=120)
        return any(l.startswith("FAIL %s " % prop) and ("kind=%s " % kind) in l + " " for l in o.split("\n"))

    if not fails(ops):
        return None
    # cut the tail after the failing step first
    i = len(ops)
    while i > 1 and budget > 0 and fails(ops[:i - 1]):
        i -= 1
        budget -= 1
    ops = ops[:i]
    j = len(ops) - 2
    while j >= 0 and budget > 0:
        cand = ops[:j] + ops[j + 1:]
        budget -= 1
        # removing an operation renumbers later handles: only keep the removal if the failure is still reported
        if fails(cand):
            ops = cand
        j -= 1
    return "\n".join([l for l in head if l] + ops) + "\n"


def run_tree_property(pid, tier, seed, props_file, enable="serialize", rule_extra="", extra_check=None, level_note=None,
                      oracle_props=None, assumptions=None, hooks_oracle=False, load_stream=True, extra_props=()):
    """the whole check for one tree property"""
    ctx = Ctx(pid, tier, seed)
    oracle_props = oracle_props or [pid]
    translated, info = xmlcommon.translate_all(ctx)
    have_props = os.path.exists(os.path.join(lib.COQ, props_file))
    coq_ok = False
    if have_props:
        ctx.log("building " + props_file + "o")
        ok, out, dt = lib.coq_make([props_file + "o"])
        if not ok:
            ctx.oblige("coq:build-closure", False, "failed files: %s\n%s" % (lib.coq_failed_files(out), out[-1200:]))
        else:
            ctx.oblige("coq:build-closure", True)
            lib.coq_hygiene(ctx, lib.closure_of(props_file + "o"))
            lib.check_theorems(ctx, props_file, "pins/%s.json" % pid)
            coq_ok = True
            # further property files of the same property kept in a file of their own (another author, another closure)
            for (xf, xpins) in extra_props:
                ok2, out2, dt2 = lib.coq_make([xf + "o"])
                if not ok2:
                    ctx.oblige("coq:build-closure(%s)" % xf, False, "failed files: %s\n%s" % (lib.coq_failed_files(out2), out2[-1200:]))
                else:
                    ctx.oblige("coq:build-closure(%s)" % xf, True)
                    lib.coq_hygiene(ctx, lib.closure_of(xf + "o"))
                    lib.check_theorems(ctx, xf, xpins)
        ctx.log("coq done (%.0fs)" % dt)
    else:
        ctx.oblige("coq:property-file-present", False, props_file + " does not exist")
    avh = lib.harness_build(ctx)
    avm = build_model_runner(ctx) if translated else None
    # hook H1 (raw dumps of both index maps) lets the oracle see keys nobody would ask for: C04 / C05 run it in the hook build
    avh_oracle = lib.harness_build(ctx, hooks=True) if (hooks_oracle and avh) else avh
    unknown, known_hit = [], {}
    if avh and avm:
        nscripts = 4000 if tier == "thorough" else 640
        res = gen_and_run(ctx, avh, avm, seed, tier, enable, nscripts, "generic", avh_oracle=avh_oracle or avh)
        shards = res["shards"]
        # second stream: the same operations interleaved with load_buffer into non-empty models (merges, shared reference
        # targets across files, rejected loads); the property quantifies over histories that include loading
        if load_stream and "load" not in enable:
            res2 = gen_and_run(ctx, avh, avm, seed + 17, tier, enable + ",load", 1600 if tier == "thorough" else 240, "withload",
                               avh_oracle=avh_oracle or avh)
            for s in res2["shards"]:
                s["shard"] = len(shards)
                shards.append(s)
            # third stream: merges of partial files incl. loads rejected at the merge stage
            s3 = merge_stream(ctx, avh, avm, seed, tier, avh_oracle or avh)
            s3["shard"] = len(shards)
            shards.append(s3)
        errs = [s.get("error") for s in shards if s.get("error")]
        nscr = sum(s.get("n", 0) for s in shards)
        nlines = sum(s.get("lines", 0) for s in shards)
        mism_raw = [(s["shard"], k) for s in shards for k in s.get("mismatch", [])]
        # confirm each disagreement by an isolated re-run of that script on both sides (a loaded machine can make the
        # watchdog of the harness fire, which shows up as a one-off difference)
        mism = []
        for (sh, k) in mism_raw[:12]:
            txt = split_scripts(shards[sh]["script_file"]).get(k, "")
            pth = os.path.join(TW, "confirm_corr_%s.txt" % pid)
            open(pth, "w").write(txt)
            _, o1, _ = lib.run([avh, "tree", "run", DUMP, pth], cwd=TW, timeout=600)
            _, o2, _ = lib.run([avm, DUMP, pth], cwd=TW, timeout=600)
            a1 = [l for l in o1.split("\n") if l.startswith("S ")]
            b1 = [l for l in o2.split("\n") if l.startswith("S ")]
            if a1 != b1 or not a1:
                mism.append((sh, k))
        if mism_raw and not mism:
            ctx.notes.append("%d correspondence differences did not reproduce in isolation (machine load): ignored" % len(mism_raw))
        detail = ""
        if mism:
            sh, k = mism[0]
            txt = split_scripts(shards[sh]["script_file"]).get(k, "")
            d = first_diff(avh, avm, txt, "diff_%s.txt" % pid)
            detail = "script %d of shard %d: %s" % (k, sh, json.dumps(d))
            ctx.notes.append({"first_model_vs_impl_difference": d, "script": txt[:4000]})
        ctx.oblige("correspondence:tree-histories(implementation vs extracted Coq model, %d scripts, %d observation lines)" % (nscr, nlines),
                   not errs and not mism and nscr > 0, "; ".join(errs)[:600] + detail)
        ctx.coverage["evaluations"] = sum(int(re.search(r"steps=(\d+)", l).group(1)) for s in shards for l in s.get("oracle_stat", []) if "steps=" in l)
        ctx.coverage["traces_validated_against_impl"] = nscr
        ctx.coverage["observation_lines_compared"] = nlines
        opstats = {}
        for s in shards:
            for l in s.get("gen_stats", []):
                m = re.match(r"STAT op=(\S+) ok=(\d+) err=(\d+)", l)
                if m:
                    a = opstats.setdefault(m.group(1), [0, 0])
                    a[0] += int(m.group(2))
                    a[1] += int(m.group(3))
        ctx.coverage["operation_mix_ok_err"] = opstats
        ctx.coverage["distinct_nontrivial"] = sum(v[0] for v in opstats.values())
        # ---- oracle verdicts for this property
        fails = []
        for s in shards:
            for l in s.get("fails", []):
                f = parse_fail(l)
                f["shard"] = s["shard"]
                fails.append(f)
        mine = [f for f in fails if f["prop"] in oracle_props]
        known = [e for e in lib.load_known(pid) if e.get("status") == "known"]
        for f in mine:
            hit = next((e for e in known if known_match(e, f)), None)
            if hit:
                known_hit.setdefault(hit["key"], (hit, f))
            else:
                unknown.append(f)
        ctx.coverage["oracle_failures_total"] = len(mine)
        ctx.coverage["oracle_failures_unknown"] = len(unknown)
        sample_sh = shards[0]
        scripts0 = split_scripts(sample_sh["script_file"]) if os.path.exists(sample_sh["script_file"]) else {}
        if scripts0:
            k0 = sorted(scripts0)[0]
            ctx.samples.append({"script": [l for l in scripts0[k0].split("\n") if l.startswith("OP")][:14]})
        # ---- regressions of fixed findings + corpus
        corpus = os.path.join(VERIF, "corpus", "tree_regressions.txt")
        if os.path.exists(corpus):
            _, o1, _ = lib.run([avh, "tree", "run", DUMP, corpus], cwd=TW, timeout=600)
            _, o2, _ = lib.run([avm, DUMP, corpus], cwd=TW, timeout=600)
            a = [l for l in o1.split("\n") if l.startswith("S ")]
            b = [l for l in o2.split("\n") if l.startswith("S ")]
            ctx.oblige("correspondence:tree-regression-corpus(%d scripts)" % len(a), a == b and len(a) > 0, str([(x, y) for x, y in zip(a, b) if x != y][:2]))
            _, o3, _ = lib.run([avh_oracle or avh, "tree", "oracle", DUMP, corpus], cwd=TW, timeout=600)
            back = [parse_fail(l) for l in o3.split("\n") if l.startswith("FAIL ")]
            back = [f for f in back if f["prop"] in oracle_props]
            for f in back:
                hit = next((e for e in known if known_match(e, f)), None)
                if hit:
                    known_hit.setdefault(hit["key"], (hit, f))
                else:
                    f["shard"] = -1
                    unknown.append(f)
            ctx.oblige("regression:fixed-findings-stay-fixed(%s)" % pid, not [f for f in back if not any(known_match(e, f) for e in known)],
                       str([f["raw"] for f in back][:3]))
        # ---- confirm unknown failures by isolated replay (filters load-dependent flakiness), minimise, report
        confirmed = []
        seen_kinds = set()
        for f in unknown:
            kk = (f["prop"], f.get("kind"), f.get("op"))
            if kk in seen_kinds or len(confirmed) >= 5:
                continue
            seen_kinds.add(kk)
            if f.get("shard", -1) >= 0:
                txt = split_scripts(shards[f["shard"]]["script_file"]).get(int(f.get("script", "-1")), "")
            else:
                txt = split_scripts(corpus).get(int(f.get("script", "-1")), "")
            if not txt:
                continue
            p = os.path.join(TW, "confirm_%s.txt" % pid)
            open(p, "w").write(txt)
            _, o, _ = lib.run([avh_oracle or avh, "tree", "oracle", DUMP, p], cwd=TW, timeout=300)
            again = [l for l in o.split("\n") if l.startswith("FAIL %s " % f["prop"]) and "kind=%s " % f.get("kind") in l + " "]
            if again:
                small = minimise(avh_oracle or avh, f["prop"], f.get("kind"), txt) or txt
                confirmed.append((f, small, again[0]))
        ctx.oblige("oracle:%s holds on the implementation for all generated histories (modulo known findings)" % pid,
                   not confirmed, "; ".join(c[2] for c in confirmed)[:800])
        for hit, f in known_hit.values():
            ctx.known(hit["what"])
        if extra_check:
            extra_check(ctx, avh, avm, tier, seed)
        for f, small, line in confirmed:
            ctx.violation({"property": pid, "kind": "failing-history", "oracle_line": line,
                           "script": small.split("\n"), "broken_obligations": ctx.broken,
                           "how_to_replay": "save `script` (one line each) to f.txt; harness/target/debug/avh tree oracle work/dump f.txt ; "
                                            "avh tree run work/dump f.txt -v shows every observation"}, tag="hist")
    if ctx.broken and not ctx.violations:
        ctx.violation({"property": pid, "kind": "obligation", "broken_obligations": ctx.broken,
                       "detail": [o for o in ctx.obligations if not o[1]], "notes": ctx.notes[:3]}, found_input=False)
    return ctx.finish(
        level="proof",
        rule="operation scripts generated online against the real library (seeded SplitMix64; 26+ operation kinds incl. failing calls, stale "
             "handles, two models, 1-4 files; fixed prologue with packages p1/p10/p1b, references incl. a dangling one) executed on the "
             "implementation and on the extracted Coq model; after EVERY operation the result and the whole canonical observation are compared; "
             "distinct_nontrivial = operations that succeeded (state-changing or element-returning) over all scripts. " + rule_extra,
        trusted_base=["Coq 8.16.1 kernel incl. vm_compute", "translator (spec tables, names, regex tables copied; lengths asserted)",
                      "extraction (ExtrOcamlBasic only) + ocaml/tree_driver.ml (script parsing, printing, float oracles)",
                      "harness/src/tree.rs, tree_oracle.rs (implementation side; oracle = the property stated on public API observations)",
                      "hand-written model coq/Tree/{Heap,Ops,Script,Script2,Serialize}.v tied by this correspondence"],
        checker_cmd="make -C coq %so && Print Assumptions per theorem (checks/lib.py:check_theorems)" % props_file,
        assumptions=(assumptions or []) + ["all handles are retained by the client (no Weak reference ever fails to upgrade)",
                                           "single-threaded execution (locks are a separate layer, C12/C15/C16)"])
