"""C15 — Concurrent operations never deadlock.
Proof part: Properties/C15.v (order criterion sound for any number of threads / interleavings / lengths, writer preference).
Tie: the criterion is evaluated inside Coq on the lock traces the implementation produces through hook H2; the verdicts and the
blocking edges that run against the lock order are compared with the committed baseline (checks/locks_baseline.json).
Search: deterministic scheduler of H2 (replays of the recorded findings, bounded pre-emption + random exploration of operation
pairs / triples); every deadlock found must consist of edges that are in the baseline (= part of a recorded finding)."""
import os, json, re
import lib
import locks_common as lc
from lib import Ctx, VERIF, WORK

PID = "C15"


def classify_deadlock(sig_stable, base_idx, hold_idx=None):
    """(explained?, finding class, the baseline edges it uses).  A deadlock is explained when it contains a recorded against-order edge and
    (strict, hold_idx given) EVERY hold-and-wait edge of its blocked threads is in the pinned hold-and-wait graph of the baseline."""
    edges = lc.deadlock_edges(sig_stable)
    used = sorted(e for e in edges if e in base_idx)
    if not used:
        return False, None, []
    if hold_idx is not None and any(e not in hold_idx for e in edges):
        return False, None, sorted(e for e in edges if e not in hold_idx)
    classes = sorted(set(lc.edge_finding_class(e) for e in used))
    return True, classes, used


PIN_SEED = 20261002


def passes_for(tier, ops):
    """(tag, tuples, pre-emption bound, limit, random schedules, pinned).  Pinned passes use a fixed seed: they are deterministic, and every
    hold-and-wait edge of a deadlock found there must be in the pinned graph of the baseline (strict)."""
    if tier == "thorough":
        tuples = lc.thorough_pairs(ops)
        return [("pb3", tuples, 3, 150, 0, True), ("random", tuples, 0, 0, 60, False), ("triples", lc.TRIPLES, 2, 600, 600, True),
                ("random-long", lc.QUICK_PAIRS, 0, 0, 350, False)]   # > 10^4 random schedules
    return [("pb2", lc.QUICK_PAIRS, 2, 40, 0, True), ("random", lc.QUICK_PAIRS, 0, 0, 12, False), ("triples", lc.TRIPLES[:4], 1, 100, 500, True)]


def replay_known(ctx, avh, sites, base_idx, prop_viol):
    """replays of the recorded findings; returns set of finding classes still reproducing"""
    alive = set()
    for e in lib.load_known(PID):
        r = json.load(open(os.path.join(VERIF, e["replay"])))
        sched = r["schedule"]
        run = lc.run_schedule(avh, r["shape"], sched, r["ops"])
        dl = bool(run.get("deadlock"))
        if e["status"] == "fixed":
            # exact schedule + a bounded exploration of the same pair: the recorded shape must not come back
            recs, errs = lc.explore(avh, [tuple([r["shape"]] + r["ops"])], 2, 400, 100, ctx.seed, "c15fx", nproc=1)
            back = []
            for rec in recs:
                for s, sig in rec["dlsig"]:
                    st = lc.stable(sig, sites)
                    if any(m in st for m in e.get("match", {}).get("sig_contains", [])):
                        back.append((s, st))
            if dl:
                back.append((sched, "recorded schedule deadlocks again"))
            ctx.oblige("regression:%s" % e["key"], not back and not errs, "failure is back: %s" % (back[:2] or errs))
            if back:
                prop_viol.append({"what": "regression of fixed finding %s" % e["key"], "shape": r["shape"], "ops": r["ops"],
                                  "schedule": back[0][0], "blocked": back[0][1]})
            continue
        if not dl:
            # the exact schedule no longer fits (code moved): look for the same class in the pair
            recs, errs = lc.explore(avh, [tuple([r["shape"]] + r["ops"])], 2, 600, 200, ctx.seed, "c15kn", nproc=1)
            for rec in recs:
                for s, sig in rec["dlsig"]:
                    st = lc.stable(sig, sites)
                    if tuple(r["expect"]["edge"]) in lc.deadlock_edges(st):
                        run = lc.run_schedule(avh, r["shape"], s, r["ops"])
                        dl = bool(run.get("deadlock"))
                        break
                if dl:
                    break
        if dl:
            sig = " | ".join(lc.stable(l, sites) for l in run["deadlock_lines"])
            okc, outc = lc.coq_confirm_deadlock(run, len(r["ops"]), e["key"].replace("-", "_"))
            ctx.oblige("replay:%s is a stuck configuration of Conc/RwLock.v (stuck_after evaluated in Coq)" % e["key"], okc, outc)
            ctx.known(e["what"])
            alive.add(e["key"])
            ctx.samples.append({"finding": e["key"], "shape": r["shape"], "ops": r["ops"], "schedule_len": len(run.get("schedule", "").split(",")),
                                "blocked": sig[:400]})
        else:
            ctx.notes.append("recorded finding %s no longer reproduces (a fix landed?)" % e["key"])
    return alive


def run(tier, seed):
    ctx = Ctx(PID, tier, seed)
    coq_ok = lc.coq_side(ctx, "Properties/C15.v", "pins/C15.json")
    avh = lib.harness_build(ctx, hooks=True)
    prop_viol = []
    found_new_edges = []
    if avh and coq_ok:
        base = lc.load_baseline()
        ctx.oblige("baseline:checks/locks_baseline.json present", base is not None)
        res = lc.analyse(ctx, avh, tier, seed, "c15") if base is not None else None
        if res is not None:
            insts, verd, diags = res
            reg, notes = lc.compare(insts, verd, diags, base, {"order"})
            n_ok = sum(1 for v in verd if v[0] == 1 and v[2] == 1)
            ctx.oblige("C15:no new blocking edge against the lock order and no trace lost order_ok / balanced against the baseline "
                       "(%d traces, %d satisfy order_ok in Coq, %d baseline edges)" % (len(insts), n_ok, len(base["order_edges"])),
                       not reg, "; ".join("%s: %s" % (r["instance"], r["detail"]) for r in reg[:6]))
            found_new_edges = reg
            ctx.coverage["lock_traces"] = len(insts)
            ctx.coverage["lock_trace_events"] = sum(len(i.events) for i in insts)
            ctx.coverage["traces_order_ok_in_coq"] = n_ok
            ctx.coverage["op_classes"] = len(set(i.cls for i in insts))
            cls_ok = {}
            for i, v in zip(insts, verd):
                cls_ok.setdefault(i.cls, []).append(v[2])
            ctx.coverage["classes_all_instances_order_ok"] = sorted(c for c, l in cls_ok.items() if all(l))
            ctx.coverage["classes_with_against_order_edges"] = sorted(c for c, l in cls_ok.items() if not all(l))
            ctx.coverage["result_distribution"] = lc.dist(insts)
            ctx.samples += [{"instance": i.key, "result": i.result, "events": len(i.events), "coq_verdict[bal,self,order,2ph]": v[:4]}
                            for i, v in list(zip(insts, verd))[:4]]
            for n in notes[:8]:
                ctx.notes.append(n)
            base_idx = lc.baseline_edge_index(base)
            sites = lc.LAST_SITES
            # ---- recorded findings
            replay_known(ctx, avh, sites, base_idx, prop_viol)
            # ---- exploration
            ops = lc.ops_list(avh)
            # passes without a random part are seed-independent: there every hold-and-wait edge of a deadlock must be in the pinned graph
            # (STRICT); in the random passes a deadlock only has to contain a recorded against-order edge
            passes = passes_for(tier, ops)
            hold_idx = lc.hold_edge_index(base)
            # a new edge: put the pairs of the regressed instance in front
            extra = []
            seen_inst, picked = set(), []
            for r in sorted(reg, key=lambda r: (0 if " S3/" in r["instance"] else 1)):   # distinct instances, the nested shape first
                if r["instance"] not in seen_inst:
                    seen_inst.add(r["instance"])
                    picked.append(r)
            for r in picked[:6]:
                cls_inst = r["instance"].split()
                shape, inst = cls_inst[1].split("/", 1)
                name = "%s/%s" % (cls_inst[0], inst)
                for o, only in ops:
                    if only == "all" or shape in only.split(","):
                        extra.append((shape, name, o))
            if extra:
                passes.insert(0, ("search-new-edge", extra[:400], 3, 200, 60, False))
            total_runs, total_dl, unexplained, by_class, pairs_with_dl = 0, 0, [], {}, 0
            for tag, tuples, k, limit, nrand, pinned in passes:
                recs, errs = lc.explore(avh, list(tuples), k, limit, nrand, PIN_SEED if pinned else seed, "c15" + tag)
                ctx.oblige("scheduler:%s exploration ran (%d tuples)" % (tag, len(tuples)), not errs and len(recs) > 0, "; ".join(errs[:2]))
                for rec in recs:
                    total_runs += rec["runs"]
                    total_dl += rec["deadlocks"]
                    pairs_with_dl += 1 if rec["deadlocks"] else 0
                    if rec["timed_out"]:
                        unexplained.append((rec, "", "a thread ran for 20 s without reaching a scheduling point"))
                    for s, sig in rec["dlsig"]:
                        st = lc.stable(sig, sites)
                        ok, classes, used = classify_deadlock(st, base_idx, hold_idx if pinned and hold_idx else None)
                        if ok:
                            for c in classes:
                                by_class[c] = by_class.get(c, 0) + 1
                        else:
                            unexplained.append((rec, s, st))
            ctx.coverage["evaluations"] = total_runs
            ctx.coverage["scheduled_runs"] = total_runs
            ctx.coverage["deadlocked_runs"] = total_dl
            ctx.coverage["tuples_with_deadlock"] = pairs_with_dl
            ctx.coverage["deadlock_signatures_by_finding_class"] = by_class
            ctx.coverage["distinct_nontrivial"] = n_ok
            ctx.oblige("C15:every deadlock found by the scheduler consists of blocking edges recorded in the baseline (part of a recorded finding)",
                       not unexplained, "; ".join("%s %s: %s" % (u[0]["shape"], "+".join(u[0]["ops"]), u[2][:300]) for u in unexplained[:3]))
            for rec, s, st in unexplained[:5]:
                prop_viol.append({"what": "deadlock outside the recorded findings", "shape": rec["shape"], "ops": rec["ops"], "schedule": s, "blocked": st})
    # ---- verdict
    if ctx.broken:
        if prop_viol:
            for pv in prop_viol[:3]:
                ctx.violation({"property": PID, "kind": "failing-input", "what": pv["what"], "shape": pv["shape"], "ops": pv["ops"],
                               "schedule": pv["schedule"], "blocked_threads": pv["blocked"], "broken_obligations": ctx.broken,
                               "how_to_replay": "harness/target-hooks/debug/avh locks sched run %s %s %s" % (pv["shape"], pv["schedule"] or "-", " ".join(pv["ops"]))})
        else:
            ctx.violation({"property": PID, "kind": "obligation", "broken_obligations": ctx.broken, "new_edges": found_new_edges[:20],
                           "detail": [o for o in ctx.obligations if not o[1]]}, found_input=False)
    return ctx.finish(
        level="proof",
        rule="single-thread lock traces of every operation instance of harness/src/locks.rs (52 operation classes, ~190 instances incl. stale / "
             "self / parent / child / foreign arguments) on 3 model shapes, criteria evaluated in Coq; scheduler: quick = replays of the recorded "
             "findings + 32 pairs / 3 triples (<= 2 pre-emptions + random), thorough = ~2800 pairs with <= 3 pre-emptions + random, 8 triples, "
             "> 10^4 random schedules; distinct_nontrivial = traces satisfying order_ok in Coq; evaluations = scheduled runs",
        trusted_base=lc.TRUSTED + ["scheduler of hook H2 implements ev_strictly_enabled of Conc/RwLock.v (deadlock replays are re-checked in Coq with stuck_after)"],
        checker_cmd="make -C coq Properties/C15.vo && Print Assumptions per theorem && Eval vm_compute verdict_n / stuck_after on the logged traces",
        assumptions=["[U for the footprint classes] Conc/Footprint.v defines the lock trace of 19 operation classes as a FUNCTION of operation and heap-model world; "
                     "C15_no_deadlock_footprint_classes holds for EVERY Core world, any number of threads and call sequences of the 18 classes with order_class = true "
                     "(all but path, whose failing states are characterised exactly by C15_footprint_path_characterised); the functions are tied to the implementation "
                     "on every run (footprint_instances_tied: event-by-event equality with the hook traces); footprints are taken in one world (the classes never "
                     "change parent links / element lists / file sets); classes NOT in: create_*, remove_sub_element, set_item_name, move, copy, add_to_file, "
                     "remove_from_file, create_file, load, sort, file serialize (spec-dependent insert ranges, fresh locks, model<->element inversion)",
                     "[P] the order criterion is proved sound for ALL interleavings / thread counts / trace lengths; its premise is established for the OBSERVED "
                     "traces of the enumerated operation instances and shapes, not for all states of all models",
                     "[P] parking_lot's algorithm, real 10 ms timeouts (modelled: a timed try fails iff the lock is unavailable at that point) and fairness are modelled, not verified",
                     "rank: element = 10 + depth before the operation (new elements above all old ones in creation order), then models, then files",
                     "the operation classes listed under classes_with_against_order_edges are NOT claimed deadlock-free: their edges are the recorded findings "
                     "(upward blocking reads in path_unchecked / move / copy, model lock held while locking elements, recursive read in Ord::cmp)"],
        extra={"theorem_kinds": {"C15_order_sound": "U", "C15_order_progress": "U", "C15_executions_finite": "U", "C15_maximal_execution_finishes": "U",
                                 "C15_replay_sound": "U", "C15_search_sound": "U", "C15_recursive_read_refuted": "witness", "C15_abba_refuted": "witness",
                                 "C15_no_deadlock_footprint_classes": "U (all Core worlds)", "C15_footprint_path_characterised": "U (all Core worlds)",
                                 "C15_footprint_rank_exists": "U", "C15_path_upward_blocking_refuted": "witness"}})


def replay(path):
    r = json.load(open(path))
    print(json.dumps(r, indent=1)[:3000])
    if r.get("shape") and r.get("ops"):
        ctx = Ctx(PID, "quick", 1)
        avh = lib.harness_build(ctx, hooks=True)
        if avh:
            res = lc.run_schedule(avh, r["shape"], r.get("schedule", ""), r["ops"])
            print("replayed: deadlock=%s results=%s" % (res.get("deadlock"), res.get("results")))
            for l in res["deadlock_lines"]:
                print(l)
            return 1 if res.get("deadlock") else 0
    return run("quick", 1)


if __name__ == "__main__":
    import sys
    if len(sys.argv) > 1 and sys.argv[1] == "baseline-deadlocks":
        # maintenance: hold-and-wait edges that occur in the deadlocks of the seed-independent passes of both tiers on the current tree
        # but in no single-thread trace (a thread that continues after a failed try takes paths the traces do not show)
        ctx = Ctx("c15-tool", "quick", 1)
        avh = lib.harness_build(ctx, hooks=True)
        res = lc.analyse(ctx, avh, "quick", 1, "c15tool")
        sites = lc.LAST_SITES
        base = lc.load_baseline()
        have = lc.hold_edge_index({"hold_edges": base.get("hold_edges", [])})
        ops = lc.ops_list(avh)
        extra = set()
        for tier in ("quick", "thorough"):
            for tag, tuples, k, limit, nrand, pinned in passes_for(tier, ops):
                if not pinned:
                    continue
                recs, errs = lc.explore(avh, list(tuples), k, limit, nrand, PIN_SEED, "c15bd" + tag)
                assert not errs, errs
                for rec in recs:
                    for s_, sig in rec["dlsig"]:
                        for e in lc.deadlock_edges(lc.stable(sig, sites)):
                            if e not in have:
                                extra.add("%s | %s | %s" % e)
        base["c15_extra_deadlock_edges"] = sorted(extra)
        json.dump(base, open(lc.BASELINE, "w"), indent=1, sort_keys=True)
        print("extra deadlock edges: %d" % len(extra))
        for e in sorted(extra):
            print("  ", e)
