"""C04 — element-tree history property: Coq theorems over the tree model (coq/Properties/C04.v), tied to the code by the
history correspondence and checked directly on the implementation by the oracle (checks/treecommon.py)."""
import treecommon


def run(tier, seed):
    return treecommon.run_tree_property("C04", tier, seed, "Properties/C04.v", hooks_oracle=True,
                                         extra_props=[("Properties/C04Load.v", "pins/C04Load.json"),
                                                      ("Properties/C05Load.v", "pins/C05Load.json")])


def replay(path):
    print(open(path).read())
    return run("quick", 1)
