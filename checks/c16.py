"""C16 — Concurrent operations are serializable.
Proof part: Properties/C16.v (two-phase + well-locked + balanced data traces => every complete interleaving equals a serial order;
bail-out after a failed timed try keeps the criteria and has no effect before the first write).
Tie: two_phase / well_locked are evaluated inside Coq on the data traces derived from the lock traces the implementation produces
through hook H2 (every guard is a read, a write guard also a write); per-instance verdicts are compared with the committed baseline.
Only instances whose traces are two-phase are claimed serializable.  Search: the deterministic scheduler compares the results and the
final canonical state (serialized files, identifiables, referrers, index invariants) of concurrent runs with every serial order."""
import os, json, re, sys
import lib
import locks_common as lc
from lib import Ctx, VERIF, WORK

PID = "C16"


# all schedules with one pre-emption (a check-then-act window needs exactly one) + 16 random schedules from a FIXED seed: deterministic
PINNED = ("pinned", lc.QUICK_PAIRS, 1, 400, 16)
PIN_SEED = 20261001


def pair_key(rec):
    return "%s %s" % (rec["shape"], "+".join(rec["ops"]))


def outcome_of(run):
    return "%s#%s" % ("|".join(run.get("results", [])), run.get("state"))


def serial_outcomes(run):
    return set("%s#%s" % (r, s) for _, r, s in run["seq"])


def pair_classes(ops):
    return sorted(o.split("/")[0] for o in ops)


def known_for(ops, known):
    pc = pair_classes(ops)
    for e in known:
        want = sorted(e.get("match", {}).get("op_classes", []))
        rest = list(pc)
        ok = bool(want)
        for w in want:
            if w in rest:
                rest.remove(w)
            else:
                ok = False
        if ok:
            return e
    return None


def replay_known(ctx, avh, known):
    for e in known:
        r = json.load(open(os.path.join(VERIF, e["replay"])))
        run = lc.run_schedule(avh, r["shape"], r["schedule"], r["ops"])
        bad = (not run.get("deadlock")) and run.get("results") and outcome_of(run) not in serial_outcomes(run)
        if not bad:
            # the recorded schedule may no longer fit: look for any non-serializable outcome of the same tuple
            recs, errs = lc.explore(avh, [tuple([r["shape"]] + r["ops"])], 2, 300, 100, ctx.seed, "c16kn", nproc=1)
            bad = any(rec["nonserial"] for rec in recs)
        if e["status"] == "fixed":
            ctx.oblige("regression:%s" % e["key"], not bad, "the non-serializable interleaving is back")
        elif bad:
            ctx.known(e["what"])
            ctx.samples.append({"finding": e["key"], "shape": r["shape"], "ops": r["ops"], "concurrent": outcome_of(run),
                                "serial": sorted(serial_outcomes(run))})
        else:
            ctx.notes.append("recorded finding %s no longer reproduces (a fix landed?)" % e["key"])


def run(tier, seed):
    ctx = Ctx(PID, tier, seed)
    coq_ok = lc.coq_side(ctx, "Properties/C16.v", "pins/C16.json")
    avh = lib.harness_build(ctx, hooks=True)
    prop_viol, reg = [], []
    if avh and coq_ok:
        base = lc.load_baseline()
        ctx.oblige("baseline:checks/locks_baseline.json present", base is not None)
        res = lc.analyse(ctx, avh, tier, seed, "c16") if base is not None else None
        if res is not None:
            insts, verd, diags = res
            reg, notes = lc.compare(insts, verd, diags, base, {"two_phase", "vbm"})
            n2 = sum(1 for v in verd if v[3] == 1 and v[4] == 1 and v[5] == 1)
            ctx.oblige("C16:no trace lost two_phase / validate-before-mutate / balanced against the baseline (%d traces, %d two-phase + well-locked, "
                       "%d validate-before-mutate in Coq)" % (len(insts), n2, sum(1 for v in verd if v[6] == 1)),
                       not reg, "; ".join("%s: %s" % (r["instance"], r["detail"]) for r in reg[:6]))
            wl_bad = [i.key for i, v in zip(insts, verd) if v[4] != 1]
            ctx.oblige("C16:every derived data trace is well-locked (C16_guard_traces_well_locked instantiated)", not wl_bad, str(wl_bad[:3]))
            two_phase = {}
            for i, v in zip(insts, verd):
                two_phase[(i.shape, "%s/%s" % (i.cls, i.inst))] = v[3] == 1 and v[0] == 1
            cls2 = {}
            for i, v in zip(insts, verd):
                cls2.setdefault(i.cls, []).append(v[3])
            ctx.coverage["lock_traces"] = len(insts)
            ctx.coverage["traces_two_phase_in_coq"] = n2
            ctx.coverage["distinct_nontrivial"] = n2
            ctx.coverage["classes_all_instances_two_phase(claimed serializable)"] = sorted(c for c, l in cls2.items() if all(l))
            ctx.coverage["classes_partly_two_phase"] = sorted("%s %d/%d" % (c, sum(l), len(l)) for c, l in cls2.items() if any(l) and not all(l))
            ctx.coverage["classes_not_two_phase(NOT claimed)"] = sorted(c for c, l in cls2.items() if not any(l))
            ctx.coverage["result_distribution"] = lc.dist(insts)
            ctx.samples += [{"instance": i.key, "result": i.result, "events": len(i.events), "coq_verdict[bal,self,order,2ph]": v[:4]}
                            for i, v in list(zip(insts, verd))[:4]]
            for n in notes[:8]:
                ctx.notes.append(n)
            known = lib.load_known(PID)
            replay_known(ctx, avh, known)
            # ---- exploration
            ops = lc.ops_list(avh)
            # "pinned": seed-independent (no random part); the tuples that are serializable in every schedule of this pass TODAY are listed in
            # the baseline (c16_serializable_pairs): one of them showing a non-serializable outcome is reported with its schedule
            if tier == "thorough":
                passes = [PINNED, ("pb3", lc.thorough_pairs(ops), 3, 150, 60), ("triples", lc.TRIPLES, 2, 300, 300), ("random-long", lc.QUICK_PAIRS, 0, 0, 350)]
            else:
                passes = [PINNED, ("random", lc.QUICK_PAIRS, 0, 0, 12), ("triples", lc.TRIPLES[:3], 1, 30, 10)]
            extra = []
            seen_inst, picked = set(), []
            for r in sorted(reg, key=lambda r: (0 if " S3/" in r["instance"] else 1)):   # distinct instances, the nested shape first
                if r["instance"] not in seen_inst:
                    seen_inst.add(r["instance"])
                    picked.append(r)
            for r in picked[:6]:
                f = r["instance"].split()
                shape, inst = f[1].split("/", 1)
                name = "%s/%s" % (f[0], inst)
                for o, only in ops:
                    if only == "all" or shape in only.split(","):
                        extra.append((shape, name, o))
            if extra:
                passes.insert(0, ("search-lost-two-phase", extra[:400], 3, 200, 60))
            regressed = set("%s/%s" % (r["instance"].split()[0], r["instance"].split()[1].split("/", 1)[1]) for r in reg)
            total_runs, n_nonser, by_known, unclaimed, contradictions, lost = 0, 0, {}, [], [], []
            base_fx = set(base.get("c16_locked_with_effect", []))
            fx_new, fx_seen = [], set()
            base_ser = set(base.get("c16_serializable_pairs", []))
            ser_lost = []
            claimed_pairs, claimed_runs = 0, 0
            for tag, tuples, k, limit, nrand in passes:
                recs, errs = lc.explore(avh, list(tuples), k, limit, nrand, PIN_SEED if tag == "pinned" else seed, "c16" + tag)
                ctx.oblige("scheduler:%s exploration ran (%d tuples)" % (tag, len(tuples)), not errs and len(recs) > 0, "; ".join(errs[:2]))
                for rec in recs:
                    total_runs += rec["runs"]
                    both = all(two_phase.get((rec["shape"], o), False) for o in rec["ops"])
                    if both:
                        claimed_pairs += 1
                        claimed_runs += rec["runs"] - rec["deadlocks"]
                    if not rec["nonserial"]:
                        continue
                    n_nonser += rec["nonserial"]
                    if tag == "pinned" and pair_key(rec) in base_ser:
                        ser_lost.append(rec)
                    if rec["lockfx"] and len(rec["ops"]) == 2:   # pairs only: with three calls the other two may be the non-serializable ones
                        # a call gave up with ParentElementLocked although the outcome is not that of the other calls alone
                        k = "%s %s" % (rec["shape"], "+".join(sorted(rec["ops"])))
                        fx_seen.add(k)
                        if k not in base_fx and known_for(rec["ops"], known) is None:
                            fx_new.append(rec)
                    e = known_for(rec["ops"], known)
                    if any(o in regressed for o in rec["ops"]):
                        lost.append(rec)
                    elif both:
                        contradictions.append(rec)
                    elif e is not None:
                        by_known[e["key"]] = by_known.get(e["key"], 0) + 1
                    else:
                        unclaimed.append("%s %s (%d of %d runs)" % (rec["shape"], "+".join(rec["ops"]), rec["nonserial"], rec["runs"]))
            ctx.coverage["evaluations"] = total_runs
            ctx.coverage["scheduled_runs"] = total_runs
            ctx.coverage["nonserial_runs"] = n_nonser
            ctx.coverage["tuples_claimed_serializable(all ops two-phase)"] = claimed_pairs
            ctx.coverage["runs_of_claimed_tuples_all_serializable"] = claimed_runs
            ctx.coverage["nonserial_tuples_by_recorded_finding"] = by_known
            ctx.coverage["unproved_tuples_with_nonserial_outcomes(not claimed)"] = sorted(set(unclaimed))[:80]
            ctx.oblige("C16:every tuple whose operations are all two-phase (Coq verdict) was serializable in every explored schedule "
                       "(%d tuples, %d runs)" % (claimed_pairs, claimed_runs), not contradictions,
                       "; ".join("%s %s" % (c["shape"], "+".join(c["ops"])) for c in contradictions[:4]))
            ctx.coverage["tuples_with_lock_error_and_effect(in baseline)"] = sorted(fx_seen & base_fx)
            ctx.oblige("C16:a call that returns ParentElementLocked has no effect: no tuple outside the baseline / recorded findings where the outcome of such "
                       "a run differs from the other calls alone", not fx_new,
                       "; ".join("%s %s" % (c["shape"], "+".join(c["ops"])) for c in fx_new[:4]))
            ctx.coverage["tuples_pinned_serializable(baseline)"] = len(base_ser)
            ctx.oblige("C16:every tuple that the baseline lists as serializable in all schedules of the pinned pass (all schedules with <= 1 pre-emption + 16 fixed-seed random schedules, %d tuples) still is" % len(base_ser),
                       not ser_lost, "; ".join("%s %s" % (c["shape"], "+".join(c["ops"])) for c in ser_lost[:4]))
            for rec in ser_lost[:3]:
                s, oc = (rec["nonser"] or [("", "")])[0]
                prop_viol.append({"what": "non-serializable interleaving of calls that were serializable in every schedule of the same exploration on the baseline tree "
                                          "(results + final canonical state equal no serial order)", "shape": rec["shape"], "ops": rec["ops"], "schedule": s, "outcome": oc})
            for rec in fx_new[:3]:
                s, oc = rec["lockfx"][0]
                prop_viol.append({"what": "a call returned ParentElementLocked but had an effect (results + final canonical state differ from every serial "
                                          "order of the other calls alone)", "shape": rec["shape"], "ops": rec["ops"], "schedule": s, "outcome": oc})
            for rec in (contradictions + lost)[:4]:
                s, oc = (rec["lockfx"] or rec["nonser"] or [("", "")])[0]
                prop_viol.append({"what": "non-serializable interleaving" + (" of an operation that lost two_phase / validate-before-mutate" if rec in lost else " of operations claimed serializable"),
                                  "shape": rec["shape"], "ops": rec["ops"], "schedule": s, "outcome": oc})
    if ctx.broken:
        if prop_viol:
            for pv in prop_viol[:3]:
                ctx.violation({"property": PID, "kind": "failing-input", "what": pv["what"], "shape": pv["shape"], "ops": pv["ops"], "schedule": pv["schedule"],
                               "concurrent_outcome(results#state)": pv["outcome"], "broken_obligations": ctx.broken,
                               "how_to_replay": "AVH_VERBOSE=1 harness/target-hooks/debug/avh locks sched run %s %s %s   (RUN = concurrent, SEQ = every serial order)"
                                                % (pv["shape"], pv["schedule"] or "-", " ".join(pv["ops"]))})
        else:
            ctx.violation({"property": PID, "kind": "obligation", "broken_obligations": ctx.broken, "lost_two_phase": reg[:20],
                           "detail": [o for o in ctx.obligations if not o[1]]}, found_input=False)
    return ctx.finish(
        level="proof",
        rule="data traces derived from the single-thread lock traces of every operation instance (52 classes, 3+1 shapes), two_phase / well_locked evaluated "
             "in Coq; scheduler: quick = replays of the recorded findings + 32 pairs / 3 triples (<= 2 pre-emptions + random), thorough = ~2800 pairs "
             "(<= 3 pre-emptions + random), 8 triples, > 10^4 random schedules; results + final canonical state (serialized files, identifiables, referrers, "
             "index invariants) compared with every serial order (a call that gives up with ParentElementLocked must have no effect); "
             "distinct_nontrivial = traces that are two-phase in Coq; evaluations = scheduled runs",
        trusted_base=lc.TRUSTED + ["data is touched only through the guard (Rust guard types): the access kind of a guard is its mode",
                                   "canonical-state oracle of harness/src/sched.rs (used for the search and the recorded findings only)"],
        checker_cmd="make -C coq Properties/C16.vo && Print Assumptions per theorem && Eval vm_compute verdict_n on the logged traces",
        assumptions=["[U for the one-section footprint classes] C16_serializable_footprint_classes: for EVERY world, any number of concurrent calls of the 7 classes with "
                     "two_phase_class = true (single-lock reads / writes of an element, model or file; item_name; is_identifiable) whose lock trace is the footprint function "
                     "of Conc/Footprint.v (tied event by event to the hook traces on every run) every complete interleaving is serial",
                     "[P] serializability is proved for ALL interleavings of transactions meeting the criteria; the premise is established for the OBSERVED traces of the "
                     "enumerated operation instances, not for all states",
                     "[P] most multi-step operations are NOT two-phase (model(), min_version() and path walks release before the main critical section; load_buffer, "
                     "serialize, move, rename are sequences of critical sections): they are listed under classes_not_two_phase and are NOT claimed serializable; "
                     "non-serializable interleavings found for them are recorded findings or listed as unproved",
                     "[P] parking_lot, real timeouts and fairness are modelled, not verified; iterator-draining instances are compositions of next() calls"],
        extra={"theorem_kinds": {"C16_two_phase_serializable": "U", "C16_bail_ok": "U", "C16_bail_before_write_no_effect": "U", "C16_guard_traces_well_locked": "U", "C16_serializable_footprint_classes": "U (all worlds)"}})


def replay(path):
    r = json.load(open(path))
    print(json.dumps(r, indent=1)[:3000])
    if r.get("shape") and r.get("ops"):
        ctx = Ctx(PID, "quick", 1)
        avh = lib.harness_build(ctx, hooks=True)
        if avh:
            res = lc.run_schedule(avh, r["shape"], r.get("schedule", ""), r["ops"])
            print("concurrent: %s" % outcome_of(res))
            for o, rr, s in res["seq"]:
                print("serial %s: %s#%s" % (o, rr, s))
            return 1 if outcome_of(res) not in serial_outcomes(res) else 0
    return run("quick", 1)


if __name__ == "__main__" and len(sys.argv) > 1 and sys.argv[1] == "baseline-pairs":
    # maintenance: the tuples of the pinned pass that are serializable in every explored schedule (three repetitions in separate processes)
    ctx = Ctx("c16-tool", "quick", 1)
    avh = lib.harness_build(ctx, hooks=True)
    good = None
    for rep in range(3):
        recs, errs = lc.explore(avh, list(PINNED[1]), PINNED[2], PINNED[3], PINNED[4], PIN_SEED, "c16bp")
        assert not errs, errs
        g = set(pair_key(r) for r in recs if r["nonserial"] == 0 and r["timed_out"] == 0)
        good = g if good is None else (good & g)
    b = json.load(open(lc.BASELINE))
    b["c16_serializable_pairs"] = sorted(good)
    json.dump(b, open(lc.BASELINE, "w"), indent=1, sort_keys=True)
    print("pinned serializable tuples: %d of %d" % (len(good), len(PINNED[1])))

if __name__ == "__main__" and len(sys.argv) > 1 and sys.argv[1] == "make-findings":
    # maintenance: (re)create the replay files of the recorded findings from a fresh exploration
    ctx = Ctx("c16-tool", "quick", 1)
    avh = lib.harness_build(ctx, hooks=True)
    specs = [
        ("C16-concurrent-load-membership", "S1", ["load_buffer/merge", "load_buffer/merge2"],
         "two different files loaded concurrently into a model (the README's use case): merge_file_data of both interleave; afterwards extra.arxml serializes without the "
         "elements it contributed to the shared package P1 (file membership of merged elements computed against a file set that is already stale) - no serial order gives that"),
        ("C16-concurrent-load-same-name", "S1", ["load_buffer/merge", "load_buffer/merge"],
         "the duplicate-file-name check of load_buffer is check-then-act (files() is read long before the file is registered): two concurrent loads of the same name both "
         "succeed and the model ends up with two files called extra.arxml; serially the second load fails with DuplicateFilenameError"),
        ("C16-serialize-shared-schema-location", "S4", ["serialize/file", "serialize/file2"],
         "ArxmlFile::serialize writes the file's version into the xsi:schemaLocation attribute of the SHARED root element (model.set_version) and then serializes the root: "
         "with two files of different versions serialized concurrently one text carries the other file's schema location"),
        ("C16-rename-vs-move", "S1", ["move_element_here/local", "set_item_name/referenced"],
         "move_element_here (index update, then reference rewrite under a later model lock) against set_item_name (path computed, then index + references rewritten): "
         "the interleaving leaves a reference / index entry for a path that exists in neither serial order"),
    ]
    for key, shape, ops, what in specs:
        recs, errs = lc.explore(avh, [tuple([shape] + ops)], 2, 600, 0, 1, "c16mk", nproc=1)
        ns = sorted((len(s), s, o) for rec in recs for s, o in rec["nonser"])
        assert ns, key
        _, sched, oc = ns[0]
        run_ = lc.run_schedule(avh, shape, sched, ops)
        assert outcome_of(run_) not in serial_outcomes(run_), key
        json.dump({"property": PID, "kind": "nonserial-schedule", "shape": shape, "ops": ops, "schedule": sched, "what": what,
                   "concurrent_outcome": outcome_of(run_), "serial_outcomes": sorted(serial_outcomes(run_)),
                   "how_to_replay": "AVH_VERBOSE=1 harness/target-hooks/debug/avh locks sched run %s <schedule> %s" % (shape, " ".join(ops))},
                  open(os.path.join(VERIF, "findings", key + ".json"), "w"), indent=1, sort_keys=True)
        print(key, len(sched.split(",")), oc)
