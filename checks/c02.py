"""C02 — see checks/xmlcommon.py (shared machinery of the loader / writer checks) and DESIGN.md section 7."""
import xmlcommon


def run(tier, seed):
    return xmlcommon.run_check("C02", tier, seed)


def replay(path):
    return xmlcommon.replay_check("C02", path)
