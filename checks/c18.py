"""C18 — specification tables are exact.  Translator-tied [F]+[U] theorems, exhaustive correspondence."""
import os, json
import lib
from lib import Ctx, WORK, VERIF


def build_model_runner(ctx):
    rc, out, dt = lib.run([os.path.join(VERIF, "ocaml", "build.sh")], timeout=900)
    ctx.oblige("build:model-runner(extraction+ocaml)", rc == 0, out[-1500:] if rc else "")
    return os.path.join(VERIF, "ocaml", "_build", "avm") if rc == 0 else None


def run(tier, seed):
    ctx = Ctx("C18", tier, seed)
    dump = os.path.join(WORK, "dump")
    import run_all
    import names, versions, spec
    info = {}

    def t_names():
        info["hash"] = names.translate_hashfunc()
        sink = {}
        try:
            info["names"] = names.translate_names(sink=sink)
        finally:
            # the tables are dumped even when a pinned function body changed shape: the failing-input search needs them
            if sink:
                info.setdefault("names_tables", sink)
                names.dump_text(sink, dump)
        return True

    def t_versions():
        v = versions.translate_versions()
        os.makedirs(dump, exist_ok=True)
        import common
        with common.atomic_open(os.path.join(dump, "versions.txt")) as f:
            fn = dict(v["filename"])
            for (ident, val) in v["enum"]:
                f.write("%d %s\n" % (val, fn.get(ident, "?")))
        return True

    def t_spec():
        d = spec.translate_spec(info.get("names") or info.get("names_tables"))
        spec.dump_spec_text(d, dump)
        info["spec"] = d
        return True

    tr = lib.translate(ctx, [("names+hashfunc", t_names), ("versions", t_versions), ("spec-tables", t_spec)])
    translated = all(tr.values())

    # ---- theorems
    ctx.log("building Properties/C18.vo")
    ok, out, dt = lib.coq_make(["Properties/C18.vo"])
    if not ok:
        failed = lib.coq_failed_files(out)
        ctx.oblige("coq:build-closure", False, "failed files: %s\n%s" % (failed, out[-1200:]))
        ctx.notes.append("coq failed files: %s" % failed)
    else:
        ctx.oblige("coq:build-closure", True)
        lib.coq_hygiene(ctx, lib.closure_of("Properties/C18.vo"))
        lib.check_theorems(ctx, "Properties/C18.v", "pins/C18.json")
    ctx.log("coq done in %.0fs" % dt)

    # ---- correspondence + direct property oracle on the implementation
    avh = lib.harness_build(ctx)
    avm = build_model_runner(ctx)
    disagreements = []
    if avh and (translated or info.get("names_tables")):
        rc, out, dt = lib.harness_run(avh, ["names", dump, str(seed), tier])
        open(os.path.join(WORK, "c18_impl_names.txt"), "w").write(out)
        stats = [l for l in out.split("\n") if l.startswith("STAT")]
        dis = [l for l in out.split("\n") if l.startswith("DISAGREE")]
        evals = sum(int(l.split()[3]) for l in stats)
        ctx.coverage["evaluations"] = evals
        ctx.coverage["names_stream"] = stats
        ctx.oblige("correspondence:names(impl vs table-membership spec, exhaustive members + neighbours)",
                   rc == 0 and not dis and len(stats) == 4, "\n".join(dis[:5]) or out[-500:])
        disagreements += dis
        if avm:
            rc2, out2, _ = lib.run([avm, "names", dump, os.path.join(WORK, "c18_impl_names.txt")], cwd=WORK)
            impl_s = [l for l in out.split("\n") if l.startswith("SAMPLE") and l.split()[1] in ("Element", "Attr", "Enum")]
            mod_s = [l for l in out2.split("\n") if l.startswith("SAMPLE")]
            diff = [(a, b) for a, b in zip(impl_s, mod_s) if a != b]
            ctx.oblige("correspondence:from_bytes(impl vs extracted Coq model on %d sampled inputs)" % len(impl_s),
                       rc2 == 0 and len(impl_s) == len(mod_s) and not diff, str(diff[:3]) or out2[-300:])
            ctx.samples += impl_s[:4]
            for a, b in diff[:3]:
                disagreements.append("DISAGREE model-vs-impl impl=%r model=%r" % (a, b))
        rc, out, dt = lib.harness_run(avh, ["spec", dump])
        open(os.path.join(WORK, "c18_impl_spec.txt"), "w").write(out)
        dis = [l for l in out.split("\n") if l.startswith("DISAGREE")]
        tl = [l for l in out.split("\n") if l.startswith("T ")]
        ctx.coverage["spec_types"] = len(tl)
        ctx.coverage["distinct_nontrivial"] = len(tl)
        ctx.coverage["evaluations"] += sum(int(l.split()[3]) for l in tl if l.split()[3].isdigit())
        ctx.oblige("oracle:listing-vs-lookup on the implementation (all reachable types x 21 versions)",
                   rc == 0 and not dis and any("PANIC" in l for l in tl) is False, "\n".join(dis[:5]))
        disagreements += dis
        if avm:
            rc2, out2, _ = lib.run([avm, "spec", dump], cwd=WORK, timeout=1800)
            open(os.path.join(WORK, "c18_model_spec.txt"), "w").write(out2)
            a = [l for l in out.split("\n") if l and not l.startswith("DISAGREE")]
            b = [l for l in out2.split("\n") if l]
            diff = [(x, y) for x, y in zip(a, b) if x != y]
            okc = rc2 == 0 and len(a) == len(b) and not diff
            ctx.oblige("correspondence:spec-lookups(impl vs extracted Coq model, %d types, hashed observations)" % len(tl),
                       okc, str(diff[:3]) or out2[-300:])
            ctx.samples += a[:2] + a[-2:]
            if not okc:
                for x, y in diff[:3]:
                    disagreements.append("DISAGREE model-vs-impl impl=%r model=%r" % (x, y))

    # ---- verdict
    if ctx.broken:
        prop_fail = [d for d in disagreements if "model-vs-impl" not in d]
        if prop_fail:
            ctx.violation({"property": "C18", "kind": "failing-input", "what": prop_fail[:20],
                           "broken_obligations": ctx.broken,
                           "how_to_replay": "cd /verif/work && ../harness/target/debug/avh names dump %d %s ; avh spec dump" % (seed, tier)})
        else:
            ctx.violation({"property": "C18", "kind": "obligation", "broken_obligations": ctx.broken,
                           "model_vs_impl": disagreements[:20],
                           "detail": [o for o in ctx.obligations if not o[1]]}, found_input=False)
    return ctx.finish(
        level="proof",
        rule="members: all items of the three name tables and 21 versions; non-members: every one-edit neighbour of every member "
             "(case, separator, deletion, duplication, transposition, byte+1, extension), specials, seeded random; lookups: every "
             "ElementType reachable from ROOT x (listed names + probes) x (21 versions, all, none); distinct_nontrivial = reachable types",
        trusted_base=["Coq 8.16.1 kernel incl. vm_compute", "translator/names.py versions.py spec.py (copy literals; lengths asserted)",
                      "extraction (ExtrOcamlBasic only) + ocaml/driver.ml for the tie", "harness/src/{names,spec}.rs"],
        checker_cmd="make -C coq Properties/C18.vo && coqc Print Assumptions (checks/lib.py:check_theorems)",
        assumptions=["from_ne_bytes is little-endian (x86-64)", "to_str is STRING_TABLE[*self as usize] (template-matched by the translator)",
                     "ElementType values are only obtainable by walking from ElementType::ROOT (all 9160 reachable)"])


def replay(path):
    print(open(path).read())
    return run("quick", 1)
