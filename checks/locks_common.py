"""Shared machinery of the lock properties: C12 (lock half, `lock_half(ctx, tier, seed)`), C15, C16.

Pipeline: hook build of the harness -> `avh locks trace` (single-thread lock traces of ~200 operation instances x 3 model
shapes, produced by the implementation itself through hook H2) -> the traces are written as Gallina lists and the criteria
whose soundness is proved in coq/Conc (balanced, self_ok, order_ok, two_phase, well_locked) are evaluated INSIDE Coq
(`Eval vm_compute`, Conc/Eval.v verdict_n) -> the verdicts and the violating edges are compared with the committed baseline
checks/locks_baseline.json -> recorded findings are replayed (single-thread traces, scheduler schedules) ->
when something new shows up the scheduler searches for a failing input (deadlock schedule / non-serializable interleaving)."""
import os, re, json, sys, time
import lib
from lib import VERIF, WORK, REPO

SRC = os.path.join(REPO, "autosar-data", "src")
BASELINE = os.path.join(VERIF, "checks", "locks_baseline.json")
LAST_SITES = None   # the site-name snapshot taken by analyse() right after the harness build
LOCK_CALL = re.compile(r"\.(read|write|try_read|try_write|try_read_for|try_write_for)\(")
FN_RE = re.compile(r"^\s*(?:pub(?:\([^)]*\))?\s+)?(?:const\s+)?(?:unsafe\s+)?fn\s+([A-Za-z0-9_]+)")


# ----------------------------------------------------------------------------- stable site names
class Sites:
    """file:line of a lock call -> `file::function#k` (k = ordinal of the lock call inside the function), so that edits which
    only shift lines do not change the names used in the baseline"""

    def __init__(self):
        self.cache = {}
        self.bail = {}

    def _load(self, fname):
        if fname in self.cache:
            return self.cache[fname]
        table = {}
        bail = set()
        p = os.path.join(SRC, fname)
        if os.path.exists(p):
            cur, k = "?", 0
            lines = open(p, errors="replace").read().split("\n")
            for i, line in enumerate(lines, 1):
                # a try whose failure returns the documented lock error ("bail try")
                if re.search(r"\.try_(read|write)", line.split("//")[0]) and "ParentElementLocked" in " ".join(lines[i - 1:i + 2]):
                    bail.add(i)
            for i, line in enumerate(lines, 1):
                code = line.split("//")[0]
                m = FN_RE.match(code)
                if m:
                    cur, k = m.group(1), 0
                n = len(LOCK_CALL.findall(code))
                if n:
                    table[i] = "%s::%s#%d" % (fname, cur, k + 1)
                    k += n
        self.cache[fname] = table
        self.bail[fname] = bail
        return table

    def snapshot(self):
        """read every source file now (right after the harness build), so that later edits of /repo do not change the names"""
        for f in sorted(os.listdir(SRC)):
            if f.endswith(".rs"):
                self._load(f)
        return self

    def is_bail(self, site):
        f, line, kind = site.split(":")
        self._load(f)
        return int(line) in self.bail.get(f, ())

    def name(self, site):
        # site = file:line:kind
        f, line, kind = site.split(":")
        return self._load(f).get(int(line), "%s::?L%s" % (f, line))


# ----------------------------------------------------------------------------- trace parsing
class Inst:
    __slots__ = ("cls", "shape", "inst", "result", "locks", "events", "key")

    def __init__(self, cls, shapeinst, result):
        self.cls = cls
        self.shape, self.inst = shapeinst.split("/", 1)
        self.result = result
        self.locks = {}    # id -> (class, rank, what)
        self.events = []   # (kind, mode, lock, class, site, acqkind)
        self.key = "%s %s/%s" % (cls, self.shape, self.inst)


def parse_trace(text):
    out, cur = [], None
    for line in text.split("\n"):
        f = line.split()
        if not f:
            continue
        if f[0] == "OP":
            cur = Inst(f[1], f[2], f[3] if len(f) > 3 else "")
            out.append(cur)
        elif f[0] == "LK" and cur is not None:
            cur.locks[int(f[1])] = (f[2], int(f[3]), f[4] if len(f) > 4 else "")
        elif f[0] == "EV" and cur is not None:
            site = f[5]
            cur.events.append((f[1], f[2], int(f[3]), f[4], site, site.rsplit(":", 1)[1]))
    return out


def coq_traces(inst, sites):
    """(t, t2, t3, rank table) as Gallina text; see Conc/Eval.v verdict / validate_before_mutate"""
    t, t2, t3 = [], [], []
    tracked = lambda l: "true" if inst.locks.get(l, ("", 0, ""))[2].endswith("@before") else "false"
    for kind, mode, lock, cls, site, ak in inst.events:
        m = "Rd" if mode == "R" else "Wr"
        bail = "true" if (ak != "B" and sites.is_bail(site)) else "false"
        if kind in ("Acq", "TryAcq"):
            e = "Acq %s %s %d" % ("true" if ak == "B" else "false", m, lock)
            t.append(e)
            t2.append(e)
            t3.append("(%s, %s)" % (e, bail))
        elif kind == "TryFail":
            t.append("Acq false %s %d" % (m, lock))
            t.append("Rel %d" % lock)
            t3.append("(Acq false %s %d, %s)" % (m, lock, bail))
            t3.append("(Rel %d, false)" % lock)
        elif kind == "SelfDeadlock":
            # the blocking acquisition that can never be granted (the shim panics instead of hanging)
            t.append("Acq true %s %d" % (m, lock))
            t.append("Rel %d" % lock)
            t3.append("(Acq true %s %d, false)" % (m, lock))
            t3.append("(Rel %d, false)" % lock)
        elif kind == "Rel":
            t.append("Rel %d" % lock)
            t2.append("Rel %d" % lock)
            t3.append("(Rel %d, %s)" % (lock, tracked(lock)))
    tbl = "; ".join("(%d, %d)" % (k, v[1]) for k, v in sorted(inst.locks.items()))
    return "[" + "; ".join(t) + "]", "[" + "; ".join(t2) + "]", "[" + "; ".join(t3) + "]", "[" + tbl + "]"


COQ_HDR = ("From Coq Require Import List NArith.\nFrom AV Require Import Conc.RwLock Conc.Deadlock Conc.SelfConflict Conc.TwoPhase Conc.Eval.\n"
           "Import ListNotations.\nOpen Scope N_scope.\nSet Printing Depth 1000000.\nSet Printing Width 200.\n")


def coq_verdicts(insts, tag, sites):
    """evaluates Conc/Eval.v verdict7 on every instance inside Coq. returns list of [bal,self,order,2ph,wl,dbal,vbm] or (None, err)"""
    import concurrent.futures as cf
    nsh = 8
    shards = [list(range(k, len(insts), nsh)) for k in range(nsh)]

    def one(k, idxs):
        if not idxs:
            return {}
        t = COQ_HDR
        for i in idxs:
            a, b, c, tbl = coq_traces(insts[i], sites)
            t += 'Goal True. idtac "@@I %d". Abort.\nEval vm_compute in verdict7 %s %s %s %s.\n' % (i, tbl, a, b, c)
        rc, out, dt = lib.coq_eval("locks_%s_%d" % (tag, k), t, timeout=900)
        if rc != 0:
            return {"error": out[-800:]}
        r = {}
        for chunk in out.split("@@I ")[1:]:
            i = int(chunk.split("\n", 1)[0])
            m = re.search(r"=\s*\[([0-9;\s]*)\]", chunk)
            if not m:
                return {"error": "no verdict for instance %d: %s" % (i, chunk[:200])}
            r[i] = [int(x) for x in re.findall(r"\d+", m.group(1))]
        return r

    res = {}
    with cf.ThreadPoolExecutor(max_workers=nsh) as ex:
        futs = [ex.submit(one, k, g) for k, g in enumerate(shards)]
        for f in futs:
            r = f.result()
            if "error" in r:
                return None, r["error"]
            res.update(r)
    if len(res) != len(insts):
        return None, "verdicts for %d of %d instances" % (len(res), len(insts))
    return [res[i] for i in range(len(insts))], ""


# ----------------------------------------------------------------------------- diagnosis (untrusted mirror of the criteria)
def diagnose(inst, sites):
    """returns dict: self_edges, order_edges (sets of edge keys), two_phase (bool), balanced (bool).
    An edge key names: operation class | wanted site | kind | held class:mode -> wanted class:mode | relation | held site"""
    held = []   # (lock, mode, cls, site)
    self_edges, order_edges = set(), set()
    released, two_phase, balanced = False, True, True
    wdone, vbm, vbm_sites = False, True, set()
    hold_edges = set()   # every (wanted site | held class:mode -> wanted class:mode | held site) of a blocking acquisition, with or against the order
    rank = lambda l: inst.locks.get(l, ("", 0, ""))[1]
    tracked = lambda l: inst.locks.get(l, ("", 0, ""))[2].endswith("@before")
    for kind, mode, lock, cls, site, ak in inst.events:
        if kind in ("Acq", "TryAcq", "TryFail", "SelfDeadlock"):
            sname = sites.name(site)
            if kind != "SelfDeadlock" and ak != "B" and sites.is_bail(site) and wdone:
                vbm = False
                vbm_sites.add("%s | bail try %s after a completed write section (%s)" % (inst.cls, sname, wdone))
            for (hl, hm, hc, hs) in held:
                if hl == lock and (mode == "W" or hm == "W"):
                    self_edges.add("%s | %s | %s | %s:%s -> %s:%s | self | %s" % (inst.cls, sname, ak, hc, hm, cls, mode, sites.name(hs)))
            blocking = ak == "B"
            if blocking:
                for (hl, hm, hc, hs) in held:
                    hold_edges.add("%s | %s:%s -> %s:%s | %s" % (sname, hc, hm, cls, mode, sites.name(hs)))
                for (hl, hm, hc, hs) in held:
                    if rank(hl) >= rank(lock):
                        rel = "same-lock" if hl == lock else "against-order"
                        order_edges.add("%s | %s | B | %s:%s -> %s:%s | %s | %s" % (inst.cls, sname, hc, hm, cls, mode, rel, sites.name(hs)))
            if kind in ("Acq", "TryAcq"):
                if released:
                    two_phase = False
                held.append((lock, mode, cls, site))
        elif kind == "Rel":
            released = True
            for i in range(len(held) - 1, -1, -1):
                if held[i][0] == lock:
                    if held[i][1] == "W" and tracked(lock) and not wdone:
                        wdone = "%s:%s" % (held[i][2], sites.name(held[i][3]))
                    del held[i]
                    break
            else:
                balanced = False
    if held:
        balanced = False
    return {"self_edges": self_edges, "order_edges": order_edges, "two_phase": two_phase, "balanced": balanced, "vbm": vbm, "vbm_sites": vbm_sites,
            "hold_edges": hold_edges}


# ----------------------------------------------------------------------------- running the harness
def get_traces(ctx, avh, tier, seed):
    rc, out, dt = lib.harness_run(avh, ["locks", "trace", str(seed), tier], timeout=600)
    stat = [l for l in out.split("\n") if l.startswith("STAT")]
    ok = rc == 0 and bool(stat)
    ctx.oblige("harness:locks trace (single-thread lock traces through hook H2)", ok, out[-600:] if not ok else "")
    if not ok:
        return []
    return parse_trace(out)


def analyse(ctx, avh, tier, seed, tag):
    """traces + Coq verdicts + diagnosis; returns (insts, verdicts, diags) or None"""
    insts = get_traces(ctx, avh, tier, seed)
    if not insts:
        return None
    sites = Sites()
    sites.snapshot()
    verd, err = coq_verdicts(insts, tag, sites)
    ctx.oblige("coq:criteria evaluated by vm_compute on %d logged traces (Conc/Eval.v verdict7)" % len(insts), verd is not None, err)
    if verd is None:
        return None
    diags = [diagnose(i, sites) for i in insts]
    # the untrusted diagnosis must agree with the kernel-evaluated criteria (otherwise the edge names would be meaningless)
    dis = []
    for i, v, d in zip(insts, verd, diags):
        mine = [int(d["balanced"]), int(not d["self_edges"]), int(not d["order_edges"]), int(d["two_phase"]), int(d["vbm"])]
        if mine != bv(v):
            dis.append("%s coq=%s diagnosis=%s" % (i.key, bv(v), mine))
    ctx.oblige("diagnosis:python edge diagnosis agrees with the Coq verdicts on every trace", not dis, "; ".join(dis[:5]))
    global LAST_SITES
    LAST_SITES = sites
    footprint_tie(ctx, avh, insts)
    return insts, verd, diags


def bv(v):
    """the part of a Coq verdict that the baseline records: [balanced, self_ok, order_ok, two_phase, validate_before_mutate]"""
    return v[:4] + [v[6]]


def load_baseline():
    if os.path.exists(BASELINE):
        return json.load(open(BASELINE))
    return None


def make_baseline(insts, verd, diags):
    b = {"comment": "Committed baseline of the lock criteria on the pinned tree (written by `python3 checks/locks_common.py baseline`). "
                    "instances: per operation instance the result and the Coq verdicts [balanced, self_ok, order_ok, two_phase, validate_before_mutate]; "
                    "self_edges / order_edges: the violating edges that exist today (each is part of a recorded finding or of the "
                    "documented model->element direction); a NEW edge or an instance that loses a criterion breaks the obligation.",
         "instances": {}, "self_edges": [], "order_edges": []}
    se, oe, he = set(), set(), set()
    for i, v, d in zip(insts, verd, diags):
        he |= d["hold_edges"]
        b["instances"][i.key] = {"result": i.result.split(":")[0] if not i.result.startswith("err") else i.result, "verdict": bv(v)}
        se |= d["self_edges"]
        oe |= d["order_edges"]
    b["self_edges"] = sorted(se)
    b["order_edges"] = sorted(oe)
    # the whole hold-and-wait graph (blocking acquisitions while holding something), without the operation class
    b["hold_edges"] = sorted(he)
    return b


def result_class(r):
    return r.split(":")[0] if not r.startswith("err") else r


def compare(insts, verd, diags, base, which):
    """which: subset of {'self','order','two_phase'}; returns (regressions, notes).
    regressions: list of dicts {kind, instance, detail}"""
    reg, notes = [], []
    idx = {"balanced": 0, "self": 1, "order": 2, "two_phase": 3, "vbm": 4}
    verd = [bv(v) for v in verd]
    base_inst = base.get("instances", {})
    base_se, base_oe = set(base.get("self_edges", [])), set(base.get("order_edges", []))
    base_he = set(base.get("hold_edges", []))
    for i, v, d in zip(insts, verd, diags):
        b = base_inst.get(i.key)
        if b is None:
            notes.append("instance not in the baseline: %s" % i.key)
            bvd = [1, 1, 1, 1, 1]   # a new instance has to meet the criteria or show only known edges
            bres = None
        else:
            bvd, bres = (b["verdict"] + [1])[:5], b["result"]
        for w in ["balanced"] + sorted(which):
            k = idx[w]
            if bvd[k] == 1 and v[k] == 0 and b is not None:
                reg.append({"kind": w, "instance": i.key, "detail": "criterion %s held in the baseline and fails now%s" %
                            (w, (": " + "; ".join(sorted(d["vbm_sites"]))) if w == "vbm" else "")})
            elif bvd[k] == 0 and v[k] == 1:
                notes.append("improved: %s now satisfies %s" % (i.key, w))
        if "self" in which:
            for e in sorted(d["self_edges"] - base_se):
                reg.append({"kind": "self", "instance": i.key, "detail": "new self-conflict edge: " + e})
            rc = result_class(i.result)
            if bres is not None and rc != bres and rc in ("SELFDEADLOCK", "err:ParentElementLocked"):
                reg.append({"kind": "self", "instance": i.key, "detail": "result changed from %s to %s" % (bres, rc)})
        if "order" in which:
            for e in sorted(d["order_edges"] - base_oe):
                reg.append({"kind": "order", "instance": i.key, "detail": "new blocking edge against the lock order: " + e})
            if base_he:
                for e in sorted(d["hold_edges"] - base_he):
                    reg.append({"kind": "order", "instance": i.key, "detail": "new hold-and-wait edge (a lock is now held across this blocking acquisition; "
                                "with the recorded against-order edges it can close a new cycle): " + e})
    return reg, notes


# ----------------------------------------------------------------------------- coq side common to the three checks
def coq_side(ctx, vfile, pins):
    ctx.log("building %s" % vfile)
    ok, out, dt = lib.coq_make([vfile + "o"])
    ctx.oblige("coq:build-closure", ok, "failed files: %s\n%s" % (lib.coq_failed_files(out), out[-800:]) if not ok else "")
    if ok:
        lib.coq_hygiene(ctx, lib.closure_of(vfile + "o"))
        lib.check_theorems(ctx, vfile, pins)
    ctx.log("coq done (%.0fs)" % dt)
    return ok


# ----------------------------------------------------------------------------- C12, lock half
def c12_known_match(entry, inst, diag, sites_unused=None):
    """does the recorded finding `entry` explain the failure of instance `inst`?"""
    m = entry.get("match", {})
    if m.get("kind") != "lock-trace":
        return False
    if inst.cls not in m.get("op_classes", []):
        return False
    if m.get("result") and result_class(inst.result) != m["result"]:
        return False
    want = m.get("edge_contains")
    if want:
        return any(all(w in e for w in want) for e in diag["self_edges"])
    return True


def lock_half(ctx, tier, seed, pid="C12"):
    """C12, lock half: no call blocks on / try-fails because of a lock the same thread already holds.
    Registers obligations on ctx, prints KNOWN-FINDING lines through ctx.known, returns a list of violation objects
    (found failing inputs) for the caller to report; each has 'found_input'."""
    viol = []
    coq_ok = coq_side(ctx, "Properties/C12Locks.v", "pins/C12Locks.json")
    avh = lib.harness_build(ctx, hooks=True)
    if not avh or not coq_ok:
        return viol
    res = analyse(ctx, avh, tier, seed, "c12")
    if res is None:
        return viol
    insts, verd, diags = res
    sites = Sites()
    known = [e for e in lib.load_known(pid) if e.get("match", {}).get("kind") == "lock-trace"]
    base = load_baseline()
    ctx.oblige("baseline:checks/locks_baseline.json present", base is not None)
    if base is None:
        return viol
    n_self_bad, unexplained, seen_known = 0, [], {}
    for i, v, d in zip(insts, verd, diags):
        if v[0] == 1 and v[1] == 1:
            continue
        n_self_bad += 1
        who = [e for e in known if e["status"] == "known" and c12_known_match(e, i, d)]
        if who:
            seen_known.setdefault(who[0]["key"], []).append(i.key)
        else:
            unexplained.append((i, v, d))
    reg, notes = compare(insts, verd, diags, base, {"self"})
    # a failing instance must be explained by a recorded finding; regressions against the baseline are reported as well
    ctx.oblige("C12-locks:self_ok and balanced hold (Coq verdict) on every single-thread trace outside the recorded findings "
               "(%d traces, %d in recorded findings)" % (len(insts), n_self_bad - len(unexplained)), not unexplained,
               "; ".join("%s result=%s" % (i.key, i.result) for i, _, _ in unexplained[:6]))
    ctx.oblige("C12-locks:no new self-conflict edge / no lost criterion against the baseline", not reg, "; ".join(r["detail"] for r in reg[:6]))
    for e in known:
        if e["status"] == "known" and e["key"] in seen_known:
            ctx.known(e["what"])
        elif e["status"] == "known":
            ctx.notes.append("recorded finding %s no longer reproduces (a fix landed?)" % e["key"])
    # fixed findings: the replay instances must now be clean
    by_key = {i.key: (i, v, d) for i, v, d in zip(insts, verd, diags)}
    for e in known:
        if e["status"] != "fixed":
            continue
        r = json.load(open(os.path.join(VERIF, e["replay"])))
        back = []
        for k in r["instances"]:
            if k in by_key:
                i, v, d = by_key[k]
                if v[1] == 0 or result_class(i.result) in ("SELFDEADLOCK", "err:ParentElementLocked"):
                    back.append("%s result=%s" % (k, i.result))
            else:
                back.append("%s: instance missing from the trace run" % k)
        ctx.oblige("regression:%s" % e["key"], not back, "failure is back: %s" % back[:3])
        if back:
            viol.append({"property": pid, "kind": "failing-input", "half": "locks", "what": "regression of fixed finding %s" % e["key"],
                         "instances": back, "how_to_replay": "harness/target-hooks/debug/avh locks trace 1 quick <class/inst>", "found_input": True})
    for i, v, d in unexplained[:10]:
        viol.append({"property": pid, "kind": "failing-input", "half": "locks", "instance": i.key, "result": i.result,
                     "coq_verdict[balanced,self_ok,order_ok,two_phase]": v[:4], "self_edges": sorted(d["self_edges"]),
                     "what": "single-threaded call %s on a lock held by the same thread" %
                             ("blocks for ever" if i.result == "SELFDEADLOCK" else "try-fails (spurious lock conflict / timeout)"),
                     "how_to_replay": "harness/target-hooks/debug/avh locks trace 1 quick %s/%s   (shape %s)" % (i.cls, i.inst, i.shape),
                     "found_input": True})
    if reg and not unexplained:
        viol.append({"property": pid, "kind": "obligation", "half": "locks", "regressions": reg[:20], "found_input": False})
    ctx.coverage["lock_traces"] = len(insts)
    ctx.coverage["lock_trace_events"] = sum(len(i.events) for i in insts)
    ctx.coverage["lock_op_classes"] = len(set(i.cls for i in insts))
    ctx.coverage["lock_traces_self_conflict"] = n_self_bad
    ctx.coverage["lock_result_distribution"] = dist(insts)
    ctx.samples += [{"instance": i.key, "result": i.result, "events": len(i.events), "coq_verdict": v[:4]} for i, v in list(zip(insts, verd))[:6]]
    for n in notes[:10]:
        ctx.notes.append(n)
    return viol


def dist(insts):
    d = {}
    for i in insts:
        k = result_class(i.result)
        d[k] = d.get(k, 0) + 1
    return d


TRUSTED = ["Coq 8.16.1 kernel incl. vm_compute", "hook H2 (autosar-data/src/verif_shim.rs) reports acquisitions / releases faithfully",
           "harness/src/locks.rs (scenario builder, operation table), checks/locks_common.py (trace -> Gallina text)",
           "rustc #[track_caller] locations; Python site naming (file::fn#k) used only to name edges"]


# ----------------------------------------------------------------------------- scheduler exploration (C15, C16)
SITE_RE = re.compile(r"([A-Za-z_]+\.rs):(\d+)")


def stable(text, sites):
    """replace file.rs:line by the stable site name"""
    return SITE_RE.sub(lambda m: sites._load(m.group(1)).get(int(m.group(2)), "%s::?L%s" % (m.group(1), m.group(2))), text)


def ops_list(avh):
    rc, out, _ = lib.harness_run(avh, ["locks", "list"])
    return [tuple(l.split()) for l in out.split("\n") if l.strip()]


def representatives(ops):
    rep = {}
    for name, only in ops:
        c = name.split("/")[0]
        if only == "all" and c not in rep:
            rep[c] = name
    return sorted(rep.values())


FILE_CLASSES = ("serialize", "add_to_file", "remove_from_file", "remove_file", "create_file", "load_buffer", "file_membership",
                "serialize_files", "set_version", "move_element_here", "elements_dfs", "duplicate")

# pairs that exercise every recorded finding and the main reader/writer combinations; explored in the quick tier
QUICK_PAIRS = [
    ("S1", "serialize/element", "set_attribute/ok"), ("S1", "serialize/file", "set_item_name/referenced"),
    ("S2", "serialize/file2", "set_attribute/ok"), ("S4", "serialize/file", "serialize/file2"),
    ("S1", "set_item_name/referenced", "set_reference_target/ok"), ("S1", "create_named_sub_element/ok", "remove_sub_element/subtree"),
    ("S1", "check_references/model", "set_reference_target/ok"), ("S1", "move_element_here/local", "set_reference_target/ok"),
    ("S1", "move_element_here/local", "set_item_name/referenced"), ("S1", "load_buffer/merge", "load_buffer/merge2"),
    ("S1", "load_buffer/merge", "load_buffer/merge"), ("S1", "create_file/new", "serialize/file"),
    ("S1", "path/named", "set_item_name/pkg"), ("S1", "path/named", "remove_sub_element/subtree"),
    ("S1", "create_copied_sub_element/local", "remove_sub_element_kind/ok"), ("S1", "get_or_create_sub_element/get", "move_element_here/local"),
    ("S1", "elements_dfs/model", "remove_sub_element/referenced"), ("S1", "create_sub_element/ok", "create_sub_element/ok"),
    ("S1", "create_named_sub_element/ok", "create_named_sub_element/pkg"), ("S1", "remove_file/last_or_first", "create_named_sub_element/ok"),
    ("S1", "sort/element", "set_item_name/referenced"), ("S1", "get_reference_target/ok", "set_item_name/referenced"),
    ("S1", "character_content_item/insert", "character_content_item/remove"), ("S1", "comment/set", "comment/get"),
    ("S1", "remove_attribute/present", "attributes/value"), ("S1", "get_element_by_path/hit", "get_references_to/some"),
    ("S3", "move_element_here/deep_to_flat", "set_item_name/deep"), ("S3", "create_copied_sub_element/deep", "set_reference_target/deep"),
    ("S3", "path/deep", "set_item_name/deep"), ("S2", "add_to_file/second", "remove_from_file/second"),
    ("S2", "remove_file/second", "serialize/file"), ("S1", "duplicate/model", "set_attribute/ok"),
    # moves / copies whose destination already has an element of the same name (make_unique_item_name renames) against
    # operations that hold the SOURCE parent's lock across scheduling points (the move's try on the source parent then fails)
    ("S1", "move_element_here/clash", "serialize/src_parent"), ("S1", "move_element_here/clash", "sort/element"),
    ("S1", "move_element_here/clash", "remove_sub_element/referenced"), ("S1", "move_element_here/clash", "create_named_sub_element/ok"),
    ("S1", "move_element_here/clash", "elements_dfs/src_parent"), ("S1", "move_element_here/clash", "serialize/element"),
    ("S1", "move_element_here_at/clash", "remove_sub_element/referenced"), ("S1", "move_element_here_at/clash", "serialize/src_parent"),
    # (the instances clash_referenced / foreign_clash are two calls in a row and therefore only traced, not scheduled)
    ("S1", "move_element_here/clash", "serialize/file"), ("S1", "create_copied_sub_element/clash", "remove_sub_element/referenced"),
    ("S1", "create_copied_sub_element_at/clash", "sort/element"), ("S1", "move_element_here/local", "remove_sub_element/referenced"),
    # get-or-create of the SAME missing child from two threads: exactly one child, both calls get the same element
    ("S1", "get_or_create_sub_element/create_which", "get_or_create_sub_element/create_which"),
    ("S1", "get_or_create_named_sub_element/create_which", "get_or_create_named_sub_element/create_which"),
    ("S1", "get_or_create_named_sub_element/create_pkg", "get_or_create_named_sub_element/create_pkg"),
    ("S1", "get_or_create_sub_element/create_which", "create_sub_element/ok"),
    ("S1", "get_or_create_named_sub_element/create_which", "create_named_sub_element/ok"),
    ("S1", "get_or_create_sub_element/get", "remove_sub_element_kind/ok"),
    # add_to_file where the ancestors' file sets need extending, against readers / writers walking down through those ancestors
    ("S2", "add_to_file/ancestor_needs_extension", "serialize_files/model"), ("S2", "add_to_file/ancestor_needs_extension", "serialize/element"),
    ("S2", "add_to_file/ancestor_needs_extension", "serialize/file"), ("S2", "add_to_file/ancestor_needs_extension", "sort/model"),
    ("S2", "add_to_file/ancestor_needs_extension", "remove_sub_element/subtree"), ("S2", "add_to_file/ancestor_needs_extension", "elements_dfs/model"),
    # lookups of a sub element that is not the first child, against writers that REORDER the parent's content (the element is a sub element
    # in every state: a lookup that misses it, or a spurious ElementNotFound, is not serializable)
    ("S1", "get_sub_element/last_kind", "move_element_here_at/same_parent_front"), ("S1", "get_sub_element/last_kind", "sort/element"),
    ("S1", "get_sub_element/last_kind", "move_element_here_at/same_parent"),
    ("S1", "remove_sub_element_kind/last_kind", "move_element_here_at/same_parent_front"), ("S1", "remove_sub_element_kind/last_kind", "sort/element"),
    # file operations that delete a package restricted to the removed file, against READERS of the package's parent
    ("S2", "remove_file/second", "get_sub_element/pkgs_byname"), ("S2", "remove_file/second", "serialize/pkgs"),
    ("S2", "remove_file/second", "serialize/file"), ("S2", "remove_from_file/second", "get_sub_element/pkgs_byname"),
    ("S2", "remove_from_file/second", "serialize/pkgs"), ("S2", "remove_from_file/second", "elements_dfs/model"),
    # a move whose destination lies below the moved element's current parent, against readers / writers walking down from that parent
    ("S3", "move_element_here/into_sibling_subtree", "serialize/element"), ("S3", "move_element_here/into_sibling_subtree", "serialize/file"),
    ("S3", "move_element_here_at/into_sibling_subtree", "sort/model"), ("S3", "move_element_here/into_sibling_subtree", "remove_sub_element/subtree"),
]
TRIPLES = [
    # copier of a referenced element, check_references (model read lock, then the referenced elements), a writer queueing on the source
    ("S1", "create_copied_sub_element/local", "check_references/model", "set_item_name/referenced"),
    ("S1", "serialize/element", "set_attribute/ok", "path/named"), ("S1", "set_item_name/referenced", "set_reference_target/ok", "check_references/model"),
    ("S1", "load_buffer/merge", "load_buffer/merge2", "serialize/file"), ("S1", "create_named_sub_element/ok", "remove_sub_element/subtree", "path/named"),
    ("S1", "sort/element", "ord_cmp/siblings", "set_attribute/ok"), ("S4", "serialize/file", "serialize/file2", "create_file/new"),
    ("S1", "move_element_here/local", "set_item_name/referenced", "get_reference_target/ok"), ("S3", "path/deep", "set_item_name/deep", "set_item_name/pkg"),
]


def thorough_pairs(ops):
    import itertools
    reps = representatives(ops)
    extra = [n for n, o in ops if o == "S3"]
    pairs = [("S1", a, b) for a, b in itertools.combinations_with_replacement(reps, 2)]
    pairs += [("S3", a, b) for a in extra for b in reps + extra if a <= b or b in reps]
    pairs += [("S2", a, b) for a, b in itertools.combinations_with_replacement(reps, 2)
              if any(x.split("/")[0] in FILE_CLASSES for x in (a, b))]
    pairs += [p for p in QUICK_PAIRS if p not in pairs]
    return pairs


def explore(avh, tuples, k, limit, nrand, seed, tag, nproc=12):
    """runs `avh locks sched pairs` over the tuples in parallel; returns list of records
    {shape, ops, runs, deadlocks, nonserial, dlsig: [(schedule, sig)], nonser: [(schedule, outcome)]}"""
    import concurrent.futures as cf
    nproc = max(1, min(nproc, len(tuples)))
    files = []
    for j in range(nproc):
        p = os.path.join(WORK, "locks_pairs_%s_%d.txt" % (tag, j))
        with open(p, "w") as f:
            for t in tuples[j::nproc]:
                f.write(" ".join(t) + "\n")
        files.append(p)

    def one(p):
        return lib.harness_run(avh, ["locks", "sched", "pairs", str(k), str(limit), str(nrand), str(seed), p], timeout=3000)

    recs, errs = [], []
    with cf.ThreadPoolExecutor(max_workers=nproc) as ex:
        for rc, out, dt in ex.map(one, files):
            if rc != 0:
                errs.append(out[-400:])
            cur = None
            for line in out.split("\n"):
                if line.startswith("SUMMARY"):
                    kv = dict(x.split("=", 1) for x in line.split()[2:] if "=" in x)
                    cur = {"shape": kv["shape"], "ops": kv["ops"].split("+"), "runs": int(kv["runs"]), "deadlocks": int(kv["deadlocks"]),
                           "nonserial": int(kv["nonserial"]), "timed_out": int(kv["timed_out"]), "distinct_outcomes": int(kv["distinct_outcomes"]),
                           "serial_outcomes": int(kv["serial_outcomes"]), "lockfx_runs": int(kv.get("lockfx", 0)), "dlsig": [], "nonser": [], "lockfx": []}
                    recs.append(cur)
                elif line.startswith("DLSIG") and cur is not None:
                    m = re.match(r"DLSIG shape=\S+ ops=\S+ schedule=(\S*) sig=(.*)$", line)
                    cur["dlsig"].append((m.group(1), m.group(2)))
                elif line.startswith("LOCKFX") and cur is not None:
                    m = re.match(r"LOCKFX shape=\S+ ops=\S+ schedule=(\S*) outcome=(.*)$", line)
                    cur["lockfx"].append((m.group(1), m.group(2)))
                elif line.startswith("NONSER") and cur is not None:
                    m = re.match(r"NONSER shape=\S+ ops=\S+ schedule=(\S*) outcome=(.*)$", line)
                    cur["nonser"].append((m.group(1), m.group(2)))
    return recs, errs


def baseline_edge_index(base):
    """(wanted site, 'hc:hm -> wc:wm', held site) of every against-order / same-lock edge in the baseline, without the operation class"""
    idx = set()
    for e in base.get("order_edges", []):
        f = [x.strip() for x in e.split("|")]
        # class | wanted site | B | hc:hm -> wc:wm | relation | held site
        idx.add((f[1], f[3], f[5]))
    return idx


def blocked_threads(sig_stable):
    """parse a (stable-named) deadlock signature: list of (wanted mode, wanted class, wanted site, [(mode, class, site)])"""
    out = []
    for part in sig_stable.split("|"):
        if "<-" not in part:
            continue
        w, hs = part.split("<-", 1)
        wm, rest = w.split(":", 1)
        wc, wsite = rest.split("@", 1)
        holds = []
        for h in hs.split("+"):
            if not h:
                continue
            hm, r2 = h.split(":", 1)
            hc, hsite = r2.split("@", 1)
            holds.append((hm, hc.lower(), hsite))
        out.append((wm, wc.lower(), wsite, holds))
    return out


def deadlock_edges(sig_stable):
    """the (wanted site, classes/modes, held site) triples of a deadlock, in the form of baseline_edge_index"""
    ed = set()
    for wm, wc, wsite, holds in blocked_threads(sig_stable):
        for hm, hc, hsite in holds:
            ed.add((wsite, "%s:%s -> %s:%s" % (hc, hm, wc, wm), hsite))
    return ed


def hold_edge_index(base):
    idx = set()
    for e in list(base.get("hold_edges", [])) + list(base.get("c15_extra_deadlock_edges", [])):
        f = [x.strip() for x in e.split("|")]
        idx.add((f[0], f[1], f[2]))
    return idx


def edge_finding_class(edge):
    """which recorded finding class an against-order edge belongs to"""
    held = edge[1].split("->")[0].strip().split(":")[0]
    wanted = edge[1].split("->")[1].strip().split(":")[0]
    if held in ("model", "file") and wanted == "element":
        return "model-before-element"
    if held == "element" and wanted == "element":
        return "element-against-tree-order"
    return "other"


def run_schedule(avh, shape, schedule, ops):
    """one scheduled run with the full event log; returns dict(deadlock, results, state, sig, events[(thread, kind, mode, lock)], blocked lines, seq)"""
    rc, out, dt = lib.harness_run(avh, ["locks", "sched", "run", shape, schedule if schedule else "-"] + list(ops), timeout=300)
    r = {"rc": rc, "events": [], "deadlock_lines": [], "seq": [], "raw_tail": out[-400:]}
    for line in out.split("\n"):
        f = line.split()
        if not f:
            continue
        if f[0] == "RUN":
            kv = dict(x.split("=", 1) for x in f[1:] if "=" in x)
            r.update({"deadlock": kv.get("deadlock") == "1", "results": kv.get("results", "").split("|"), "state": kv.get("state"),
                      "schedule": kv.get("schedule", ""), "diverged": kv.get("diverged") == "1"})
        elif f[0] == "DEADLOCK":
            r["deadlock_lines"].append(line)
        elif f[0] == "EV" and len(f) >= 7 and f[6].startswith("t"):
            r["events"].append((int(f[6][1:]) - 1, f[1], f[2], int(f[3])))
        elif f[0] == "SEQ":
            kv = dict(x.split("=", 1) for x in f[1:] if "=" in x)
            r["seq"].append((kv.get("order"), kv.get("results"), kv.get("state")))
    return r


def coq_confirm_deadlock(run, nthreads, tag):
    """the recorded deadlock is a stuck configuration of Conc/RwLock.v: stuck_after (traces up to the blocked requests) (schedule) = true"""
    ts = [[] for _ in range(nthreads)]
    sch = []
    for th, kind, mode, lock in run["events"]:
        m = "Rd" if mode == "R" else "Wr"
        if kind in ("Acq", "TryAcq"):
            ts[th].append("Acq %s %s %d" % ("true" if kind == "Acq" else "false", m, lock))
            sch.append("(%d%%nat, Ok)" % th)
        elif kind == "Rel":
            ts[th].append("Rel %d" % lock)
            sch.append("(%d%%nat, Ok)" % th)
    for line in run["deadlock_lines"]:
        m = re.match(r"DEADLOCK t(\d+) wants ([RW]) (\d+) ", line)
        ts[int(m.group(1))].append("Acq true %s %d" % ("Rd" if m.group(2) == "R" else "Wr", int(m.group(3))))
    text = COQ_HDR + "Eval vm_compute in stuck_after [%s] [%s].\n" % ("; ".join("[" + "; ".join(t) + "]" for t in ts), "; ".join(sch))
    rc, out, dt = lib.coq_eval("locks_replay_" + tag, text, timeout=300)
    return rc == 0 and re.search(r"=\s*true", out) is not None, out[-300:]


# ----------------------------------------------------------------------------- footprint tie (coq/Conc/Footprint.v)
# operation instance -> the calls it makes, as footprint operations over handle names ("@name") / element names ("#Name")
FOOTPRINT = {
    "parent/live": [("LRead1", "@ecu1")], "parent/root": [("LRead1", "@root")], "parent/stale": [("LRead1", "@stale")],
    "character_data/get": [("LRead1", "@cat")], "character_data/content_item_count": [("LRead1", "@p1el")],
    "attributes/value": [("LRead1", "@p2")], "comment/get": [("LRead1", "@p1")], "comment/set": [("LWrite1", "@p1")],
    "remove_attribute/present": [("LWrite1", "@p2")], "remove_attribute/absent": [("LWrite1", "@p1")],
    "character_content_item/insert": [("LWrite1", "@l4")], "character_content_item/insert_badpos": [("LWrite1", "@l4")],
    "character_content_item/insert_wrongtype": [("LWrite1", "@p1")], "character_content_item/remove": [("LWrite1", "@l4")],
    "character_content_item/remove_badpos": [("LWrite1", "@l4")],
    "get_element_by_path/hit": [("LModelRead", "0")], "get_element_by_path/miss": [("LModelRead", "0")],
    "get_references_to/some": [("LModelRead", "0")], "get_references_to/none": [("LModelRead", "0")],
    "root_element/get": [("LModelRead", "0"), ("LRead1", "@root")],
    "file_props/get": [("LFileRead", "0"), ("LFileRead", "0"), ("LFileRead", "0")],
    "item_name/named": [("LItemName", "@ecu1")],
    "get_sub_element/byname": [("LGetSubElement", "@p1", "#Elements")],
    "position/live": [("LPosition", "@ecu2")], "position/stale": [("LPosition", "@stale")],
    "model/live": [("LModelOf", "@ecu1")], "model/stale": [("LModelOf", "@stale")], "model/deep": [("LModelOf", "@ecudeep")],
    "file_membership/inherited": [("LFileMembership", "@ecu1")], "file_membership/local": [("LFileMembership", "@p2")],
    "file_membership/stale": [("LFileMembership", "@stale")],
    "named_parent/live": [("LNamedParent", "@ref1")], "named_parent/stale": [("LNamedParent", "@stale_sn")],
    "xml_path/named": [("LXmlPath", "@ref1")], "xml_path/stale": [("LXmlPath", "@stale_sn")],
    "path/named": [("LPath", "@ecu1")], "path/unnamed": [("LPath", "@p1el")], "path/stale": [("LPath", "@stale")],
    "path/deep": [("LPath", "@ecudeep")], "path/wrapper_child": [("LPath", "@wchild")],
    "set_attribute/ok": [("LSetAttribute", "@p1")], "set_attribute/invalid": [("LSetAttribute", "@p1")],
    "set_attribute/string": [("LSetAttribute", "@p1")], "set_attribute/stale": [("LSetAttribute", "@stale")],
    "serialize/element": [("LSerialize", "@p1")], "serialize/src_parent": [("LSerialize", "@p1el")], "serialize/stale": [("LSerialize", "@stale")],
    "set_character_data/plain": [("LSetCharData", "@cat")],
    "remove_character_data/plain": [("LRemoveCharData", "@cat")], "file_props/model": [("LFileModel", "0")],
    "item_name/is_identifiable": [("LIsIdentifiable", "@ecu1")], "item_name/is_identifiable_unnamed": [("LIsIdentifiable", "@p1el")],
    "item_name/is_identifiable_wrapper": [("LIsIdentifiable", "@wrapper")],
    "item_name/min_version": [("LMinVersion", "@ecu1")], "item_name/min_version_stale": [("LMinVersion", "@stale")],
}
FOOTPRINT_CLASSES = {"LRead1": "parent element_name element_type character_data attribute_value comment content_item_count iterator-step",
                     "LWrite1": "remove_attribute set_comment insert/remove_character_content_item", "LModelRead": "get_element_by_path get_references_to root_element files()-step",
                     "LFileRead": "ArxmlFile::version filename xml_standalone", "LItemName": "item_name", "LIsIdentifiable": "is_identifiable",
                     "LGetSubElement": "get_sub_element", "LPosition": "position", "LModelOf": "Element::model", "LFileMembership": "file_membership",
                     "LMinVersion": "min_version", "LNamedParent": "named_parent", "LXmlPath": "xml_path", "LPath": "path", "LSetAttribute": "set_attribute set_attribute_string",
                     "LSerialize": "Element::serialize", "LSetCharData": "set_character_data (accepted value; not SHORT-NAME, not a reference)",
                     "LRemoveCharData": "remove_character_data (not SHORT-NAME, not a reference)", "LFileModel": "ArxmlFile::model"}


def parse_worlds(text):
    worlds, cur = {}, None
    for line in text.split("\n"):
        f = line.split()
        if not f:
            continue
        if f[0] == "WORLD":
            cur = {"nodes": [], "files": [], "models": [], "handles": {}, "en": {}, "const": {}}
            worlds[f[1]] = cur
        elif cur is None:
            continue
        elif f[0] == "CONST":
            cur["const"] = dict(x.split("=") for x in f[1:])
        elif f[0] == "M":
            cur["models"].append((int(f[1]), int(f[2])))
        elif f[0] == "F":
            cur["files"].append((int(f[1]), int(f[2]), int(f[3])))
        elif f[0] == "N":
            cur["nodes"].append({"id": int(f[1]), "parent": f[2], "name": int(f[3]), "named": f[4] == "1",
                                 "files": [] if f[5] == "files=-" else [int(x) for x in f[5][6:].split(",")],
                                 "content": [] if f[6] == "content=-" else f[6][8:].split(",")})
        elif f[0] == "H":
            cur["handles"][f[1]] = int(f[2])
        elif f[0] == "EN":
            cur["en"][f[1]] = int(f[2])
    return worlds


def coq_world(wd):
    nodes = []
    for n in wd["nodes"]:
        p = n["parent"]
        pref = "PNone" if p == "-" else ("PElem %s" % p[1:] if p[0] == "E" else "PModel %s" % p[1:])
        content = "; ".join("CElem %s" % c[1:] if c[0] == "e" else "CData (DString [])" for c in n["content"])
        nodes.append("(%d, mk_node (%s) %d %s [%s] [%s])" % (n["id"], pref, n["name"], "true" if n["named"] else "false", content,
                                                            "; ".join(str(x) for x in n["files"])))
    files = "; ".join("mkFile 0 [] %d None" % v for _, _, v in sorted(wd["files"]))
    nxt = max(n["id"] for n in wd["nodes"]) + 1
    return "mkWorld (nodes_of [%s]) %d [%s] []" % ("; ".join(nodes), nxt, files)


def footprint_tie(ctx, avh, insts):
    """for every enumerated instance of the footprint classes: lock_trace (Conc/Footprint.v) evaluated in Coq on the world of the shape
    equals the trace logged by hook H2, event by event, modulo the renaming element lock -> 3i, model -> 3m+1, file -> 3f+2"""
    rc, out, dt = lib.harness_run(avh, ["locks", "world"], timeout=300)
    worlds = parse_worlds(out) if rc == 0 else {}
    if not worlds:
        ctx.oblige("footprint:world dump", False, out[-300:])
        return
    import concurrent.futures as cf
    jobs = {}
    for i in insts:
        name = "%s/%s" % (i.cls, i.inst)
        if name in FOOTPRINT and i.shape in worlds:
            jobs.setdefault(i.shape, []).append(i)

    def one(shape):
        wd = worlds[shape]
        ml = {rel: 3 * k + 1 for k, rel in wd["models"]}
        fl = {rel: 3 * k + 2 for k, rel, _ in wd["files"]}
        t = ("From Coq Require Import List NArith.\nFrom AV Require Import Tree.Heap Conc.RwLock Conc.Footprint.\nImport ListNotations.\nOpen Scope N_scope.\n"
             "Set Printing Depth 1000000.\nSet Printing Width 200.\n")
        t += "Definition w : world := %s.\n" % coq_world(wd)
        t += "Definition cf : cfg := cfg_flag %s %s.\n" % (wd["const"]["shortname"], wd["const"]["latest"])
        keys = []
        for i in jobs[shape]:
            lops = []
            for spec in FOOTPRINT["%s/%s" % (i.cls, i.inst)]:
                args = []
                for a in spec[1:]:
                    if a.startswith("@"):
                        if a[1:] not in wd["handles"]:
                            args = None
                            break
                        args.append(str(wd["handles"][a[1:]]))
                    elif a.startswith("#"):
                        args.append(str(wd["en"][a[1:]]))
                    else:
                        args.append(a)
                if args is None:
                    lops = None
                    break
                lops.append("%s %s" % (spec[0], " ".join(args)))
            if lops is None:
                continue
            evs, two_files = [], False
            for kind, mode, lock, cls, site, ak in i.events:
                l = 3 * lock if cls == "element" else (ml.get(lock) if cls == "model" else fl.get(lock))
                if l is None:
                    two_files = True
                    break
                m = "Rd" if mode == "R" else "Wr"
                if kind in ("Acq", "TryAcq"):
                    evs.append("Acq %s %s %d" % ("true" if ak == "B" else "false", m, l))
                elif kind == "Rel":
                    evs.append("Rel %d" % l)
                elif kind in ("TryFail", "SelfDeadlock"):
                    evs.append("Rel 0")   # never part of a footprint: forces a mismatch
            if two_files:
                continue
            keys.append(i.key)
            t += 'Goal True. idtac "@@F %d". Abort.\n' % (len(keys) - 1)
            t += "Eval vm_compute in trace_eqb (thread_trace cf 64 w [%s]) [%s].\n" % ("; ".join(lops), "; ".join(evs))
        rc, out, dt = lib.coq_eval("footprint_%s" % shape, t, timeout=600)
        if rc != 0:
            return shape, None, out[-600:]
        res = {}
        for chunk in out.split("@@F ")[1:]:
            k = int(chunk.split("\n", 1)[0])
            res[keys[k]] = re.search(r"=\s*true", chunk) is not None
        return shape, res, ""

    total, bad, errs = 0, [], []
    with cf.ThreadPoolExecutor(max_workers=4) as ex:
        for shape, res, err in ex.map(one, sorted(jobs)):
            if res is None:
                errs.append("%s: %s" % (shape, err))
                continue
            total += len(res)
            bad += [k for k, v in res.items() if not v]
    ctx.oblige("footprint:lock_trace (Conc/Footprint.v, evaluated in Coq on the world of each shape) equals the trace logged by hook H2, event by event, "
               "for %d instances of the footprint classes" % total, not bad and not errs and total > 0, "; ".join(errs[:2] + sorted(bad)[:8]))
    ctx.coverage["footprint_instances_tied"] = total
    ctx.coverage["footprint_classes"] = FOOTPRINT_CLASSES


if __name__ == "__main__":
    # maintenance entry points:  baseline | dump
    cmd = sys.argv[1] if len(sys.argv) > 1 else "dump"
    ctx = lib.Ctx("locks-tool", "quick", 1)
    avh = lib.harness_build(ctx, hooks=True)
    res = analyse(ctx, avh, "quick", 1, "tool")
    insts, verd, diags = res
    if cmd == "baseline":
        nb = make_baseline(insts, verd, diags)
        old = load_baseline() or {}
        # tuples in which a call gives up with the lock error but has an effect TODAY (found by the thorough exploration; kept by hand)
        nb["c16_locked_with_effect"] = old.get("c16_locked_with_effect", [])
        # written by `python3 checks/c16.py baseline-pairs`
        nb["c16_serializable_pairs"] = old.get("c16_serializable_pairs", [])
        # written by `python3 checks/c15.py baseline-deadlocks`: hold-and-wait edges that only occur in concurrent runs
        nb["c15_extra_deadlock_edges"] = old.get("c15_extra_deadlock_edges", [])
        json.dump(nb, open(BASELINE, "w"), indent=1, sort_keys=True)
        print("baseline written: %d instances" % len(insts))
    else:
        se, oe = {}, {}
        for i, v, d in zip(insts, verd, diags):
            for e in d["self_edges"]:
                se.setdefault(e, []).append(i.key)
            for e in d["order_edges"]:
                oe.setdefault(e, []).append(i.key)
        print("== self edges")
        for e in sorted(se):
            print(e, "   <=", se[e][:3])
        print("== order edges")
        for e in sorted(oe):
            print(e, "   <=", len(oe[e]), oe[e][:2])
        print("== two_phase by class")
        cl = {}
        for i, v in zip(insts, verd):
            cl.setdefault(i.cls, []).append(v[3])
        for c in sorted(cl):
            print(c, "%d/%d" % (sum(cl[c]), len(cl[c])))
