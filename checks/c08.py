"""C08 — see checks/xmlcommon.py (shared machinery of the loader / writer checks) and DESIGN.md section 7."""
import xmlcommon


def run(tier, seed):
    return xmlcommon.run_check("C08", tier, seed)


def replay(path):
    return xmlcommon.replay_check("C08", path)
