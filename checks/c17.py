"""C17 — The version-compatibility check is exact and changing a file's version is safe.

Coq: Properties/C17.v over the model Tree/Compat.v (Element::check_version_compatibility, recalc_element_type,
CharacterData::check_version_compatibility, ArxmlFile::check_version_compatibility / set_version) and the independent
statement of validity Tree/CompatSpec.v, for all specification tables and all states.
Tie (every run, against /repo's working tree):
  * correspondence: the extracted model (`ocaml/_build/avm_tree`) and the real library (`avh tree run`) execute the same scripts
    and print the same observation after every operation (error list in push order with element handle / attribute / mask, the
    overall mask, set_version result, file versions): documents built from the specification tables (`avh compat gen`: every
    document contains sub-elements / attributes / enumeration values with a PARTIAL version mask, single- and two-file
    models, elements restricted to one file; check_compat for all 21 versions, set_version) and the general operation stream
    with the compat family enabled;
  * direct oracle on the implementation alone (`avh compat sweep|oracle`): for a file and each of the 21 targets
      strict load of the serialized text relabelled to the target's xsd succeeds (fresh model)
        <=> check_version_compatibility lists nothing <=> target in the returned mask <=> set_version is Ok,
      and after a successful set_version: version set, text unchanged but for the xsd name, strict reload as the target.
    quick: 600 sampled table entries PLUS every table entry of the 288 version-switching element types (about 2700 documents) and every
    sub-element of the types with groups nested in groups (index path length >= 3; the mask comes from the inner group's table),
    thorough: EVERY partial-mask table entry in EVERY source version in which it can be built."""
import os, re, json, shutil
import concurrent.futures as cf
import lib
from lib import Ctx, WORK, VERIF

CW = os.path.join(WORK, "c17")
DUMP = os.path.join(CW, "dump")      # private copy: other checks rewrite work/dump while our runners read it
AVM_SHARED = os.path.join(VERIF, "ocaml", "_build", "avm_tree")
AVM = os.path.join(CW, "avm_tree")    # private copy of the model runner: other checks relink the shared binary while we run
NSH = 16
MY_OPS = ("check_compat", "set_version")
VALUE_ERRORS = ("PRegexMatchError", "PStringValueTooLong", "PInvalidNumber")


def build_runner():
    """ocaml/build_tree.sh; several checks may run it at the same moment in the shared _build directory: a collision (half
    written object files) is retried"""
    import time
    rc, bout = 1, ""
    for attempt in range(4):
        with lib.BuildLock("ocaml-tree"):
            rc, bout, _ = lib.run([os.path.join(VERIF, "ocaml", "build_tree.sh")], timeout=1800)
            if rc == 0 and os.path.exists(AVM_SHARED):
                try:
                    tmp = AVM + ".new"
                    shutil.copy2(AVM_SHARED, tmp)
                    os.chmod(tmp, 0o755)
                    # a complete binary answers its usage message
                    if lib.run([tmp], WORK, 60)[0] == 2:
                        os.replace(tmp, AVM)
                        return 0, bout
                    bout += "\ncopied model runner does not start"
                except OSError as ex:
                    bout += "\ncopy of the model runner failed: %r" % ex
                rc = 1
        time.sleep(5 + 10 * attempt)
    return rc, bout


def private_avh(avh):
    """a private copy of the harness binary (other checks rebuild the shared one while we run)"""
    import time
    if not avh:
        return avh
    dst = os.path.join(CW, "avh")
    for attempt in range(4):
        try:
            with lib.BuildLock("cargo"):
                shutil.copy2(avh, dst + ".new")
            os.chmod(dst + ".new", 0o755)
            if lib.run([dst + ".new"], WORK, 60)[0] == 2:      # usage message: the binary is complete
                os.replace(dst + ".new", dst)
                return dst
        except OSError:
            pass
        time.sleep(3 + 5 * attempt)
    return avh


def split_scripts(text):
    return [p for p in re.split(r"(?m)^(?=SCRIPT )", text) if p.strip()]


def script_id(s):
    return int(s.split("\n", 1)[0].split()[1])


def run_sides(avh, scripts, tag):
    shards = [scripts[i::NSH] for i in range(NSH)]
    files = []
    for i, sh in enumerate(shards):
        if sh:
            p = os.path.join(CW, "%s.shard%d.txt" % (tag, i))
            with open(p, "w") as f:
                f.write("".join(sh))
            files.append(p)
    cmds = [[avh, "tree", "run", DUMP, p] for p in files] + [[AVM, DUMP, p] for p in files]

    def once(c):
        r = (1, "", 0)
        for _ in range(3):
            try:
                r = lib.run(c, WORK, 1500)
            except OSError as ex:
                r = (1, repr(ex), 0)
            if r[0] == 0:
                break
        return r
    with cf.ThreadPoolExecutor(max_workers=NSH) as ex:
        res = list(ex.map(once, cmds))
    impl, model, errs = {}, {}, []
    for k, (rc, out, _) in enumerate(res):
        side = impl if k < len(files) else model
        if rc != 0:
            errs.append("%s rc=%d %s" % (" ".join(cmds[k][:3]), rc, out[-300:]))
        for l in out.split("\n"):
            if l.startswith("S "):
                side[int(l.split()[1])] = l
    return impl, model, errs


def first_difference(avh, script):
    p = os.path.join(CW, "one.txt")
    with open(p, "w") as f:
        f.write(script)
    a = [l for l in lib.run([avh, "tree", "run", DUMP, p, "-v"], WORK, 300)[1].split("\n") if not l.startswith("  ")]
    b = [l for l in lib.run([AVM, DUMP, p, "-v"], WORK, 300)[1].split("\n") if not l.startswith("  ")]
    ops = [l for l in script.split("\n") if l.startswith("OP")]
    n = -1
    for x, y in zip(a, b):
        if x.startswith("R ") or x.startswith("Q "):
            n += 1
        if x != y:
            return n, (ops[n] if 0 <= n < len(ops) else "?"), x[:400], y[:400]
    if len(a) != len(b):
        return n, (ops[n] if 0 <= n < len(ops) else "?"), "(%d lines)" % len(a), "(%d lines)" % len(b)
    return None


def correspondence(ctx, avh, scripts, tag, name):
    impl, model, errs = run_sides(avh, scripts, tag)
    by_id = {script_id(s): s for s in scripts}
    bad = [k for k in sorted(by_id) if impl.get(k) is None or impl.get(k) != model.get(k)]
    mine, foreign = [], []
    for k in bad[:40]:
        d = first_difference(avh, by_id[k])
        if d is None:
            continue
        opname = d[1].split()[1] if len(d[1].split()) > 1 else "?"
        rec = {"script": k, "op_index": d[0], "op": d[1][:120], "impl": d[2], "model": d[3]}
        (mine if opname in MY_OPS else foreign).append(rec)
    if len(bad) > 40:
        ctx.notes.append("%s: %d further mismatching scripts not classified" % (name, len(bad) - 40))
    ok = not mine and not errs and len(impl) == len(by_id)
    detail = ""
    if mine:
        m = mine[0]
        detail = "script %d op#%d %s\n impl : %s\n model: %s" % (m["script"], m["op_index"], m["op"], m["impl"], m["model"])
    elif errs:
        detail = "; ".join(errs[:3])
    elif len(impl) != len(by_id):
        detail = "only %d of %d scripts reported by the implementation side" % (len(impl), len(by_id))
    ctx.oblige("correspondence:%s (real library vs extracted Coq model, %d scripts, observation after every operation)"
               % (name, len(by_id)), ok, detail)
    if foreign:
        ctx.notes.append("%s: %d scripts first differ at an operation outside C17 (e.g. %s) - not counted here"
                         % (name, len(foreign), foreign[0]["op"][:40]))
    return mine, by_id, len(bad)


def fields(line):
    return dict(x.split("=", 1) for x in line.split() if "=" in x and not x.startswith("post:"))


def known_class(line):
    """the two recorded classes, matched by their whole signature: the check is clean in all three outputs, the source text loads
    strictly, strict loading of the relabelled text fails with exactly the error of the class AND the harness's independent
    walk finds the cause in the document"""
    f = fields(line)
    if not (f.get("base") == "ok" and f.get("clean") == "1" and f.get("inmask") == "1" and f.get("setver") == "1"):
        return None
    strict = f.get("strict", "").split("@")[0]
    why = set(f.get("why", "-").split(","))
    if strict == "PRequiredSubelementMissing" and "short-name-missing" in why:
        return "short-name-required"
    if strict in VALUE_ERRORS and "value-revalidation" in why:
        return "value-revalidation"
    return None


def sweep(avh, seed, tier):
    cmds = [[avh, "compat", "sweep", DUMP, str(seed), tier, str(i), str(NSH)] for i in range(NSH)]
    with cf.ThreadPoolExecutor(max_workers=NSH) as ex:
        res = list(ex.map(lambda c: lib.run(c, WORK, 3000), cmds))
    lines, rc = [], 0
    for r in res:
        rc = rc or r[0]
        lines += r[1].split("\n")
    return rc, lines


def digest_oracle(lines):
    """-> (unexplained [(line, doc)], known {class: count}, totals)"""
    unexplained, known, tot = [], {}, {}
    pending = []
    for l in lines:
        if l.startswith("DISAGREE"):
            c = known_class(l)
            if c:
                known[c] = known.get(c, 0) + 1
            else:
                pending.append(l)
        elif l.startswith("DOC "):
            for p in pending:
                unexplained.append((p, l[4:]))
            pending = []
        elif l.startswith("STAT work=") or l.startswith("STAT checks="):
            for k, v in re.findall(r"(\w+)=(\d+)", l):
                if k != "work":
                    tot[k] = tot.get(k, 0) + int(v)
                else:
                    tot[k] = int(v)
        elif l.startswith("STAT docs kind="):
            m = re.search(r"kind=(\w+) n=(\d+)", l)
            tot["kind_" + m.group(1)] = tot.get("kind_" + m.group(1), 0) + int(m.group(2))
    for p in pending:
        unexplained.append((p, ""))
    return unexplained, known, tot


def doc_to_script(doc):
    return "SCRIPT 0\nPATHS\n" + "\n".join(x.strip() for x in doc.split(" ; ") if x.strip()) + "\n"


def run(tier, seed):
    ctx = Ctx("C17", tier, seed)
    os.makedirs(CW, exist_ok=True)
    import xmlcommon
    ok_tr, info = xmlcommon.translate_all(ctx)

    def t_sweeps():
        import compatsweep
        compatsweep.emit_compat_sweeps(info["spec"])
        return True
    lib.translate(ctx, [("compat-sweeps(coq/Gen/CompatSweep*.v from the current tables)", t_sweeps)])
    for attempt in range(3):
        shutil.rmtree(DUMP, ignore_errors=True)
        shutil.copytree(xmlcommon.DUMP, DUMP)
        if all(open(os.path.join(DUMP, f), "rb").read() == open(os.path.join(xmlcommon.DUMP, f), "rb").read() for f in os.listdir(DUMP)):
            break

    ctx.log("building Properties/C17.vo")
    ok, out, dt = lib.coq_make(["Properties/C17.vo"])
    ctx.oblige("coq:build-closure", ok, "failed files: %s\n%s" % (lib.coq_failed_files(out), out[-800:]) if not ok else "")
    if ok:
        lib.coq_hygiene(ctx, lib.closure_of("Properties/C17.vo"))
        lib.check_theorems(ctx, "Properties/C17.v", "pins/C17.json")
    ctx.log("coq done (%.0fs)" % dt)

    avh = private_avh(lib.harness_build(ctx))
    if os.environ.get("C17_AVH_OVERRIDE"):
        # mutation self-test only (tools/c17_mutate.sh): a harness built against a mutated private COPY of /repo
        avh = os.environ["C17_AVH_OVERRIDE"]
        ctx.notes.append("harness binary overridden: " + avh)
    rc, bout = build_runner()
    ctx.oblige("build:tree-model-runner(extraction of Tree/*.v incl. Compat.v, ocaml)", rc == 0, bout[-1200:] if rc else "")
    prop_fail = []
    if avh and rc == 0 and os.path.exists(os.path.join(DUMP, "spec_tables.txt")):
        # ---- generation
        gc = os.path.join(CW, "gen_compat.txt")
        gt = os.path.join(CW, "gen_tree.txt")
        ndocs = 1200 if tier == "thorough" else 160
        ntree = 800 if tier == "thorough" else 160
        r0 = lib.harness_run(avh, ["compat", "stats", DUMP])
        r1 = lib.harness_run(avh, ["compat", "gen", DUMP, str(seed), tier, gc, str(ndocs)])
        r2 = lib.harness_run(avh, ["tree", "gen", DUMP, str(seed), tier, gt, str(ntree)], env={"AVH_TREE_ENABLE": "compat"})
        gen_ok = r1[0] == 0 and r2[0] == 0 and os.path.exists(gc) and os.path.exists(gt)
        ctx.oblige("generator:table-driven documents + operation stream", gen_ok, (r1[1] + r2[1])[-400:] if not gen_ok else "")
        ctx.coverage["table_entries"] = [l for l in r0[1].split("\n") if l.startswith("STAT") and "SWITCH" not in l]
        ctx.coverage["generated"] = [l for l in r1[1].split("\n") if l.startswith("STAT")]
        ctx.coverage["stream_ops"] = dict((m[0], int(m[1]) + int(m[2])) for m in re.findall(r"STAT op=(check_compat|set_version) ok=(\d+) err=(\d+)", r2[1]))
        if gen_ok:
            s_c = split_scripts(open(gc).read())
            s_t = split_scripts(open(gt).read())
            ctx.log("generated %d + %d scripts" % (len(s_c), len(s_t)))
            # ---- correspondence
            mine1, ids1, bad1 = correspondence(ctx, avh, s_c, "compatgen", "documents with partial-mask table entries x 21 targets, set_version")
            mine2, ids2, bad2 = correspondence(ctx, avh, s_t, "stream", "operation stream with check_compat / set_version")
            for tag, mine, ids in (("documents", mine1, ids1), ("stream", mine2, ids2)):
                for m in mine[:5]:
                    prop_fail.append(("correspondence", dict(m, stream=tag, script_text=ids[m["script"]])))
            s_all = []
            if tier == "thorough":
                # every table entry once (script number = entry number): one single-entry document x 21 targets + set_version
                def gen_all(i):
                    p = os.path.join(CW, "gen_all_%d.txt" % i)
                    r = lib.harness_run(avh, ["compat", "gen", DUMP, str(seed), tier, p, "all", str(i), str(NSH)])
                    return split_scripts(open(p).read()) if r[0] == 0 and os.path.exists(p) else None
                with cf.ThreadPoolExecutor(max_workers=NSH) as ex:
                    parts = list(ex.map(gen_all, range(NSH)))
                ctx.oblige("generator:one document per table entry", all(p is not None for p in parts))
                s_all = [x for p in parts if p for x in p]
                mine3, ids3, bad3 = correspondence(ctx, avh, s_all, "entries", "one document per partial-mask table entry x 21 targets, set_version")
                for m in mine3[:5]:
                    prop_fail.append(("correspondence", dict(m, stream="entries", script_text=ids3[m["script"]])))
                bad2 += bad3
                ctx.coverage["entry_documents"] = len(s_all)
            nops = sum(s.count("OP2 check_compat") + s.count("OP2 set_version") for s in s_c + s_t + s_all)
            ctx.coverage["evaluations"] = nops
            ctx.coverage["traces_validated_against_impl"] = len(s_c) + len(s_t) + len(s_all) - bad1 - bad2
            ctx.log("correspondence done")
            # ---- direct oracle on the implementation: table sweep + the generated multi-entry documents
            src, lines = sweep(avh, seed, tier)
            r3 = lib.harness_run(avh, ["compat", "oracle", DUMP, gc])
            r4 = lib.harness_run(avh, ["compat", "oracle", DUMP, gt])
            un1, kn1, tot1 = digest_oracle(lines)
            un2, kn2, tot2 = digest_oracle(r3[1].split("\n"))
            un3, kn3, tot3 = digest_oracle(r4[1].split("\n"))
            for k, v in tot3.items():
                tot2[k] = tot2.get(k, 0) + v
            unexplained = [(l, d, None) for l, d in un1] + [(l, d, ids1) for l, d in un2] + [(l, d, ids2) for l, d in un3]
            known_counts = dict(kn1)
            for kn in (kn2, kn3):
                for k, v in kn.items():
                    known_counts[k] = known_counts.get(k, 0) + v
            ctx.coverage["oracle_sweep"] = tot1
            ctx.coverage["oracle_documents"] = tot2
            ctx.coverage["distinct_nontrivial"] = tot1.get("unclean", 0)
            ctx.coverage["known_class_occurrences"] = known_counts
            oracle_ran = src == 0 and r3[0] == 0 and r4[0] == 0 and tot1.get("checks", 0) > 0 and tot2.get("checks", 0) > 0
            ctx.oblige("oracle:strict load of the relabelled text <=> no incompatibility <=> target in mask <=> set_version Ok; then text "
                       "unchanged and strict reload as the target (implementation alone, %d file x target checks, %d with incompatibilities)"
                       % (tot1.get("checks", 0) + tot2.get("checks", 0), tot1.get("unclean", 0)),
                       oracle_ran and not unexplained, "\n".join(u[0] for u in unexplained[:6])[:1500] or "oracle did not run")
            for line, doc, ids in unexplained[:6]:
                st = doc_to_script(doc) if doc else ""
                m = re.search(r"script=(\d+)", line)
                if not st and m and ids:
                    st = ids.get(int(m.group(1)), "")
                prop_fail.append(("oracle", {"fail": line[:500], "script_text": st}))
            for l in [x for x in lines if x.startswith("SAMPLE")][:6]:
                ctx.samples.append({"oracle": l[:300]})
            ctx.log("oracle done")
        # ---- recorded findings: fixed ones must stay fixed on both channels, known ones are announced when they still occur
        for e in lib.load_known("C17"):
            r = json.load(open(os.path.join(VERIF, e["replay"])))
            p = os.path.join(CW, "known_%s.txt" % e["key"])
            open(p, "w").write(r["script"])
            ro = lib.harness_run(avh, ["compat", "oracle", DUMP, p])
            dis = [l for l in ro[1].split("\n") if l.startswith("DISAGREE")]
            if e["status"] == "fixed":
                good = ro[0] == 0 and not dis
                ctx.oblige("regression:%s" % e["key"], good, "the failure is back: %s" % dis[:2])
                if not good:
                    prop_fail.append(("regression", {"finding": e["key"], "fail": (dis or ["oracle did not run"])[0][:400], "script_text": r["script"]}))
            else:
                cls = set(known_class(l) for l in dis)
                if dis and cls == {e["key"]}:
                    ctx.known(e["what"])
                elif dis:
                    ctx.oblige("known-finding:%s keeps its signature" % e["key"], False, dis[0][:400])
                    prop_fail.append(("oracle", {"fail": dis[0][:400], "script_text": r["script"]}))
                else:
                    ctx.notes.append("known finding %s no longer reproduces (repaired?)" % e["key"])

    if ctx.broken:
        if prop_fail:
            for kind, rec in prop_fail[:6]:
                ctx.violation({"property": "C17", "kind": kind, "record": rec, "broken_obligations": ctx.broken,
                               "how_to_replay": "./check C17 --replay <this file>  (runs record.script_text: `avh compat oracle work/c17/dump f` and "
                                                "`avh tree run work/c17/dump f -v` vs `ocaml/_build/avm_tree work/c17/dump f -v`)"})
        else:
            ctx.violation({"property": "C17", "kind": "obligation", "broken_obligations": ctx.broken,
                           "detail": [o for o in ctx.obligations if not o[1]]}, found_input=False)
    return ctx.finish(
        level="proof",
        rule="documents are built from the specification tables: every sub-element / attribute / enumeration value (attribute and "
             "element text) whose version mask is partial, plus every sub-element, attribute and sample value of the 288 element types "
             "whose name has different types in different versions (counts in coverage.table_entries); quick samples 600 entries "
             "with one source version each and always adds every entry of those 288 version-switching types and every sub-element of the types whose content model nests a group in a group (index paths of length >= 3, enumerated from the specification: PRM-CHAR), thorough takes every entry in every source version in which it can be built; each "
             "document is checked against all 21 target versions (single-file and two-file models with elements restricted to one "
             "file). evaluations = check_compat / set_version operations compared between the real library and the extracted Coq "
             "model; distinct_nontrivial = oracle checks in which the library reported an incompatibility",
        trusted_base=["Coq 8.16.1 kernel incl. vm_compute", "Coq extraction to OCaml + ocaml/tree_driver.ml (glue: table loading, printing)",
                      "harness/src/tree.rs + compat.rs observation printing and the oracle's text relabelling (xsd file name in the header)",
                      "translator (specification tables as text for the model runner)",
                      "Tree/CompatSpec.v ValidIn as the meaning of `valid in version v` (top-down types as in parser.rs)"],
        checker_cmd="python3 tools/coqmake.py Properties/C17.vo && Print Assumptions per theorem; ocaml/build_tree.sh; avh tree run / avm_tree / avh compat sweep",
        assumptions=["Weak references always upgrade (the harness keeps every handle and model)",
                     "C17_exact_fixed is stated outside the classes K_recalc / K_skip (K_mixup - mask read from the stored type with the recalculated "
                     "type's indices, a panic on the real library - was fixed in /repo 96557f4 and is no side condition any more); C17_exact_histories_real: on the regenerated real "
                     "tables (PairOK and MaskOK by sweep) the check is exact after EVERY history of the 26-operation alphabet from the empty "
                     "world whose moves / copies satisfy attach_ok (the destination lists the element's name with the element's stored "
                     "datatype) - no hypothesis about the world; extended alphabet op2 (sort, set_version, check, serialize, "
                     "duplicate, loads of first files AND merges): C17_exact_histories2_real, nothing pending - invariant Core /\\ TypedU /\\ PM "
                     "(model-parented nodes carry the root type), loaded edges typed by Xml/LoadRecords `linked`, merges by PairOK; loads are "
                     "taken outside C03's Known_load (Core for the loader); a move / copy violating attach_ok really builds a "
                     "document that neither loads strictly in its own version nor is flagged (avh compat xattach, findings/"
                     "C17-attach-keeps-stored-type.json; C07's subject); C17_exact_refuted_* show the two remaining classes on a toy table set, C17_mixup_state_fixed is the former panic state",
                     "link to strict loading: C17_valid_loads / C17_clean_loads / C17_set_version_loads use the C01 theorems for the v-typed "
                     "per-file projection under the DECIDABLE side condition rootrestb; C17_ser_heap_is_projection / C17_file_text_loads: the "
                     "heap serializer writes exactly the text of that projection under SerCond (same content mode of stored and v-type, no "
                     "fully filtered non-empty content list), so the ACTUAL text of ArxmlFile::serialize loads strictly; the older "
                     "C17_exact_load / C17_set_version_reload (explicit RoundTrip hypothesis) are kept",
                     "value half: C17_value_compat_is_check_value / C17_value_mask_is_check_value / C17_text_is_check_value - for a value that fits its "
                     "specification in some version the compatibility verdict and mask for the target are exactly CharacterData::check_value for the "
                     "target (item masks; pattern and the length bound len <= max_length are version independent)",
                     "known (not repaired): SHORT-NAME required only in the target version; pattern/number re-validation of values when the element "
                     "type of a name differs between versions (both are failures of rootrestb, not of ValidIn)"])


def replay(path):
    r = json.load(open(path))
    text = r.get("script_text") or r.get("record", {}).get("script_text") or r.get("script")
    print(json.dumps({k: v for k, v in r.items() if k not in ("script_text", "script")}, indent=1)[:3000])
    if not text:
        return run("quick", 1)
    ctx = Ctx("C17", "quick", 1)
    os.makedirs(CW, exist_ok=True)
    if not os.path.exists(os.path.join(DUMP, "spec_tables.txt")):
        import xmlcommon
        xmlcommon.translate_all(ctx)
        shutil.rmtree(DUMP, ignore_errors=True)
        shutil.copytree(xmlcommon.DUMP, DUMP)
    avh = os.environ.get("C17_AVH_OVERRIDE") or private_avh(lib.harness_build(ctx))
    rc, bout = build_runner()
    if not avh or rc != 0:
        print("build failed")
        return 2
    p = os.path.join(CW, "replay.txt")
    open(p, "w").write(text)
    ro = lib.harness_run(avh, ["compat", "oracle", DUMP, p, "-v"])
    dis = [l for l in ro[1].split("\n") if l.startswith("DISAGREE")]
    for l in ro[1].split("\n"):
        if l.startswith("DISAGREE") or l.startswith("STAT"):
            print(l)
    bad = 0
    for s in split_scripts(text):
        d = first_difference(avh, s)
        if d is not None:
            bad += 1
            print("script %d differs at op#%d %s\n impl : %s\n model: %s" % (script_id(s), d[0], d[1], d[2], d[3]))
    unexplained = [l for l in dis if not known_class(l)]
    print("replay: oracle_disagreements=%d (unexplained %d) model_vs_impl_differences=%d" % (len(dis), len(unexplained), bad))
    return 1 if (unexplained or bad) else 0
