"""C11 — failed operations have no effect.
Operation half (every constructor of the operation alphabet of coq/Tree/Script.v): Coq theorems
coq/Properties/C11.v (C11_fail_no_effect, C11_fail_exact, Known11 classes with refuted witnesses), tied to the code by the
history correspondence and checked directly on the implementation by the oracle `state-changed-after-error`
(checks/treecommon.py, harness/src/tree_oracle.rs).
Load half ("a load rejected for a syntax error, a merge conflict or overlapping paths"): the C11-load oracle of
checks/c09.py (agent-c09's loader / merge streams), called through `extra_check`."""
import os, json
import lib, treecommon
from lib import VERIF

REPLAYS = ["C11-move-noname-after-detach", "C11-move-refwrite-after-detach", "C11-setref-after-dest"]


def _known_replays(ctx, avh, avm):
    """the three Known11 classes of coq/Tree/Fail.v on the implementation: each replay script (lenient load of a document
    with an empty / invalid SHORT-NAME, then the failing call) must (a) run identically on the implementation and on the
    extracted Coq model, (b) still show the partial effect (oracle line) - then it is printed as KNOWN-FINDING; when the
    library is repaired the oracle line disappears and the entry has to be turned into a fixed one."""
    known = {e["key"]: e for e in lib.load_known("C11")}
    tw = treecommon.TW
    os.makedirs(tw, exist_ok=True)
    for key in REPLAYS:
        fp = os.path.join(VERIF, "findings", key + ".json")
        if not os.path.exists(fp) or key not in known:
            ctx.oblige("replay:%s present" % key, False, "missing findings/%s.json or known_findings entry" % key)
            continue
        obj = json.load(open(fp))
        sp = os.path.join(tw, "c11_%s.txt" % key)
        open(sp, "w").write("\n".join(obj["script"]) + "\n")
        _, o1, _ = lib.run([avh, "tree", "run", treecommon.DUMP, sp], cwd=tw, timeout=300)
        _, o2, _ = lib.run([avm, treecommon.DUMP, sp], cwd=tw, timeout=300)
        a = [l for l in o1.split("\n") if l.startswith("S ")]
        b = [l for l in o2.split("\n") if l.startswith("S ")]
        ctx.oblige("correspondence:known-class-replay(%s: implementation vs extracted Coq model)" % key, a == b and len(a) == 1,
                   "impl %s model %s" % (a, b))
        _, o3, _ = lib.run([avh, "tree", "oracle", treecommon.DUMP, sp], cwd=tw, timeout=300)
        fails = [treecommon.parse_fail(l) for l in o3.split("\n") if l.startswith("FAIL C11 ")]
        hit = [f for f in fails if treecommon.known_match(known[key], f)]
        other = [f for f in fails if not any(treecommon.known_match(e, f) for e in known.values() if e.get("status") == "known")]
        ctx.oblige("oracle:known-class-replay(%s: no C11 failure outside the known classes)" % key, not other,
                   "; ".join(f["raw"] for f in other)[:400])
        if hit and known[key].get("status") == "known":
            ctx.known(known[key]["what"])
        elif known[key].get("status") == "known":
            ctx.notes.append("known finding %s no longer reproduces on the implementation" % key)


def _load_half(ctx, avh, avm, tier, seed):
    if avh and avm:
        _known_replays(ctx, avh, avm)
    try:
        import c09
    except Exception as e:  # the load half lives in another work package
        ctx.oblige("oracle:C11-load(import checks/c09.py)", False, repr(e)[:300])
        return
    if not hasattr(c09, "load_half"):
        ctx.oblige("oracle:C11-load(checks/c09.py exports load_half)", False, "checks/c09.py has no load_half")
        return
    res = c09.load_half(ctx, tier, seed, avh=avh)
    ctx.coverage["c11_load_half"] = {k: res.get(k) for k in ("ok", "checked", "rejected_by_error", "known", "merge_rejected")}


def run(tier, seed):
    return treecommon.run_tree_property(
        "C11", tier, seed, "Properties/C11.v",
        rule_extra="C11: the oracle compares the whole canonical observation before and after every call that returns Err "
                   "(kind=state-changed-after-error); the three Known11 classes of coq/Tree/Fail.v are matched by operation and "
                   "error variant (known_findings.json, 'detail'); rejected loads are checked by the C11-load oracle of checks/c09.py.",
        extra_check=_load_half,
        assumptions=["tables_ok11 (a type named in a version is not a character type and its SHORT-NAME type is not named) "
                     "is a hypothesis of C11_fail_no_effect about the specification tables"])


def replay(path):
    print(open(path).read())
    return run("quick", 1)
