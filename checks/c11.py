"""C11 — failed operations have no effect.
Operation half (every constructor of the operation alphabet of coq/Tree/Script.v): Coq theorems
coq/Properties/C11.v (C11_fail_no_effect, C11_fail_exact, Known11 classes with refuted witnesses), tied to the code by the
history correspondence and checked directly on the implementation by the oracle `state-changed-after-error`
(checks/treecommon.py, harness/src/tree_oracle.rs).
Load half ("a load rejected for a syntax error, a merge conflict or overlapping paths"): the C11-load oracle of
checks/c09.py (agent-c09's loader / merge streams), called through `extra_check`."""
import treecommon


def _load_half(ctx, avh, avm, tier, seed):
    try:
        import c09
    except Exception as e:  # the load half lives in another work package
        ctx.oblige("oracle:C11-load(import checks/c09.py)", False, repr(e)[:300])
        return
    if not hasattr(c09, "load_half"):
        ctx.oblige("oracle:C11-load(checks/c09.py exports load_half)", False, "checks/c09.py has no load_half")
        return
    res = c09.load_half(ctx, tier, seed, avh=avh)
    ctx.coverage["c11_load_half"] = {k: res.get(k) for k in ("ok", "checked", "rejected_by_error", "known", "merge_rejected")}


def run(tier, seed):
    return treecommon.run_tree_property(
        "C11", tier, seed, "Properties/C11.v",
        rule_extra="C11: the oracle compares the whole canonical observation before and after every call that returns Err "
                   "(kind=state-changed-after-error); the three Known11 classes of coq/Tree/Fail.v are matched by operation and "
                   "error variant (known_findings.json, 'detail'); rejected loads are checked by the C11-load oracle of checks/c09.py.",
        extra_check=_load_half,
        assumptions=["tables_ok11 (a type named in a version is not a character type and its SHORT-NAME type is not named) "
                     "is a hypothesis of C11_fail_no_effect about the specification tables"])


def replay(path):
    print(open(path).read())
    return run("quick", 1)
