"""C14 — Sorting is a content-preserving, idempotent canonicalisation.

Coq: Properties/C14.v over the model Tree/Sort.v (Element::cmp, decompose_item_name, CharacterData::cmp, Attribute::cmp,
ElementRaw::sort), for all specification tables and every stable sort.
Tie (every run, against /repo's working tree): the extracted model (`ocaml/_build/avm_tree`) and the real library
(`avh tree run`) execute the same scripts and must print the same observation after every operation:
  * sort-specific shapes (`avh sort gen`): every permutation of sibling multisets - AR-PACKAGEs named from the pool
    a2 a10 a1b a01 b a a1 a_1 (all ordered selections of up to 4; thorough: sampled 5/6), mixed kinds in an ELEMENTS bag, an
    `ordered` container, INDEX sub-elements (hex/octal/binary/invalid/overflowing texts), DEFINITION-REF keyed values with and
    without key, references differing in DEST, comment-only differences, floats incl. NaN / -0.0, attributes, nested
    containers, mixed content, a type whose sub-element position depends on the version; each script observes the full
    Element::cmp matrix of the siblings, sorts twice, sorts the whole model
  * the general operation stream of `avh tree gen` with the sort family enabled.
Direct oracle on the implementation alone (`avh sort oracle`): around every sort - same elements / names / attributes /
values / comments / parents, children permuted only where permitted and sorted afterwards, index maps, path lookups,
referrer lists and check_references unchanged, serialized lines the same multiset, strict reload still succeeds, a second
sort changes nothing; across scripts: every order of one sibling multiset ends in the same text (comments aside)."""
import os, re, json, subprocess
import concurrent.futures as cf
import lib
from lib import Ctx, WORK, VERIF

CW = os.path.join(WORK, "c14")
# a private copy of the translator's text dump: other checks running in parallel rewrite work/dump while our runners read it
DUMP = os.path.join(CW, "dump")
AVM = os.path.join(VERIF, "ocaml", "_build", "avm_tree")
NSH = 16
SORT_OPS = ("sort", "sort_model", "cmp_kids")


def build_runner():
    """ocaml/build_tree.sh is shared with the other tree properties; somebody else's half-finished edit of the extraction list or
    the driver breaks it for a few minutes: try again before calling the obligation broken"""
    import time
    for attempt in range(4):
        rc, bout, _ = lib.run([os.path.join(VERIF, "ocaml", "build_tree.sh")], timeout=1800)
        if rc == 0:
            break
        time.sleep(45)
    return rc, bout


def split_scripts(text):
    parts = re.split(r"(?m)^(?=SCRIPT )", text)
    return [p for p in parts if p.strip()]


def script_id(s):
    return int(s.split("\n", 1)[0].split()[1])


def run_sides(avh, scripts, tag):
    """runs impl and model on the scripts (sharded); returns (impl: id -> S line, model: id -> S line, errors)"""
    os.makedirs(CW, exist_ok=True)
    shards = [scripts[i::NSH] for i in range(NSH)]
    files = []
    for i, sh in enumerate(shards):
        if not sh:
            continue
        p = os.path.join(CW, "%s.shard%d.txt" % (tag, i))
        with open(p, "w") as f:
            f.write("".join(sh))
        files.append(p)
    cmds = [[avh, "tree", "run", DUMP, p] for p in files] + [[AVM, DUMP, p] for p in files]
    def once(c):
        r = lib.run(c, WORK, 1500)
        for _ in range(2):          # a runner that died (e.g. while the machine was out of memory) is started again
            if r[0] == 0:
                break
            r = lib.run(c, WORK, 1500)
        return r
    with cf.ThreadPoolExecutor(max_workers=NSH) as ex:
        res = list(ex.map(once, cmds))
    impl, model, errs = {}, {}, []
    for k, (rc, out, _) in enumerate(res):
        side = impl if k < len(files) else model
        if rc != 0:
            errs.append("%s rc=%d %s" % (" ".join(cmds[k][:3]), rc, out[-300:]))
        for l in out.split("\n"):
            if l.startswith("S "):
                side[int(l.split()[1])] = l
    return impl, model, errs


def first_difference(avh, script):
    """verbose run of one script on both sides: (op index, op line, impl line, model line) of the first difference"""
    p = os.path.join(CW, "one.txt")
    with open(p, "w") as f:
        f.write(script)
    a = lib.run([avh, "tree", "run", DUMP, p, "-v"], WORK, 300)[1].split("\n")
    b = lib.run([AVM, DUMP, p, "-v"], WORK, 300)[1].split("\n")
    a = [l for l in a if not l.startswith("  ")]
    b = [l for l in b if not l.startswith("  ")]
    ops = [l for l in script.split("\n") if l.startswith("OP")]
    n = -1
    for x, y in zip(a, b):
        if x.startswith("R ") or x.startswith("Q "):
            n += 1
        if x != y:
            return n, (ops[n] if 0 <= n < len(ops) else "?"), x[:300], y[:300]
    if len(a) != len(b):
        return n, (ops[n] if 0 <= n < len(ops) else "?"), "(%d lines)" % len(a), "(%d lines)" % len(b)
    return None


def correspondence(ctx, avh, scripts, tag, name):
    impl, model, errs = run_sides(avh, scripts, tag)
    by_id = {script_id(s): s for s in scripts}
    bad = [k for k in sorted(by_id) if impl.get(k) is None or impl.get(k) != model.get(k)]
    mine, foreign, details = [], [], []
    for k in bad[:40]:
        d = first_difference(avh, by_id[k])
        if d is None:
            continue
        opname = d[1].split()[1] if len(d[1].split()) > 1 else "?"
        rec = {"script": k, "op_index": d[0], "op": d[1][:120], "impl": d[2], "model": d[3]}
        if opname in SORT_OPS:
            mine.append(rec)
        else:
            foreign.append(rec)
    if len(bad) > 40:
        ctx.notes.append("%s: %d further mismatching scripts not classified" % (name, len(bad) - 40))
    ok = not mine and not errs and len(impl) == len(by_id)
    detail = ""
    if mine:
        m = mine[0]
        detail = "script %d op#%d %s\n impl : %s\n model: %s" % (m["script"], m["op_index"], m["op"], m["impl"], m["model"])
    elif errs:
        detail = "; ".join(errs[:3])
    elif len(impl) != len(by_id):
        detail = "only %d of %d scripts reported by the implementation side" % (len(impl), len(by_id))
    ctx.oblige("correspondence:%s (real library vs extracted Coq model, %d scripts, observation after every operation)"
               % (name, len(by_id)), ok, detail)
    if foreign:
        ctx.notes.append("%s: %d scripts first differ at an operation outside C14 (e.g. %s) - not counted here"
                         % (name, len(foreign), foreign[0]["op"][:40]))
    return mine, foreign, by_id, len(bad)


def oracle(avh, paths):
    rc, out, _ = lib.harness_run(avh, ["sort", "oracle", DUMP] + paths, timeout=1500)
    fails = [l for l in out.split("\n") if l.startswith("FAIL")]
    stat = [l for l in out.split("\n") if l.startswith("STAT")]
    return rc, fails, stat


def run(tier, seed):
    ctx = Ctx("C14", tier, seed)
    os.makedirs(CW, exist_ok=True)
    import xmlcommon
    ok_tr, info = xmlcommon.translate_all(ctx)
    import shutil
    for attempt in range(3):
        shutil.rmtree(DUMP, ignore_errors=True)
        shutil.copytree(xmlcommon.DUMP, DUMP)
        same = all(open(os.path.join(DUMP, f), "rb").read() == open(os.path.join(xmlcommon.DUMP, f), "rb").read()
                   for f in os.listdir(DUMP))
        if same:
            break

    ctx.log("building Properties/C14.vo")
    ok, out, dt = lib.coq_make(["Properties/C14.vo"])
    ctx.oblige("coq:build-closure", ok, "failed files: %s\n%s" % (lib.coq_failed_files(out), out[-800:]) if not ok else "")
    if ok:
        lib.coq_hygiene(ctx, lib.closure_of("Properties/C14.vo"))
        lib.check_theorems(ctx, "Properties/C14.v", "pins/C14.json")
    ctx.log("coq done (%.0fs)" % dt)

    avh = lib.harness_build(ctx)
    rc, bout = build_runner()
    ctx.oblige("build:tree-model-runner(extraction of Tree/*.v incl. Sort.v, ocaml)", rc == 0, bout[-1200:] if rc else "")
    prop_fail = []      # concrete failing inputs: (kind, record)
    if avh and rc == 0 and os.path.exists(os.path.join(DUMP, "spec_tables.txt")):
        # ---- generation
        gs = os.path.join(CW, "gen_sort.txt")
        gt = os.path.join(CW, "gen_tree.txt")
        r1 = lib.harness_run(avh, ["sort", "gen", DUMP, str(seed), tier, gs])
        n_tree = 1200 if tier == "thorough" else 250
        r2 = lib.harness_run(avh, ["tree", "gen", DUMP, str(seed), tier, gt, str(n_tree)], env={"AVH_TREE_ENABLE": "sort"})
        gen_ok = r1[0] == 0 and r2[0] == 0 and os.path.exists(gs) and os.path.exists(gt)
        ctx.oblige("generator:sort shapes + operation stream", gen_ok, (r1[1] + r2[1])[-400:] if not gen_ok else "")
        fam = dict(re.findall(r"STAT family=(\S+) scripts=(\d+)", r1[1]))
        ctx.coverage["families"] = {k: int(v) for k, v in fam.items()}
        ctx.coverage["stream_ops"] = dict((m[0], int(m[1])) for m in re.findall(r"STAT op=(sort\w*) ok=(\d+)", r2[1]))
        if gen_ok:
            s_sort = split_scripts(open(gs).read())
            s_tree = split_scripts(open(gt).read())
            # the replays of the recorded findings run through the correspondence and the oracle as well
            known = lib.load_known("C14")
            ctx.log("generated %d + %d scripts" % (len(s_sort), len(s_tree)))
            # ---- correspondence
            mine1, _, ids1, bad1 = correspondence(ctx, avh, s_sort, "sortgen", "sort shapes (all permutations of sibling multisets)")
            mine2, foreign2, ids2, bad2 = correspondence(ctx, avh, s_tree, "stream", "operation stream with sort / sort_model")
            for tag, mine, ids in (("sort-shapes", mine1, ids1), ("stream", mine2, ids2)):
                for m in mine[:5]:
                    prop_fail.append(("correspondence", dict(m, stream=tag, script_text=ids[m["script"]])))
            nsort_ops = sum(s.count("OP2 sort") for s in s_sort) + sum(s.count("OP2 sort") for s in s_tree)
            ncmp = sum(s.count("OP2 cmp_kids") for s in s_sort)
            ctx.coverage["evaluations"] = nsort_ops + ncmp
            ctx.coverage["traces_validated_against_impl"] = len(s_sort) + len(s_tree) - bad1 - bad2
            ctx.coverage["sort_operations"] = nsort_ops
            ctx.coverage["cmp_matrices"] = ncmp
            ctx.log("correspondence done")
            # ---- direct oracle on the implementation
            orc, fails, stat = oracle(avh, [gs])
            orc2, fails2, stat2 = oracle(avh, [gt])
            ctx.coverage["oracle"] = stat + stat2
            m = re.search(r"sort_checks=(\d+) groups=(\d+)", " ".join(stat))
            ctx.coverage["distinct_nontrivial"] = int(m.group(1)) if m else 0
            ctx.coverage["order_independence_groups"] = int(m.group(2)) if m else 0
            allf = [(f, ids1) for f in fails] + [(f, ids2) for f in fails2]
            ctx.oblige("oracle:sort preserves content, permutes only where permitted, leaves lookups intact, is idempotent and order independent "
                       "(implementation alone, %s)" % " ".join(stat + stat2)[:160],
                       orc == 0 and orc2 == 0 and bool(stat) and bool(stat2) and not allf, "\n".join(f for f, _ in allf[:6])[:1500])
            for f, ids in allf[:8]:
                ks = re.findall(r"script=(\d+)", f) or re.findall(r"scripts=([\d,]+)", f)
                klist = [int(x) for x in ks[0].split(",")] if ks else []
                prop_fail.append(("oracle", {"fail": f[:400], "script_text": "".join(ids[k] for k in klist[:6] if k in ids)}))
            ctx.samples += [{"script": k, "impl": "agrees with the model", "ops": ids1[k].count("\nOP")} for k in list(ids1)[:4]]
            # ---- recorded findings (all fixed): the replay must pass on both channels
            for e in known:
                r = json.load(open(os.path.join(VERIF, e["replay"])))
                p = os.path.join(CW, "known_%s.txt" % e["key"])
                open(p, "w").write(r["script_text"])
                krc, kf, kstat = oracle(avh, [p])
                ks = split_scripts(r["script_text"])
                ki, km, kerr = run_sides(avh, ks, "known_" + e["key"])
                kbad = [k for k in ki if ki.get(k) != km.get(k)]
                good = krc == 0 and not kf and not kbad and not kerr and len(ki) == len(ks)
                if e["status"] == "fixed":
                    ctx.oblige("regression:%s" % e["key"], good, "the failure is back: %s %s" % (kf[:2], kbad[:3]))
                    if not good:
                        prop_fail.append(("regression", {"finding": e["key"], "fail": (kf or ["model/implementation differ"])[0][:300],
                                                        "script_text": r["script_text"]}))
                elif kf:
                    ctx.known(e["what"])

    if ctx.broken:
        if prop_fail:
            for kind, rec in prop_fail[:6]:
                ctx.violation({"property": "C14", "kind": kind, "record": rec, "broken_obligations": ctx.broken,
                               "how_to_replay": "./check C14 --replay <this file>  (runs record.script_text: `avh tree run work/dump f -v` vs "
                                                "`ocaml/_build/avm_tree work/dump f -v` and `avh sort oracle work/dump f`)"})
        else:
            ctx.violation({"property": "C14", "kind": "obligation", "broken_obligations": ctx.broken,
                           "detail": [o for o in ctx.obligations if not o[1]]}, found_input=False)
    return ctx.finish(
        level="proof",
        rule="every permutation of each generated sibling multiset (families and sizes in coverage.families; package names: all ordered "
             "selections of up to 4 of 8 pool names) + the random operation stream with sort enabled; evaluations = sort operations and "
             "comparison matrices compared between the real library and the extracted Coq model; distinct_nontrivial = sort operations "
             "checked by the direct oracle",
        trusted_base=["Coq 8.16.1 kernel incl. vm_compute", "Coq extraction to OCaml + ocaml/tree_driver.ml (glue: table loading, printing)",
                      "harness/src/tree.rs + sortgen.rs observation printing (both sides print the same canonical lines)",
                      "translator (specification tables as text for the model runner)",
                      "slice::sort_by is a stable sort (StableSort); for <= 20 elements it is the insertion sort the model runs"],
        checker_cmd="python3 tools/coqmake.py Properties/C14.vo && Print Assumptions per theorem; ocaml/build_tree.sh; avh tree run / avm_tree / avh sort oracle",
        assumptions=["Weak references always upgrade (the harness keeps every handle)",
                     "C14_never_fails: every child is findable in its parent's type with version mask u32::MAX (established by every insertion "
                     "path: create / load / move / copy check find_sub_element with a narrower mask) - hypothesis SortReady",
                     "Element::cmp has no panic site in the Rust; the model's Pan sites in cmp (dangling id, name outside its table) have no counterpart",
                     "C14_equiv_is_comment_only: name tables injective, float bits < 2^64; cmp never reads element type, file membership, comment"])


def replay(path):
    r = json.load(open(path))
    text = r.get("script_text") or r.get("record", {}).get("script_text")
    print(json.dumps({k: v for k, v in r.items() if k != "script_text"}, indent=1)[:3000])
    if not text:
        return run("quick", 1)
    ctx = Ctx("C14", "quick", 1)
    os.makedirs(CW, exist_ok=True)
    avh = lib.harness_build(ctx)
    rc, bout = build_runner()
    if not avh or rc != 0:
        print("build failed")
        return 2
    p = os.path.join(CW, "replay.txt")
    open(p, "w").write(text)
    orc, fails, stat = oracle(avh, [p])
    for l in fails + stat:
        print(l)
    bad = 0
    for s in split_scripts(text):
        d = first_difference(avh, s)
        if d is not None:
            bad += 1
            print("script %d differs at op#%d %s\n impl : %s\n model: %s" % (script_id(s), d[0], d[1], d[2], d[3]))
    print("replay: oracle_fails=%d model_vs_impl_differences=%d" % (len(fails), bad))
    return 1 if (fails or bad) else 0
